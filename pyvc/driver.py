"""pyvc.driver -- runs the tasks of one property's contract module, writes the
evidence file, prints VIOLATION / KNOWN-FINDING lines and sets the exit code.

Exit codes: 0 all obligations discharged (only listed known findings refuted);
1 an obligation was refuted that is not a listed known finding; 2 undecided
(solver unknown / timeout) and nothing refuted; 3 checker error.  2 and 3 are
never reported as a violation.
"""
from __future__ import annotations

import fnmatch
import glob
import importlib
import json
import multiprocessing as mp
import os
import sys
import time
import traceback

ROOT = os.path.dirname(os.path.dirname(os.path.abspath(__file__)))

BASE_ASSUMPTIONS = {
    "A1": "A1: floats are modelled as mathematical reals and Python ints as mathematical integers; no rounding, overflow, NaN",
    "S4": "S4: every symbolic branch of the real code is explored both ways; a path is pruned only by an unsat answer from z3",
    "S5": "S5: each pyvc.symtorch op has the value semantics (incl. view aliasing) of the torch op it replaces; validated differentially per run on the contracted functions, otherwise trusted",
    "S7": "S7: device is CPU; CUDA branches are dead code for the proof",
    "S8": "S8: autograd is not modelled (detach/no_grad/requires_grad_ are no-ops)",
}


def _run_task(args):
    modname, taskname, prop, tier, seed = args
    t0 = time.time()
    sys.setrecursionlimit(20000)
    from pyvc.api import Ctx
    from pyvc import smt

    ctx = Ctx(prop, taskname, tier, seed)
    out = {"task": taskname, "error": None}
    try:
        mod = importlib.import_module(modname)
        fn = getattr(mod, "task_" + taskname)
        fn(ctx)
    except Exception:
        out["error"] = traceback.format_exc(limit=12)
    out.update(
        results=ctx.results,
        functions=ctx.functions,
        assumptions=ctx.assumptions,
        not_decided=ctx.not_decided,
        bounded=ctx.bounded,
        samples=ctx.samples,
        notes=ctx.notes,
        crosschecks=ctx.crosschecks,
        wall_s=round(time.time() - t0, 3),
        solver=dict(smt.STATS),
    )
    return out


def _obligation_listing(results, limit=400):
    full = [{"id": r["id"], "status": r["status"], "backend": r["backend"], "time_s": r["time_s"], **({"shape": r["shape"]} if r.get("shape") else {})} for r in results]
    if len(full) <= limit:
        return full
    # many obligations are the same clause on different paths: aggregate by clause (id without the @path suffix)
    agg = {}
    for r in full:
        clause = r["id"].split("@")[0]
        a = agg.setdefault(clause, {"clause": clause, "count": 0, "discharged": 0, "backends": {}, "max_time_s": 0.0})
        a["count"] += 1
        a["discharged"] += r["status"] == "discharged"
        a["backends"][r["backend"]] = a["backends"].get(r["backend"], 0) + 1
        a["max_time_s"] = max(a["max_time_s"], r["time_s"])
    out = list(agg.values())
    return {"aggregated_by_clause": out[:1500], "clauses": len(out), "obligations": len(full), "not_discharged": [r for r in full if r["status"] != "discharged"][:200]}


def load_known():
    path = os.path.join(ROOT, "known_findings.json")
    if not os.path.exists(path):
        return []
    return json.load(open(path)).get("findings", [])


def match_known(known, prop, r):
    for k in known:
        if k.get("status") != "open" or k.get("property") != prop:
            continue
        if not fnmatch.fnmatchcase(r["id"], k.get("obligation", "")):
            continue
        wc = k.get("witness_class")
        if wc is not None and wc != r.get("witness_class"):
            continue
        return k
    return None


def main(argv=None):
    import argparse

    ap = argparse.ArgumentParser()
    ap.add_argument("prop", nargs="?")
    ap.add_argument("--tier", default=os.environ.get("VERIF_TIER", "quick"))
    ap.add_argument("--replay")
    ap.add_argument("--tasks", default=None, help="comma-separated subset (debugging; evidence marks it partial)")
    ap.add_argument("--jobs", type=int, default=int(os.environ.get("VERIF_JOBS", "0")) or min(16, os.cpu_count() or 4))
    a = ap.parse_args(argv)
    seed = int(os.environ.get("VERIF_SEED", "0"))
    os.chdir(ROOT)
    sys.path.insert(0, ROOT)
    if a.replay:
        return replay_file(a.replay)
    prop = a.prop
    t0 = time.time()
    mods = sorted(glob.glob(os.path.join(ROOT, "contracts", prop + "_*.py")))
    if not mods:
        print("no contract module for", prop)
        return 3
    modname = "contracts." + os.path.basename(mods[0])[:-3]
    try:
        mod = importlib.import_module(modname)
    except Exception:
        traceback.print_exc()
        print("CHECKER-ERROR: contract module failed to import")
        return 3
    tasks = list(getattr(mod, "TASKS_QUICK")) if a.tier == "quick" else list(getattr(mod, "TASKS_THOROUGH", getattr(mod, "TASKS_QUICK")))
    partial = False
    if a.tasks:
        want = a.tasks.split(",")
        extra = list(getattr(mod, "TASKS_EXTRA", []))  # tasks beyond the property: only ever run when named explicitly
        tasks = [t for t in tasks + [x for x in extra if x not in tasks] if t in want]
        partial = True
    jobs = [(modname, t, prop, a.tier, seed) for t in tasks]
    ctxm = mp.get_context("fork")
    # wall-clock guard: a registered command must return.  A task that has not finished when the budget is spent is recorded as ONE
    # undecided obligation (exit 2), never as a pass and never as a violation, and its worker is terminated.
    budget = float(os.environ.get("VERIF_TASK_TIMEOUT", "2400" if a.tier == "quick" else "10800"))
    if a.jobs > 1 and len(jobs) > 1:
        pool = ctxm.Pool(min(a.jobs, len(jobs)), maxtasksperchild=1)
        try:
            pending = [pool.apply_async(_run_task, (j,)) for j in jobs]
            deadline = time.time() + budget
            outs = []
            for j, ar in zip(jobs, pending):
                try:
                    outs.append(ar.get(timeout=max(1.0, deadline - time.time())))
                except mp.TimeoutError:
                    outs.append({"task": j[1], "error": None, "results": [{"id": "%s.%s.finishes-within-the-wall-clock-budget" % (prop, j[1]), "status": "unknown", "backend": "none", "time_s": budget,
                                                                             "detail": "task did not finish within %.0f s (VERIF_TASK_TIMEOUT); nothing it might have decided is counted" % budget}],
                                 "functions": [], "assumptions": [], "not_decided": ["task %s: timed out" % j[1]], "bounded": [], "samples": [], "notes": [], "crosschecks": 0, "wall_s": budget, "solver": {}})
        finally:
            pool.terminate()
            pool.join()
    else:
        outs = [_run_task(j) for j in jobs]

    known = load_known()
    results, functions, assumptions, not_decided, bounded, samples, notes = [], [], [], [], [], [], []
    errors = []
    crosschecks = 0
    solver_time = {"z3_calls": 0, "z3_time": 0.0, "cvc5_calls": 0, "cvc5_time": 0.0}
    task_wall = {}
    for o in outs:
        if o["error"]:
            errors.append((o["task"], o["error"]))
        results.extend(o["results"])
        for f in o["functions"]:
            if f not in functions:
                functions.append(f)
        for x in o["assumptions"]:
            if x not in assumptions:
                assumptions.append(x)
        for x in o["not_decided"]:
            if x not in not_decided:
                not_decided.append(x)
        bounded.extend(o["bounded"])
        samples.extend(o["samples"])
        notes.extend(o["notes"])
        crosschecks += o["crosschecks"]
        task_wall[o["task"]] = o["wall_s"]
        for k in solver_time:
            solver_time[k] += o["solver"].get(k, 0)

    os.makedirs(os.path.join(ROOT, "replay_out"), exist_ok=True)
    os.makedirs(os.path.join(ROOT, "evidence"), exist_ok=True)
    discharged = [r for r in results if r["status"] == "discharged"]
    refuted = [r for r in results if r["status"] == "refuted"]
    unknown = [r for r in results if r["status"] == "unknown"]
    err_obl = [r for r in results if r["status"] == "error"]
    skipped = [r for r in results if r["status"] == "skipped"]
    results = [r for r in results if r["status"] != "skipped"]
    violations, known_hit = [], []
    for r in refuted:
        k = match_known(known, prop, r)
        if k is not None:
            known_hit.append((k, r))
        else:
            violations.append(r)
    lines = []
    seen_k = {}
    for k, r in known_hit:
        seen_k.setdefault(k["id"], [k, []])[1].append(r["id"])
    for kid, (k, ids) in seen_k.items():
        lines.append("KNOWN-FINDING: property=%s %s: %s [%d obligation(s): %s]" % (prop, kid, k["what"], len(ids), ", ".join(ids[:3]) + (" ..." if len(ids) > 3 else "")))
    for r in violations:
        path = os.path.join(ROOT, "replay_out", r["id"].replace("/", "_") + ".json")
        rep = r.get("replay")
        with open(path, "w") as f:
            json.dump({"property": prop, "obligation": r["id"], "result": r, "functions": functions}, f, indent=1, default=str)
        tail = "" if (rep and rep.get("reproduced")) else " no-failing-input-found"
        lines.append("VIOLATION property=%s replay=%s obligation=%s%s" % (prop, path, r["id"], tail))
    by_backend = {}
    for r in discharged:
        by_backend[r["backend"]] = by_backend.get(r["backend"], 0) + 1
    n_in_force = len(results) - len(known_hit)
    sample_obs = [{"id": r["id"], "status": r["status"], "backend": r["backend"], "time_s": r["time_s"]} for r in results[:6]]
    ev = {
        "property_id": prop,
        "tier": a.tier,
        "seed": seed,
        "level": "proof",
        "coverage": {
            "obligations": n_in_force,
            "discharged": len(discharged),
            "obligations_total_including_known_findings": len(results),
            "refuted_known": len(known_hit),
            "refuted_new": len(violations),
            "undecided": len(unknown),
            "skipped_after_refutation_of_same_clause": len(skipped),
            "engine_errors": len(err_obl) + len(errors),
            "checker_cmd": "./check %s --tier %s" % (prop, a.tier),
            "trusted_base": [
                "pyvc (own VC generator: expr/poly/symtorch/explore/world, /verif/pyvc)",
                "z3 5.1.0 (python wheel)", "cvc5 1.0.3 (/usr/bin/cvc5, on z3 unknowns)", "CPython 3.12 executing the real function objects",
                "numpy object-array semantics",
            ],
            "by_backend": by_backend,
            "solver_time_s": {k: round(v, 3) for k, v in solver_time.items()},
            "functions_under_contract": functions,
            "bounded": bounded,
            "shim_crosschecks": crosschecks,
            "not_decided": not_decided,
            "known_findings_hit": [{"finding": k["id"], "obligation": r["id"], "witness_class": r.get("witness_class"), "model": r.get("model"), "replay": r.get("replay")} for k, r in known_hit],
            "samples": sample_obs + samples[:3],
            "all_obligations": _obligation_listing(results),
            "task_wall_s": task_wall,
            "partial_run": partial,
            "notes": notes,
        },
        "assumptions": [BASE_ASSUMPTIONS[k] for k in ("A1", "S4", "S5", "S7", "S8")] + assumptions,
        "wall_s": round(time.time() - t0, 3),
        "violations": len(violations),
    }
    # a partial run (--tasks) must not replace the evidence of the registered command
    # ... nor must a run against another source tree (PYVC_SCRATCH_RUN=1: seeded changes are checked in a scratch worktree put first on PYTHONPATH)
    scratch = partial or os.environ.get("PYVC_SCRATCH_RUN") == "1"
    evpath = os.path.join(ROOT, "evidence", prop + ".json") if not scratch else os.path.join(ROOT, "replay_out", "partial-evidence." + prop + ".json")
    os.makedirs(os.path.dirname(evpath), exist_ok=True)
    with open(evpath, "w") as f:
        json.dump(ev, f, indent=1, default=str)
    for ln in lines:
        print(ln)
    print("%s tier=%s obligations=%d discharged=%d known=%d new-refuted=%d undecided=%d errors=%d wall=%.1fs" % (
        prop, a.tier, len(results), len(discharged), len(known_hit), len(violations), len(unknown), len(err_obl) + len(errors), time.time() - t0))
    for t, e in errors:
        print("CHECKER-ERROR in task %s:\n%s" % (t, e))
    for r in err_obl:
        print("CHECKER-ERROR obligation %s: %s" % (r["id"], r.get("detail")))
    for r in unknown:
        print("UNDECIDED %s: %s" % (r["id"], (r.get("detail") or "")[:300]))
    if len(results) == 0 and not errors:
        print("CHECKER-ERROR: zero obligations generated")
        return 3
    if violations:
        return 1
    if errors or err_obl:
        return 3
    if unknown:
        return 2
    return 0


def replay_file(path):
    d = json.load(open(path))
    print(json.dumps({"obligation": d["obligation"], "detail": d["result"].get("detail"), "model": d["result"].get("model"), "replay": d["result"].get("replay")}, indent=1, default=str))
    mods = sorted(glob.glob(os.path.join(ROOT, "contracts", d["property"] + "_*.py")))
    if mods:
        mod = importlib.import_module("contracts." + os.path.basename(mods[0])[:-3])
        rp = getattr(mod, "replay_obligation", None)
        if rp is not None:
            out = rp(d["obligation"], d["result"].get("model") or {})
            print(json.dumps(out, indent=1, default=str))
            return 1 if out and out.get("reproduced") else 0
    return 0


if __name__ == "__main__":
    sys.exit(main())
