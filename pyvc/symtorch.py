"""pyvc.symtorch -- a thin torch look-alike over numpy object arrays of `Sym`.

Only value semantics (incl. view aliasing for basic indexing / reshape /
transpose / diagonal / expand and in-place methods) are modelled.  Floats are
reals; autograd is not modelled (requires_grad_/detach/no_grad are no-ops,
backward()/autograd.grad raise Unmodelled).  Integer and boolean tensors that
do not depend on symbolic data are native numpy arrays, so index arithmetic is
executed concretely.  Every op used by a contracted function is differentially
validated against real torch on random concrete inputs (pyvc.crosscheck).
"""
from __future__ import annotations

import builtins
import math
import operator
import types
from fractions import Fraction

import numpy as np
import torch as _rt  # the real torch (dtype/device objects, conversion of real tensors)

from . import expr as E
from .expr import Sym, Unmodelled

# ---------------------------------------------------------------------------
# dtypes / devices (the real torch objects, so `x.dtype == torch.float64` works)
float16, float32, float64, double, float = _rt.float16, _rt.float32, _rt.float64, _rt.float64, _rt.float32
int8, int16, int32, int64, long, int, uint8 = _rt.int8, _rt.int16, _rt.int32, _rt.int64, _rt.int64, _rt.int32, _rt.uint8
bool = _rt.bool
complex64, complex128 = _rt.complex64, _rt.complex128
device = _rt.device
dtype = _rt.dtype
Size = _rt.Size
pi = math.pi
inf = math.inf
_CPU = _rt.device("cpu")
_FLOATS = (_rt.float16, _rt.float32, _rt.float64)
_INTS = (_rt.int8, _rt.int16, _rt.int32, _rt.int64, _rt.uint8)
_default_dtype = [_rt.float64]

GHOST = {"rng_draws": [], "rng_events": []}  # ghost RNG: every draw is a fresh symbol, recorded in order
# stop-gradient tracking (off by default): with it on, x.detach() / x.data and every float tensor produced inside a no_grad
# region hold fresh variables "sg#k" in place of their elements; TAPE["origin"] maps each such variable to the expression it
# stands for.  Values are recovered by substituting the origins back; the autograd linearisation treats sg#k as constants.
TAPE = {"on": False, "depth": 0, "origin": {}, "by_node": {}}


def tape_reset(on):
    TAPE.update(on=builtins.bool(on), depth=0, origin={}, by_node={})


def _sg_sym(v):
    n = v.n if isinstance(v, Sym) else E.node_of(v)
    if n.op == "const" or n.sort != E.R or (n.op == "var" and n.val in TAPE["origin"]):
        return v
    hit = TAPE["by_node"].get(n.id)
    if hit is None:
        name = "sg#%d" % len(TAPE["origin"])
        hit = E.var(name, E.R)
        TAPE["origin"][name] = n
        TAPE["by_node"][n.id] = hit
    return Sym(hit)


_sg_vec = np.frompyfunc(_sg_sym, 1, 1)


def _sg_array(a):
    out = _sg_vec(a)
    if not isinstance(out, np.ndarray):
        o = np.empty((), dtype=object)
        o[()] = out
        return o
    return out


def tape_restore(node):
    """the value a node stands for: every stop-gradient variable replaced by its origin (repeatedly: origins may nest)."""
    for _ in range(64):
        fv = [v for v in E.free_vars(node) if v.val in TAPE["origin"]]
        if not fv:
            return node
        node = E.substitute(node, {v: TAPE["origin"][v.val] for v in fv})
    raise Unmodelled("stop-gradient origins nest too deeply")
_fresh_counter = [0]


def _fresh_name(prefix):
    _fresh_counter[0] += 1
    return "%s#%d" % (prefix, _fresh_counter[0])


def set_default_dtype(d):
    _default_dtype[0] = d


def get_default_dtype():
    return _default_dtype[0]


def _S(x):
    return x if isinstance(x, Sym) else Sym(E.node_of(x))


_lift = np.frompyfunc(_S, 1, 1)


def _obj(a):
    """numpy array -> object array of Sym."""
    a = np.asarray(a)
    if a.dtype == object:
        return a
    out = _lift(a.astype(object))
    return out if isinstance(out, np.ndarray) else np.asarray(out, dtype=object)


def _lift_all(a):
    out = _lift(a)
    if not isinstance(out, np.ndarray):
        o = np.empty((), dtype=object)
        o[()] = out
        return o
    return out


def _is_float_dt(dt):
    return dt in _FLOATS


class T:
    """Symbolic tensor."""

    __array_priority__ = 2000

    def __init__(self, a, dt=None, _trusted=False):
        if isinstance(a, T):
            a, dt = a.a, dt or a.dtype
        elif isinstance(a, _rt.Tensor):
            dt = dt or a.dtype
            a = a.detach().cpu().numpy()
        if not isinstance(a, np.ndarray):
            a = _to_np_any(a)
        if dt is None:
            if a.dtype == np.bool_:
                dt = _rt.bool
            elif a.dtype.kind in "iu":
                dt = _rt.int64
            elif a.dtype.kind == "f":
                dt = _default_dtype[0]
            else:
                dt = _infer_obj_dtype(a)
        if _is_float_dt(dt) and a.dtype != object:
            a = _obj(a)
        elif a.dtype == object and not _trusted:
            a = _lift_all(a)
        if TAPE["on"] and TAPE["depth"] > 0 and _is_float_dt(dt) and a.dtype == object and a.base is None and a.size:
            a = _sg_array(a)
        self.a = a
        self.dtype = dt
        self.requires_grad = False
        self.grad = None
        self.grad_fn = None

    # ---- basic attributes
    @property
    def shape(self):
        return _rt.Size(self.a.shape)

    @property
    def device(self):
        return _CPU

    @property
    def is_cuda(self):
        return False

    @property
    def ndim(self):
        return self.a.ndim

    @property
    def data(self):
        return self.detach()

    @property
    def real(self):
        return self

    @property
    def T(self):
        return T(self.a.T, self.dtype, True)

    @property
    def mT(self):
        return T(np.swapaxes(self.a, -1, -2), self.dtype, True)

    def dim(self):
        return self.a.ndim

    def size(self, d=None):
        return _rt.Size(self.a.shape) if d is None else self.a.shape[d]

    def numel(self):
        return builtins.int(self.a.size)

    def nelement(self):
        return builtins.int(self.a.size)

    def __len__(self):
        if self.a.ndim == 0:
            raise TypeError("len() of a 0-d tensor")
        return self.a.shape[0]

    def is_floating_point(self):
        return _is_float_dt(self.dtype)

    def is_complex(self):
        return False

    def element_size(self):
        return 8

    def __repr__(self):
        return "symtensor(shape=%s, dtype=%s)" % (tuple(self.a.shape), self.dtype)

    def __format__(self, spec):
        if self.a.size == 1:
            return format(self.item(), spec)
        return repr(self)

    # ---- no-op autograd surface
    def detach(self):
        if TAPE["on"] and _is_float_dt(self.dtype) and self.a.dtype == object:
            return T(_sg_array(self.a), self.dtype, True)
        return self

    def cpu(self):
        return self

    def cuda(self, *a, **k):
        return self

    def contiguous(self, *a, **k):
        return self

    def requires_grad_(self, flag=True):
        self.requires_grad = flag
        return self

    def backward(self, *a, **k):
        raise Unmodelled("autograd backward() is not modelled (S8)")

    def retain_grad(self):
        return self

    def is_contiguous(self):
        return True

    def pin_memory(self):
        return self

    def numpy(self):
        return self.a

    def tolist(self):
        if self.a.dtype == object:
            return _unsym_list(self.a.tolist())
        return self.a.tolist()

    def item(self):
        if self.a.size != 1:
            raise ValueError("only one element tensors can be converted to Python scalars")
        v = self.a.reshape(())[()]
        if isinstance(v, Sym):
            if v.n.op == "const":
                if v.n.sort == E.B:
                    return builtins.bool(v.n.val)
                if self.dtype in _INTS:
                    return builtins.int(v.n.val)
                if _is_float_dt(self.dtype):
                    fr = v.n.val
                    fl = builtins.float(fr)
                    # keep exactness for constants that are not representable
                    return fl if E.frac_of_float(fl) == fr else v
            return v
        return v.item() if hasattr(v, "item") else v

    def __bool__(self):
        if self.a.size != 1:
            raise RuntimeError("Boolean value of Tensor with more than one value is ambiguous")
        return builtins.bool(self.a.reshape(())[()])

    def __contains__(self, x):
        return builtins.bool((self == x).any())

    def __index__(self):
        if self.a.size != 1:
            raise TypeError("only integer tensors of a single element can be converted to an index")
        v = self.a.reshape(())[()]
        return operator.index(v)

    def __int__(self):
        return builtins.int(self.item())

    def __float__(self):
        return builtins.float(self.item())

    def __hash__(self):
        return id(self)

    def __iter__(self):
        if self.a.ndim == 0:
            raise TypeError("iteration over a 0-d tensor")
        for i in range(self.a.shape[0]):
            yield T(self.a[i], self.dtype, True)

    # ---- dtype / device movement
    def to(self, *args, **kw):
        dt = kw.get("dtype")
        for x in args:
            if isinstance(x, _rt.dtype):
                dt = x
            elif isinstance(x, T):
                dt = x.dtype
        if kw.get("copy"):
            return self.clone().type(dt) if dt is not None else self.clone()
        if dt is None or dt == self.dtype:
            return self
        return self.type(dt)

    def type(self, dt=None, *a, **k):
        if dt is None:
            return str(self.dtype)
        if isinstance(dt, str):
            raise Unmodelled("type(str)")
        return _cast(self, dt)

    def double(self):
        return _cast(self, _rt.float64)

    def float(self):
        return _cast(self, _rt.float32)

    def long(self):
        return _cast(self, _rt.int64)

    def int(self):
        return _cast(self, _rt.int32)

    def bool(self):
        return _cast(self, _rt.bool)

    def type_as(self, o):
        return _cast(self, o.dtype)

    def new_zeros(self, *shape, **kw):
        return zeros(*shape, dtype=kw.get("dtype", self.dtype))

    def new_ones(self, *shape, **kw):
        return ones(*shape, dtype=kw.get("dtype", self.dtype))

    def new_empty(self, *shape, **kw):
        return empty(*shape, dtype=kw.get("dtype", self.dtype))

    def new_full(self, shape, v, **kw):
        return full(shape, v, dtype=kw.get("dtype", self.dtype))

    def new_tensor(self, data, **kw):
        return tensor(data, dtype=kw.get("dtype", self.dtype))

    # ---- indexing
    def __getitem__(self, idx):
        r = self.a[_index(idx)]
        if not isinstance(r, np.ndarray):
            o = np.empty((), dtype=self.a.dtype)
            o[()] = r
            r = o
        return T(r, self.dtype, True)

    def __setitem__(self, idx, val):
        idx = _index(idx)
        v = _rhs(val, self)
        if self.a.dtype != object and isinstance(v, np.ndarray) and v.dtype == object:
            raise Unmodelled("symbolic value stored into a native %s tensor" % self.a.dtype)
        if isinstance(v, np.ndarray) and v.ndim > 0:
            # torch broadcasts the rhs against the indexed shape, and so does numpy
            self.a[idx] = v
        else:
            self.a[idx] = v if not isinstance(v, np.ndarray) else v[()]

    # ---- arithmetic
    def _bin(self, o, f, rev=False, cmp=False):
        ob, odt = _operand(o)
        if ob is None:
            return NotImplemented
        a, b = self.a, ob
        if rev:
            a, b = b, a
        dt = _rt.bool if cmp else _promote(self.dtype, odt, o)
        return _apply2(f, a, b, dt, cmp)

    def __add__(self, o):
        return self._bin(o, operator.add)

    def __radd__(self, o):
        return self._bin(o, operator.add, True)

    def __sub__(self, o):
        return self._bin(o, operator.sub)

    def __rsub__(self, o):
        return self._bin(o, operator.sub, True)

    def __mul__(self, o):
        return self._bin(o, operator.mul)

    def __rmul__(self, o):
        return self._bin(o, operator.mul, True)

    def __truediv__(self, o):
        r = self._bin(o, operator.truediv)
        return r

    def __rtruediv__(self, o):
        return self._bin(o, operator.truediv, True)

    def __floordiv__(self, o):
        return self._bin(o, operator.floordiv)

    def __rfloordiv__(self, o):
        return self._bin(o, operator.floordiv, True)

    def __mod__(self, o):
        return self._bin(o, operator.mod)

    def __rmod__(self, o):
        return self._bin(o, operator.mod, True)

    def __pow__(self, o):
        return pow(self, o)

    def __rpow__(self, o):
        return pow(o, self)

    def __neg__(self):
        return T(-self.a, self.dtype, True)

    def __pos__(self):
        return self

    def __abs__(self):
        return abs(self)

    def __matmul__(self, o):
        return matmul(self, o)

    def __rmatmul__(self, o):
        return matmul(o, self)

    def __lt__(self, o):
        return self._bin(o, operator.lt, cmp=True)

    def __le__(self, o):
        return self._bin(o, operator.le, cmp=True)

    def __gt__(self, o):
        return self._bin(o, operator.gt, cmp=True)

    def __ge__(self, o):
        return self._bin(o, operator.ge, cmp=True)

    def __eq__(self, o):  # type: ignore[override]
        if o is None:
            return False
        return self._bin(o, operator.eq, cmp=True)

    def __ne__(self, o):  # type: ignore[override]
        if o is None:
            return True
        return self._bin(o, operator.ne, cmp=True)

    def __and__(self, o):
        return self._bin(o, operator.and_, cmp=(self.dtype == _rt.bool))

    __rand__ = __and__

    def __or__(self, o):
        return self._bin(o, operator.or_, cmp=(self.dtype == _rt.bool))

    __ror__ = __or__

    def __xor__(self, o):
        return self._bin(o, operator.xor, cmp=(self.dtype == _rt.bool))

    def __invert__(self):
        if self.a.dtype == object:
            return T(np.frompyfunc(operator.invert, 1, 1)(self.a), self.dtype)
        return T(~self.a, self.dtype, True)

    # in-place
    def _inplace(self, o, f):
        r = self._bin(o, f)
        _assign(self, r.a)
        return self

    def __iadd__(self, o):
        return self._inplace(o, operator.add)

    def __isub__(self, o):
        return self._inplace(o, operator.sub)

    def __imul__(self, o):
        return self._inplace(o, operator.mul)

    def __itruediv__(self, o):
        return self._inplace(o, operator.truediv)

    def add_(self, o, alpha=1):
        if not (isinstance(alpha, builtins.int) and alpha == 1):
            o = o * alpha
        return self._inplace(o, operator.add)

    def sub_(self, o, alpha=1):
        if not (isinstance(alpha, builtins.int) and alpha == 1):
            o = o * alpha
        return self._inplace(o, operator.sub)

    def mul_(self, o):
        return self._inplace(o, operator.mul)

    def div_(self, o):
        return self._inplace(o, operator.truediv)

    def copy_(self, o):
        ob, _ = _operand(o)
        _assign(self, np.broadcast_to(ob, self.a.shape))
        return self

    def zero_(self):
        self.a[...] = _zero_like_elem(self)
        return self

    def fill_(self, v):
        self.a[...] = _scalar_for(self, v)
        return self

    def clamp_(self, min=None, max=None):
        _assign(self, clamp(self, min, max).a)
        return self

    def neg_(self):
        _assign(self, (-self).a)
        return self

    def sqrt_(self):
        _assign(self, sqrt(self).a)
        return self

    def abs_(self):
        _assign(self, abs(self).a)
        return self

    def pow_(self, e):
        _assign(self, pow(self, e).a)
        return self

    def index_add_(self, dim, index, source, alpha=1):
        idx = _idx_array(index)
        src = _operand(source)[0]
        if not (isinstance(alpha, builtins.int) and alpha == 1):
            src = (T(src, source.dtype, True) * alpha).a
        if self.a.dtype == object and src.dtype != object:
            src = _obj(src)
        sl = [slice(None)] * self.a.ndim
        sl[dim] = idx
        np.add.at(self.a, tuple(sl), src)
        return self

    def index_add(self, dim, index, source, alpha=1):
        return self.clone().index_add_(dim, index, source, alpha)

    def index_put_(self, indices, values, accumulate=False):
        idx = tuple(_idx_array(i) for i in indices)
        v = _rhs(values, self)
        if accumulate:
            np.add.at(self.a, idx, v)
        else:
            self.a[idx] = v
        return self

    def index_copy_(self, dim, index, source):
        sl = [slice(None)] * self.a.ndim
        sl[dim] = _idx_array(index)
        self.a[tuple(sl)] = _rhs(source, self)
        return self

    def index_fill_(self, dim, index, value):
        sl = [slice(None)] * self.a.ndim
        sl[dim] = _idx_array(index)
        self.a[tuple(sl)] = _scalar_for(self, value)
        return self

    def scatter_(self, dim, index, src, reduce=None):
        idx = _idx_array(index)
        s = _rhs(src, self)
        s = np.broadcast_to(s, idx.shape) if isinstance(s, np.ndarray) else np.full(idx.shape, s, dtype=self.a.dtype)
        for pos in np.ndindex(*idx.shape):
            tgt = list(pos)
            tgt[dim] = idx[pos]
            if reduce == "add":
                self.a[tuple(tgt)] = self.a[tuple(tgt)] + s[pos]
            else:
                self.a[tuple(tgt)] = s[pos]
        return self

    def scatter_add_(self, dim, index, src):
        return self.scatter_(dim, index, src, reduce="add")

    def scatter(self, dim, index, src):
        return self.clone().scatter_(dim, index, src)

    def masked_fill_(self, mask, value):
        m = _mask_array(mask)
        m = np.broadcast_to(m, self.a.shape)
        self.a[m] = _scalar_for(self, value)
        return self

    def masked_fill(self, mask, value):
        mb, _ = _operand(mask)
        if mb.dtype == object:
            return where(mask, value, self)
        shape = np.broadcast_shapes(self.a.shape, mb.shape)
        out = T(np.array(np.broadcast_to(self.a, shape)), self.dtype, True)
        return out.masked_fill_(mask, value)

    # ---- methods mirroring module-level functions
    def clone(self, *a, **k):
        return T(self.a.copy(), self.dtype, True)

    def sum(self, dim=None, keepdim=False, dtype=None, **kw):
        return sum(self, dim if dim is not None else kw.get("axis"), keepdim, dtype=dtype)

    def mean(self, dim=None, keepdim=False):
        return mean(self, dim, keepdim)

    def prod(self, dim=None, keepdim=False):
        return prod(self, dim, keepdim)

    def cumsum(self, dim):
        return cumsum(self, dim)

    def max(self, dim=None, keepdim=False):
        return max(self, dim, keepdim)

    def min(self, dim=None, keepdim=False):
        return min(self, dim, keepdim)

    def amax(self, dim=None, keepdim=False):
        return amax(self, dim, keepdim)

    def amin(self, dim=None, keepdim=False):
        return amin(self, dim, keepdim)

    def argmax(self, dim=None, keepdim=False):
        return argmax(self, dim, keepdim)

    def argmin(self, dim=None, keepdim=False):
        return argmin(self, dim, keepdim)

    def any(self, dim=None, keepdim=False):
        return any(self, dim, keepdim)

    def all(self, dim=None, keepdim=False):
        return all(self, dim, keepdim)

    def norm(self, p=2, dim=None, keepdim=False):
        return norm(self, p, dim, keepdim)

    def abs(self):
        return abs(self)

    def sqrt(self):
        return sqrt(self)

    def rsqrt(self):
        return rsqrt(self)

    def exp(self):
        return exp(self)

    def log(self):
        return log(self)

    def sin(self):
        return sin(self)

    def cos(self):
        return cos(self)

    def sign(self):
        return sign(self)

    def square(self):
        return square(self)

    def pow(self, e):
        return pow(self, e)

    def reciprocal(self):
        return 1.0 / self

    def neg(self):
        return -self

    def add(self, o, alpha=1):
        return self + (o if (isinstance(alpha, builtins.int) and alpha == 1) else o * alpha)

    def sub(self, o, alpha=1):
        return self - (o if (isinstance(alpha, builtins.int) and alpha == 1) else o * alpha)

    def mul(self, o):
        return self * o

    def div(self, o, rounding_mode=None):
        return div(self, o, rounding_mode=rounding_mode)

    def matmul(self, o):
        return matmul(self, o)

    def bmm(self, o):
        return matmul(self, o)

    def mm(self, o):
        return matmul(self, o)

    def dot(self, o):
        return sum(self * o)

    def clamp(self, min=None, max=None):
        return clamp(self, min, max)

    def clip(self, min=None, max=None):
        return clamp(self, min, max)

    def clamp_min(self, v):
        return clamp(self, min=v)

    def clamp_max(self, v):
        return clamp(self, max=v)

    def clamp_min_(self, v):
        _assign(self, clamp(self, min=v).a)
        return self

    def __getattr__(self, name):
        # only reached for attributes that are not modelled: loud, and never mistaken for an exception of the code under test
        if name.startswith("__"):
            raise AttributeError(name)
        raise Unmodelled("Tensor.%s is not modelled by symtorch" % name)

    def lerp(self, end, weight):
        return lerp(self, end, weight)

    def eq(self, o):
        return self == o

    def ne(self, o):
        return self != o

    def lt(self, o):
        return self < o

    def le(self, o):
        return self <= o

    def gt(self, o):
        return self > o

    def ge(self, o):
        return self >= o

    def logical_not(self):
        return ~self.bool()

    def logical_and(self, o):
        return self.bool() & o.bool()

    def logical_or(self, o):
        return self.bool() | o.bool()

    def isnan(self):
        return isnan(self)

    def isfinite(self):
        return isfinite(self)

    def nonzero(self, as_tuple=False):
        return nonzero(self, as_tuple=as_tuple)

    def where(self, cond, other):
        return where(cond, self, other)

    # shapes
    def reshape(self, *shape):
        return reshape(self, *shape)

    def view(self, *shape):
        if len(shape) == 1 and isinstance(shape[0], _rt.dtype):
            return _cast(self, shape[0])
        return reshape(self, *shape)

    def view_as(self, o):
        return reshape(self, tuple(o.shape))

    def reshape_as(self, o):
        return reshape(self, tuple(o.shape))

    def flatten(self, start_dim=0, end_dim=-1):
        return flatten(self, start_dim, end_dim)

    def ravel(self):
        return reshape(self, -1)

    def unsqueeze(self, d):
        return unsqueeze(self, d)

    def squeeze(self, d=None):
        return squeeze(self, d)

    def expand(self, *sizes):
        return expand(self, *sizes)

    def expand_as(self, o):
        return expand(self, *o.shape)

    def repeat(self, *reps):
        return repeat(self, *reps)

    def repeat_interleave(self, r, dim=None):
        return repeat_interleave(self, r, dim)

    def tile(self, *reps):
        return repeat(self, *reps)

    def transpose(self, a, b):
        return transpose(self, a, b)

    def swapaxes(self, a, b):
        return transpose(self, a, b)

    def permute(self, *dims):
        return permute(self, *dims)

    def t(self):
        return T(self.a.T, self.dtype, True)

    def diagonal(self, offset=0, dim1=0, dim2=1):
        return diagonal(self, offset, dim1, dim2)

    def diag(self, k=0):
        return diag(self, k)

    def triu(self, diagonal=0):
        return triu(self, diagonal)

    def tril(self, diagonal=0):
        return tril(self, diagonal)

    def triu_(self, diagonal=0):
        _assign(self, triu(self, diagonal).a)
        return self

    def tril_(self, diagonal=0):
        _assign(self, tril(self, diagonal).a)
        return self

    def trace(self):
        return T(np.trace(self.a), self.dtype)

    def unbind(self, dim=0):
        return unbind(self, dim)

    def split(self, s, dim=0):
        return split(self, s, dim)

    def chunk(self, n, dim=0):
        return chunk(self, n, dim)

    def gather(self, dim, index):
        return gather(self, dim, index)

    def index_select(self, dim, index):
        return index_select(self, dim, index)

    def flip(self, *dims):
        return flip(self, *dims)

    def roll(self, shifts, dims=None):
        return roll(self, shifts, dims)

    def unique(self, **kw):
        return unique(self, **kw)

    def sort(self, dim=-1, descending=False):
        return sort(self, dim, descending)

    def argsort(self, dim=-1, descending=False):
        return argsort(self, dim, descending)

    def cross(self, o, dim=None):
        return cross(self, o, dim)

    def allclose(self, o, **k):
        return allclose(self, o, **k)

    def inverse(self):
        return inverse(self)

    def narrow(self, dim, start, length):
        sl = [slice(None)] * self.a.ndim
        sl[dim] = slice(start, start + length)
        return T(self.a[tuple(sl)], self.dtype, True)

    def select(self, dim, index):
        sl = [slice(None)] * self.a.ndim
        sl[dim] = index
        return T(self.a[tuple(sl)], self.dtype, True)


Tensor = T
FloatTensor = T
DoubleTensor = T
LongTensor = T


# ---------------------------------------------------------------------------
# helpers


def _unsym_list(x):
    if isinstance(x, list):
        return [_unsym_list(y) for y in x]
    if isinstance(x, Sym) and x.n.op == "const":
        v = x.n.val
        if x.n.sort == E.B:
            return builtins.bool(v)
        return builtins.int(v) if x.n.sort == E.I else builtins.float(v)
    return x


def _to_np_any(x):
    """Python scalars / nested lists / Sym / numpy / real torch -> numpy array."""
    if isinstance(x, np.ndarray):
        return x
    if isinstance(x, _rt.Tensor):
        return x.detach().cpu().numpy()
    if isinstance(x, T):
        return x.a
    if isinstance(x, Sym):
        o = np.empty((), dtype=object)
        o[()] = x
        return o
    if isinstance(x, Fraction):
        o = np.empty((), dtype=object)
        o[()] = Sym(E.const(x, E.R))
        return o
    if isinstance(x, (list, tuple)):
        flat_has_obj = _contains_obj(x)
        if flat_has_obj:
            conv = _listify(x)
            arr = np.empty(_shape_of(conv), dtype=object)
            _fill(arr, conv, ())
            return arr
        return np.asarray(x)
    return np.asarray(x)


def _contains_obj(x):
    if isinstance(x, (list, tuple)):
        return builtins.any(_contains_obj(y) for y in x)
    return isinstance(x, (Sym, T, Fraction, _rt.Tensor))


def _listify(x):
    if isinstance(x, (list, tuple)):
        return [_listify(y) for y in x]
    if isinstance(x, _rt.Tensor):
        x = T(x)
    if isinstance(x, T):
        return _listify(x.a.tolist()) if x.a.ndim else _S(x.a[()])
    return x


def _shape_of(x):
    s = []
    while isinstance(x, list):
        s.append(len(x))
        if not x:
            break
        x = x[0]
    return tuple(s)


def _fill(arr, x, pos):
    if isinstance(x, list):
        for i, y in enumerate(x):
            _fill(arr, y, pos + (i,))
    else:
        arr[pos] = _S(x)


def _infer_obj_dtype(a):
    for v in a.flat:
        if isinstance(v, Sym):
            if v.n.sort == E.R:
                return _default_dtype[0]
            if v.n.sort == E.B:
                return _rt.bool
            return _rt.int64
        break
    return _default_dtype[0]


def _operand(o):
    """-> (numpy array, dtype tag or None for python scalars)."""
    if isinstance(o, T):
        return o.a, o.dtype
    if isinstance(o, _rt.Tensor):
        t = T(o)
        return t.a, t.dtype
    if isinstance(o, Sym):
        x = np.empty((), dtype=object)
        x[()] = o
        return x, None
    if isinstance(o, (builtins.bool, builtins.int, builtins.float, Fraction, np.generic)):
        return np.asarray(o) if not isinstance(o, Fraction) else _to_np_any(o), None
    if isinstance(o, np.ndarray):
        return o, None
    if isinstance(o, (list, tuple)):
        return _to_np_any(o), None
    return None, None


def _promote(d1, d2, o=None):
    if d2 is None:
        # python scalar: float scalar promotes ints to default float
        if isinstance(o, (builtins.float, Fraction, np.floating)) and not _is_float_dt(d1):
            return _default_dtype[0]
        if isinstance(o, Sym) and o.n.sort == E.R and not _is_float_dt(d1):
            return _default_dtype[0]
        if d1 == _rt.bool and isinstance(o, (builtins.int, np.integer)) and not isinstance(o, builtins.bool):
            return _rt.int64
        return d1
    f1, f2 = _is_float_dt(d1), _is_float_dt(d2)
    if f1 and f2:
        return d1 if d1 == d2 else (_rt.float64 if _rt.float64 in (d1, d2) else _rt.float32)
    if f1:
        return d1
    if f2:
        return d2
    if d1 == _rt.bool:
        return d2
    if d2 == _rt.bool:
        return d1
    return _rt.int64 if _rt.int64 in (d1, d2) else d1


_CMP_OPS = {operator.lt, operator.le, operator.gt, operator.ge, operator.eq, operator.ne}


def _norm_bool(r):
    """object array of Sym bools -> native bool array if all constant."""
    if r.dtype != object:
        return r
    flat = r.reshape(-1)
    out = np.empty(flat.shape, dtype=np.bool_)
    for i, v in enumerate(flat):
        if isinstance(v, Sym):
            if v.n.op != "const":
                return r
            out[i] = builtins.bool(v.n.val)
        else:
            out[i] = builtins.bool(v)
    return out.reshape(r.shape)


def _apply2(f, a, b, dt, cmp=False):
    sym = a.dtype == object or b.dtype == object
    if f is operator.truediv and not sym:
        # int/int true division gives floats in torch; keep exact by going symbolic
        sym = True
    if not sym:
        if f is operator.floordiv:
            r = np.floor_divide(a, b)
        elif f is operator.mod:
            r = np.mod(a, b)
        else:
            r = f(a, b)
        if _is_float_dt(dt):
            r = _obj(r)
        return T(np.asarray(r), dt, True)
    if a.dtype != object:
        a = _obj(a)
    if b.dtype != object:
        b = _obj(b)
    if cmp or f in _CMP_OPS:
        r = np.frompyfunc(f, 2, 1)(a, b)
        if not isinstance(r, np.ndarray):
            r = _to_np_any(_S(r))
        return T(_norm_bool(r), _rt.bool, True)
    if f in (operator.add, operator.sub, operator.mul, operator.truediv, operator.floordiv, operator.mod):
        r = f(a, b)
    else:
        r = np.frompyfunc(f, 2, 1)(a, b)
    if not isinstance(r, np.ndarray):
        r = _to_np_any(_S(r))
    return T(r, dt, True)


def _assign(t: T, arr):
    if t.a.dtype != object and arr.dtype == object:
        arr2 = _norm_native(arr, t.a.dtype)
        if arr2 is None:
            if t.a.base is not None:
                raise Unmodelled("symbolic value stored in-place into a view of a native tensor")
            # the tensor owns its storage: switch it to symbolic storage (no other view can observe the difference)
            t.a = _obj(t.a)
        else:
            arr = arr2
    if t.a.ndim == 0:
        t.a[()] = arr.reshape(())[()] if isinstance(arr, np.ndarray) else arr
    else:
        t.a[...] = arr


def _norm_native(arr, npdt):
    flat = arr.reshape(-1)
    out = np.empty(flat.shape, dtype=npdt)
    for i, v in enumerate(flat):
        if isinstance(v, Sym):
            if v.n.op != "const":
                return None
            out[i] = v.n.val if v.n.sort == E.B else (builtins.int(v.n.val) if npdt.kind in "iu" else builtins.float(v.n.val))
        else:
            out[i] = v
    return out.reshape(arr.shape)


def _rhs(val, target: T):
    if isinstance(val, (T, _rt.Tensor)):
        v = _operand(val)[0]
    elif isinstance(val, Sym):
        return val
    elif isinstance(val, (builtins.bool, builtins.int, builtins.float, Fraction, np.generic)):
        return _scalar_for(target, val)
    else:
        v = _to_np_any(val)
    if target.a.dtype == object and v.dtype != object:
        v = _obj(v)
    elif target.a.dtype != object and v.dtype == object:
        v2 = _norm_native(v, target.a.dtype)
        if v2 is None:
            raise Unmodelled("symbolic value stored into a native %s tensor" % target.a.dtype)
        v = v2
    return v


def _scalar_for(target: T, v):
    if isinstance(v, (T, _rt.Tensor)):
        v = T(v).item() if not isinstance(v, T) else v.item()
    if target.a.dtype == object:
        return _S(v)
    if isinstance(v, Sym):
        if v.n.op != "const":
            raise Unmodelled("symbolic scalar stored into a native tensor")
        v = v.n.val if v.n.sort == E.B else (builtins.int(v.n.val) if v.n.val.denominator == 1 else builtins.float(v.n.val))
    return v


def _zero_like_elem(t):
    return _S(0.0) if t.a.dtype == object else 0


def _idx_array(x):
    """An index operand -> concrete numpy int/bool array (forks on symbolic bool entries)."""
    if isinstance(x, _rt.Tensor):
        return x.detach().cpu().numpy()
    if isinstance(x, T):
        a = x.a
        if a.dtype == object:
            if x.dtype == _rt.bool:
                return _mask_array(x)
            out = np.empty(a.shape, dtype=np.int64)
            for pos in np.ndindex(*a.shape):
                out[pos] = operator.index(a[pos])
            return out if a.ndim else out[()]
        return a if a.ndim else a[()]
    return x


def _mask_array(m):
    a = _operand(m)[0]
    if a.dtype == object:
        out = np.empty(a.shape, dtype=np.bool_)
        for pos in np.ndindex(*a.shape):
            out[pos] = builtins.bool(a[pos])  # forks through the explorer when symbolic
        return out
    return a.astype(np.bool_) if a.dtype != np.bool_ else a


def _index(idx):
    if isinstance(idx, tuple):
        if builtins.sum(1 for i in idx if i is Ellipsis) > 1:
            # torch accepts x[:, ..., ...]: the first ellipsis absorbs the remaining dimensions, the others none
            seen, out = False, []
            for i in idx:
                if i is Ellipsis:
                    if seen:
                        continue
                    seen = True
                out.append(i)
            idx = tuple(out)
        return tuple(_index1(i) for i in idx)
    return _index1(idx)


def _index1(i):
    if isinstance(i, (T, _rt.Tensor)):
        return _idx_array(i)
    if isinstance(i, Sym):
        return operator.index(i)
    if isinstance(i, slice):
        f = lambda v: operator.index(v) if isinstance(v, (Sym, T)) else v
        return slice(f(i.start), f(i.stop), f(i.step))
    if isinstance(i, list):
        return [_index1(j) for j in i]
    return i


def _cast(t: T, dt):
    if dt == t.dtype:
        return t
    a = t.a
    if _is_float_dt(dt):
        return T(_obj(a) if a.dtype != object else a, dt, True)
    if dt == _rt.bool:
        if a.dtype == object:
            r = np.frompyfunc(lambda v: v if v.n.sort == E.B else (v != 0), 1, 1)(a)
            return T(_norm_bool(np.asarray(r, dtype=object)), dt, True)
        return T(a.astype(np.bool_), dt, True)
    if dt in _INTS:
        if a.dtype == object:
            if t.dtype == _rt.bool:
                r = np.frompyfunc(lambda v: Sym(E.ite(v.n, E.ONE, E.ZERO)), 1, 1)(a)
                return T(np.asarray(r, dtype=object), dt, True)
            n = _norm_native(a, np.dtype(np.float64))
            if n is None:
                if builtins.all(isinstance(v, Sym) and v.n.sort == E.I for v in a.flat):
                    return T(a, dt, True)

                def trunc(v):
                    if v.n.sort == E.I:
                        return v
                    # truncation toward zero: floor for x >= 0, -floor(-x) otherwise
                    return Sym(E.ite(E.ge(v.n, E.ZERO), E.fn("floor", v.n), E.neg(E.fn("floor", E.neg(v.n)))))

                return T(np.asarray(np.frompyfunc(trunc, 1, 1)(a), dtype=object), dt, True)
            return T(np.trunc(n).astype(np.int64), dt, True)
        return T(a.astype(np.int64), dt, True)
    raise Unmodelled("cast to %s" % dt)


def _shape_args(shape):
    if len(shape) == 1 and isinstance(shape[0], (tuple, list, _rt.Size)):
        shape = tuple(shape[0])
    return tuple(operator.index(s) for s in shape)


def _mk_dtype(kw, default=None):
    dt = kw.get("dtype")
    return dt if dt is not None else (default or _default_dtype[0])


# ---------------------------------------------------------------------------
# creation


def _filled(shape, value, dt):
    if _is_float_dt(dt):
        a = np.empty(shape, dtype=object)
        a[...] = _S(builtins.float(value) if not isinstance(value, (Sym, Fraction)) else value)
        return T(a, dt, True)
    if dt == _rt.bool:
        return T(np.full(shape, builtins.bool(value), dtype=np.bool_), dt, True)
    if isinstance(value, Sym):
        a = np.empty(shape, dtype=object)
        a[...] = value
        return T(a, dt, True)
    return T(np.full(shape, builtins.int(value), dtype=np.int64), dt, True)


def zeros(*shape, **kw):
    return _filled(_shape_args(shape), 0, _mk_dtype(kw))


def ones(*shape, **kw):
    return _filled(_shape_args(shape), 1, _mk_dtype(kw))


def empty(*shape, **kw):
    dt = _mk_dtype(kw)
    shp = _shape_args(shape)
    if _is_float_dt(dt):
        # uninitialised memory: one opaque symbol per element, so a result that depends on it cannot verify
        a = np.empty(shp, dtype=object)
        tag = _fresh_name("uninit")
        for k, pos in enumerate(np.ndindex(*shp)):
            a[pos] = Sym(E.uf("%s_%d" % (tag, k), (), E.R))
        return T(a, dt, True)
    return _filled(shp, 0, dt)


def full(shape, value, **kw):
    dt = kw.get("dtype")
    if dt is None:
        if isinstance(value, (T, _rt.Tensor)):
            value = T(value).item()
        dt = _rt.bool if isinstance(value, builtins.bool) else (_rt.int64 if isinstance(value, builtins.int) else _default_dtype[0])
    if isinstance(shape, builtins.int):
        shape = (shape,)
    return _filled(tuple(shape), value, dt)


def zeros_like(x, **kw):
    return _filled(tuple(x.shape), 0, _mk_dtype(kw, x.dtype))


def ones_like(x, **kw):
    return _filled(tuple(x.shape), 1, _mk_dtype(kw, x.dtype))


def empty_like(x, **kw):
    return empty(*tuple(x.shape), dtype=_mk_dtype(kw, x.dtype))


def full_like(x, v, **kw):
    return _filled(tuple(x.shape), v, _mk_dtype(kw, x.dtype))


def tensor(data, dtype=None, device=None, requires_grad=False):
    if isinstance(data, (T, _rt.Tensor)):
        t = T(data).clone()
        return _cast(t, dtype) if dtype is not None else t
    a = _to_np_any(data)
    if dtype is None:
        if a.dtype == object:
            dtype = _infer_obj_dtype(a)
        elif a.dtype.kind == "f":
            dtype = _default_dtype[0]
        elif a.dtype == np.bool_:
            dtype = _rt.bool
        else:
            dtype = _rt.int64
        return T(np.array(a), dtype)
    t = T(np.array(a))
    return _cast(t, dtype)


def as_tensor(data, dtype=None, device=None):
    if isinstance(data, T):
        return _cast(data, dtype) if dtype is not None else data
    return tensor(data, dtype=dtype)


def from_numpy(a):
    return T(a)


def arange(*args, **kw):
    args = [operator.index(a) if isinstance(a, (T, Sym)) else a for a in args]
    a = np.arange(*args)
    dt = kw.get("dtype")
    t = T(a)
    return _cast(t, dt) if dt is not None else t


def linspace(start, end, steps, **kw):
    vals = [Fraction(start) + (Fraction(end) - Fraction(start)) * Fraction(i, steps - 1) for i in range(steps)]
    return tensor([Sym(E.const(v, E.R)) for v in vals], dtype=_mk_dtype(kw))


def eye(n, m=None, **kw):
    dt = _mk_dtype(kw)
    t = zeros(n, m if m is not None else n, dtype=dt)
    for i in range(builtins.min(n, m if m is not None else n)):
        t.a[i, i] = _S(1.0) if t.a.dtype == object else 1
    return t


def _fresh_tensor(shape, prefix, dt):
    a = np.empty(shape, dtype=object)
    names = []
    base = _fresh_name(prefix)
    for k, pos in enumerate(np.ndindex(*shape)):
        nm = "%s_%d" % (base, k)
        names.append(nm)
        a[pos] = E.real(nm)
    GHOST["rng_draws"].append((prefix, base, tuple(shape)))
    GHOST["rng_events"].append(("draw", prefix, base, tuple(shape)))
    return T(a, dt, True)


def randn_like(x, **kw):
    return _fresh_tensor(tuple(x.shape), "randn", _mk_dtype(kw, x.dtype))


def randn(*shape, **kw):
    return _fresh_tensor(_shape_args(shape), "randn", _mk_dtype(kw))


def rand(*shape, **kw):
    return _fresh_tensor(_shape_args(shape), "rand", _mk_dtype(kw))


def rand_like(x, **kw):
    return _fresh_tensor(tuple(x.shape), "rand", _mk_dtype(kw, x.dtype))


def manual_seed(s):
    GHOST["rng_events"].append(("seed", s))


class _Random:
    @staticmethod
    def get_rng_state():
        GHOST["rng_events"].append(("get_state", len(GHOST["rng_draws"])))
        return ("rng_state", len(GHOST["rng_draws"]), tuple(GHOST["rng_events"]))

    @staticmethod
    def set_rng_state(s):
        GHOST["rng_events"].append(("set_state", s[1] if isinstance(s, tuple) else s))

    manual_seed = staticmethod(manual_seed)


random = _Random()
get_rng_state = _Random.get_rng_state
set_rng_state = _Random.set_rng_state


# ---------------------------------------------------------------------------
# elementwise


def _map1(f, x, dt=None):
    x = x if isinstance(x, T) else T(_to_np_any(x))
    a = x.a if x.a.dtype == object else _obj(x.a)
    r = np.frompyfunc(f, 1, 1)(a)
    if not isinstance(r, np.ndarray):
        r = _to_np_any(_S(r))
    return T(r, dt or (x.dtype if _is_float_dt(x.dtype) else _default_dtype[0]), True)


def sqrt(x):
    return _map1(lambda v: Sym(E.sqrt(v.n)), x)


def rsqrt(x):
    return _map1(lambda v: Sym(E.powr(v.n, Fraction(-1, 2))), x)


def exp(x):
    return _map1(lambda v: Sym(E.fn("exp", v.n)), x)


def expm1(x):
    return _map1(lambda v: Sym(E.expm1(v.n)), x)


def log(x):
    return _map1(lambda v: Sym(E.fn("log", v.n)), x)


def sin(x):
    return _map1(lambda v: Sym(E.fn("sin", v.n)), x)


def cos(x):
    return _map1(lambda v: Sym(E.fn("cos", v.n)), x)


def tanh(x):
    return _map1(lambda v: Sym(E.fn("tanh", v.n)), x)


def sigmoid(x):
    return 1.0 / (1.0 + exp(-x))


def abs(x):
    if isinstance(x, T) and x.a.dtype != object:
        return T(np.abs(x.a), x.dtype, True)
    if not isinstance(x, T):
        return builtins.abs(x)
    return T(np.frompyfunc(lambda v: Sym(E.fn("abs", v.n)), 1, 1)(x.a), x.dtype)


def sign(x):
    if x.a.dtype != object:
        return T(np.sign(x.a), x.dtype, True)
    return T(np.frompyfunc(lambda v: Sym(E.fn("sign", v.n)), 1, 1)(x.a), x.dtype)


def square(x):
    return x * x


def ceil(x):
    return _map1(lambda v: Sym(E.neg(E.fn("floor", E.neg(v.n)))), x)


def floor(x):
    return _map1(lambda v: Sym(E.fn("floor", v.n)), x)


def round(x, decimals=0):
    """torch.round: nearest integer, ties to even (IEEE roundTiesToEven)."""
    if decimals != 0:
        raise Unmodelled("torch.round with decimals")

    def one(v):
        if v.n.sort == E.I:
            return v
        if v.n.op == "const":
            fl = math.floor(v.n.val + Fraction(1, 2))
            if fl == v.n.val + Fraction(1, 2) and fl % 2 == 1:
                fl -= 1
            return Sym(E.const(Fraction(fl), E.R))
        half = E.const(Fraction(1, 2), E.R)
        f = E.fn("floor", E.add(v.n, half))
        tie = E.and_(E.eq(E.add(v.n, half), E.mk("toreal", (f,), None, E.R)), E.eq(E.mod(f, E.const(2)), E.const(1)))
        return Sym(E.ite(tie, E.sub(f, E.const(1)), f))

    return _map1(one, x)


def pow(x, e):
    if isinstance(e, (T, _rt.Tensor)):
        et = T(e)
        if et.a.size == 1:
            e = et.item()
        else:
            xa = _operand(x)[0]
            xa = xa if xa.dtype == object else _obj(xa)
            ea = et.a if et.a.dtype == object else _obj(et.a)
            r = np.frompyfunc(lambda v, w: v ** w, 2, 1)(xa, ea)
            return T(r, _default_dtype[0])
    if not isinstance(x, T):
        if isinstance(x, _rt.Tensor):
            x = T(x)
        else:
            return _S(x) ** e
    if isinstance(e, Sym):
        e = e.const_value()
    if x.a.dtype != object and isinstance(e, builtins.int) and e >= 0:
        return T(x.a ** e, x.dtype, True)
    fe = Fraction(e) if not isinstance(e, builtins.float) else E.exponent_of_float(e)
    a = x.a if x.a.dtype == object else _obj(x.a)
    r = np.frompyfunc(lambda v: Sym(E.powr(v.n, fe)), 1, 1)(a)
    if not isinstance(r, np.ndarray):
        r = _to_np_any(r)
    return T(r, x.dtype if _is_float_dt(x.dtype) else _default_dtype[0], True)


def div(a, b, rounding_mode=None):
    a = a if isinstance(a, T) else T(_to_np_any(a))
    if rounding_mode == "floor":
        return a // b
    if rounding_mode == "trunc":
        if a.a.dtype != object:
            bb = _operand(b)[0]
            return T(np.trunc(a.a / bb).astype(np.int64) if a.dtype in _INTS else np.trunc(a.a / bb), a.dtype)
        raise Unmodelled("trunc division of symbolic values")
    return a / b


def remainder(a, b):
    return a % b


def where(cond, a=None, b=None):
    if a is None and b is None:
        return nonzero(cond, as_tuple=True)
    c = _operand(cond)[0]
    aa, adt = _operand(a)
    bb, bdt = _operand(b)
    dt = adt if adt is not None else bdt
    if adt is not None and bdt is not None:
        dt = _promote(adt, bdt)
    if dt is None:
        dt = _default_dtype[0] if (aa.dtype.kind == "f" or bb.dtype.kind == "f" or aa.dtype == object) else _rt.int64
    if c.dtype != object:
        if aa.dtype == object or bb.dtype == object or _is_float_dt(dt):
            aa = aa if aa.dtype == object else _obj(aa)
            bb = bb if bb.dtype == object else _obj(bb)
        return T(np.where(c.astype(np.bool_), aa, bb), dt, True)
    aa = aa if aa.dtype == object else _obj(aa)
    bb = bb if bb.dtype == object else _obj(bb)
    r = np.frompyfunc(lambda cc, x, y: Sym(E.ite(E._tobool(cc.n), x.n, y.n)), 3, 1)(c, aa, bb)
    return T(np.asarray(r, dtype=object), dt, True)


def clamp(x, min=None, max=None):
    r = x
    if min is not None:
        r = maximum(r, min)
    if max is not None:
        r = minimum(r, max)
    return r


clip = clamp


def maximum(a, b):
    a = a if isinstance(a, T) else T(_to_np_any(a))
    return where(a >= b, a, b)


def minimum(a, b):
    a = a if isinstance(a, T) else T(_to_np_any(a))
    return where(a <= b, a, b)


def lerp(start, end, weight):
    return start + weight * (end - start)


def isnan(x):
    return T(np.zeros(tuple(x.shape), dtype=np.bool_), _rt.bool, True)  # reals: never NaN (A1)


def isinf(x):
    return T(np.zeros(tuple(x.shape), dtype=np.bool_), _rt.bool, True)


def isfinite(x):
    """A1 (no overflow): a real expression is finite iff it is defined -- divisors non-zero, radicands non-negative."""
    if not isinstance(x, T) or x.a.dtype != object:
        return T(np.ones(tuple(x.shape), dtype=np.bool_), _rt.bool, True)
    out = np.empty(x.a.shape, dtype=object)
    symbolic = False
    for pos in np.ndindex(*x.a.shape):
        v = x.a[pos]
        if isinstance(v, Sym):
            d = E.defined(v.n)
            if d is E.TRUE:
                out[pos] = True
            else:
                out[pos] = Sym(d)
                symbolic = True
        else:
            out[pos] = True
    if not symbolic:
        return T(np.ones(tuple(x.shape), dtype=np.bool_), _rt.bool, True)
    return T(out, _rt.bool, True)


def is_tensor(x):
    return isinstance(x, (T, _rt.Tensor))


def is_complex(x):
    return False


def is_floating_point(x):
    return x.is_floating_point()


def numel(x):
    return x.numel()


def clone(x):
    return x.clone()


def logical_not(x):
    return ~x.bool()


def logical_and(a, b):
    return a.bool() & b.bool()


def logical_or(a, b):
    return a.bool() | b.bool()


def allclose(a, b, rtol=1e-5, atol=1e-8, **k):
    d = abs(a - b)
    lim = atol + rtol * abs(b if isinstance(b, T) else T(_to_np_any(b)))
    return builtins.bool(all(d <= lim))


def equal(a, b):
    if tuple(a.shape) != tuple(b.shape):
        return False
    return builtins.bool(all(a == b))


# ---------------------------------------------------------------------------
# reductions


def _axes(dim, nd):
    if dim is None:
        return None
    if isinstance(dim, (list, tuple)):
        return tuple(operator.index(d) % nd for d in dim)
    return operator.index(dim) % nd


def sum(x, dim=None, keepdim=False, dtype=None, **kw):
    if dim is None and "axis" in kw:
        dim = kw["axis"]
    x = x if isinstance(x, T) else T(x)
    ax = _axes(dim, x.a.ndim)
    a = x.a
    dt = x.dtype
    if a.dtype == np.bool_:
        a = a.astype(np.int64)
        dt = _rt.int64
    if x.dtype == _rt.bool and a.dtype == object:
        a = _cast(x, _rt.int64).a
        dt = _rt.int64
    r = np.sum(a, axis=ax, keepdims=keepdim)
    r = np.asarray(r, dtype=a.dtype if a.dtype != object else object)
    if r.dtype == object:
        r = _lift_all(r)
    t = T(r, dt, True)
    return _cast(t, dtype) if dtype is not None else t


def mean(x, dim=None, keepdim=False):
    ax = _axes(dim, x.a.ndim)
    if ax is None:
        n = x.a.size
    elif isinstance(ax, tuple):
        n = builtins.int(np.prod([x.a.shape[i] for i in ax]))
    else:
        n = x.a.shape[ax]
    return sum(x, dim, keepdim) / n


def prod(x, dim=None, keepdim=False):
    ax = _axes(dim, x.a.ndim)
    r = np.prod(x.a, axis=ax, keepdims=keepdim)
    r = np.asarray(r, dtype=object if x.a.dtype == object else x.a.dtype)
    if r.dtype == object:
        r = _lift_all(r)
    return T(r, x.dtype, True)


def cumsum(x, dim):
    r = np.cumsum(x.a, axis=dim)
    return T(r, x.dtype if x.dtype != _rt.bool else _rt.int64)


def _fold(x, ax, keepdim, f):
    a = np.moveaxis(x.a, ax, 0)
    acc = a[0]
    for k in range(1, a.shape[0]):
        acc = f(acc, a[k])
    if keepdim:
        acc = np.expand_dims(acc, ax)
    return acc


def _sym_max(u, v):
    return np.frompyfunc(lambda p, q: Sym(E.max_(p.n, q.n)), 2, 1)(u, v)


def _sym_min(u, v):
    return np.frompyfunc(lambda p, q: Sym(E.min_(p.n, q.n)), 2, 1)(u, v)


class _ValIdx(tuple):
    @property
    def values(self):
        return self[0]

    @property
    def indices(self):
        return self[1]


def amax(x, dim=None, keepdim=False):
    if x.a.dtype != object:
        return T(np.amax(x.a, axis=_axes(dim, x.a.ndim), keepdims=keepdim), x.dtype, True)
    if dim is None:
        flat = x.a.reshape(-1)
        acc = flat[0]
        for v in flat[1:]:
            acc = Sym(E.max_(acc.n, v.n))
        r = np.empty((1,) * x.a.ndim if keepdim else (), dtype=object)
        r[...] = acc
        return T(r, x.dtype, True)
    axs = _axes(dim, x.a.ndim)
    if isinstance(axs, tuple):
        r = x
        for ax in sorted(axs, reverse=True):
            r = amax(r, ax, keepdim)
        return r
    r = _fold(x, axs, keepdim, _sym_max)
    return T(np.asarray(r, dtype=object), x.dtype, True)


def amin(x, dim=None, keepdim=False):
    return -amax(-x, dim, keepdim)


def max(x, dim=None, keepdim=False):
    if isinstance(dim, (T, _rt.Tensor)):
        return maximum(x, dim)
    if dim is None:
        return amax(x)
    vals = amax(x, dim, keepdim)
    if x.a.dtype != object:
        idx = T(np.expand_dims(np.argmax(x.a, axis=dim), dim) if keepdim else np.argmax(x.a, axis=dim), _rt.int64, True)
    else:
        idx = _LazyFail("indices of a symbolic max")
    return _ValIdx((vals, idx))


def min(x, dim=None, keepdim=False):
    if isinstance(dim, (T, _rt.Tensor)):
        return minimum(x, dim)
    if dim is None:
        return amin(x)
    vals = amin(x, dim, keepdim)
    if x.a.dtype != object:
        idx = T(np.expand_dims(np.argmin(x.a, axis=dim), dim) if keepdim else np.argmin(x.a, axis=dim), _rt.int64, True)
    else:
        idx = _LazyFail("indices of a symbolic min")
    return _ValIdx((vals, idx))


class _LazyFail:
    def __init__(self, what):
        self.what = what

    def __getattr__(self, k):
        raise Unmodelled(self.what)


def _concrete_numeric(x):
    a = x.a
    if a.dtype != object:
        return a
    n = _norm_native(a, np.dtype(np.float64))
    if n is None:
        return None
    return n


def argmax(x, dim=None, keepdim=False):
    a = _concrete_numeric(x)
    if a is None:
        # symbolic argmax along dim: fork through comparisons
        return _sym_argext(x, dim, keepdim, True)
    r = np.argmax(a, axis=dim)
    if keepdim and dim is not None:
        r = np.expand_dims(r, dim)
    return T(np.asarray(r), _rt.int64, True)


def argmin(x, dim=None, keepdim=False):
    a = _concrete_numeric(x)
    if a is None:
        return _sym_argext(x, dim, keepdim, False)
    r = np.argmin(a, axis=dim)
    if keepdim and dim is not None:
        r = np.expand_dims(r, dim)
    return T(np.asarray(r), _rt.int64, True)


def _sym_argext(x, dim, keepdim, is_max):
    a = x.a
    if dim is None:
        a = a.reshape(-1)
        dim = 0
    a = np.moveaxis(a, dim, -1)
    out = np.empty(a.shape[:-1], dtype=np.int64)
    for pos in np.ndindex(*a.shape[:-1]):
        row = a[pos]
        best = 0
        for k in range(1, row.shape[0]):
            better = (row[k] > row[best]) if is_max else (row[k] < row[best])
            if builtins.bool(better):  # forks
                best = k
        out[pos] = best
    if keepdim:
        out = np.expand_dims(out, dim)
    return T(out, _rt.int64, True)


def any(x, dim=None, keepdim=False):
    x = x if isinstance(x, T) else T(_to_np_any(x))
    a = x.a
    if a.dtype != object:
        return T(np.asarray(np.any(a != 0, axis=_axes(dim, a.ndim), keepdims=keepdim)), _rt.bool, True)
    b = _cast(x, _rt.bool).a
    if b.dtype != object:
        return T(np.asarray(np.any(b, axis=_axes(dim, b.ndim), keepdims=keepdim)), _rt.bool, True)
    if dim is None:
        r = np.empty((), dtype=object)
        r[()] = Sym(E.or_(*[v.n for v in b.reshape(-1)]))
        return T(r, _rt.bool, True)
    f = np.frompyfunc(lambda p, q: Sym(E.or_(p.n, q.n)), 2, 1)
    return T(np.asarray(_fold(T(b, _rt.bool, True), _axes(dim, b.ndim), keepdim, f), dtype=object), _rt.bool, True)


def all(x, dim=None, keepdim=False):
    x = x if isinstance(x, T) else T(_to_np_any(x))
    a = x.a
    if a.dtype != object:
        return T(np.asarray(np.all(a != 0, axis=_axes(dim, a.ndim), keepdims=keepdim)), _rt.bool, True)
    b = _cast(x, _rt.bool).a
    if b.dtype != object:
        return T(np.asarray(np.all(b, axis=_axes(dim, b.ndim), keepdims=keepdim)), _rt.bool, True)
    if dim is None:
        r = np.empty((), dtype=object)
        r[()] = Sym(E.and_(*[v.n for v in b.reshape(-1)]))
        return T(r, _rt.bool, True)
    f = np.frompyfunc(lambda p, q: Sym(E.and_(p.n, q.n)), 2, 1)
    return T(np.asarray(_fold(T(b, _rt.bool, True), _axes(dim, b.ndim), keepdim, f), dtype=object), _rt.bool, True)


def norm(x, p=2, dim=None, keepdim=False, **kw):
    if p in (2, 2.0, "fro", None):
        return sqrt(sum(x * x, dim, keepdim))
    if p in (1, 1.0):
        return sum(abs(x), dim, keepdim)
    if p == math.inf:
        return amax(abs(x), dim, keepdim)
    raise Unmodelled("norm p=%r" % (p,))


def count_nonzero(x, dim=None):
    return sum(x != 0, dim)


def nonzero(x, as_tuple=False):
    a = x.a
    if a.dtype == object:
        a = _mask_array(x != 0 if x.dtype != _rt.bool else x)
    nz = np.nonzero(a)
    if as_tuple:
        return tuple(T(i.astype(np.int64), _rt.int64, True) for i in nz)
    return T(np.stack(nz, axis=1).astype(np.int64) if nz else np.zeros((0, 0), np.int64), _rt.int64, True)


def unique(x, sorted=True, return_inverse=False, return_counts=False, dim=None):
    a = _concrete_numeric(x)
    if a is None:
        raise Unmodelled("unique of symbolic values")
    if x.dtype in _INTS:
        a = a.astype(np.int64)
    r = np.unique(a, return_inverse=return_inverse, return_counts=return_counts, axis=dim)
    if isinstance(r, tuple):
        return tuple(T(np.asarray(v)) for v in r)
    return T(r, x.dtype)


def sort(x, dim=-1, descending=False, stable=False):
    a = _concrete_numeric(x)
    if a is None:
        raise Unmodelled("sort of symbolic values")
    idx = np.argsort(-a if descending else a, axis=dim, kind="stable")
    vals = np.take_along_axis(x.a, idx, axis=dim)
    return _ValIdx((T(vals, x.dtype, True), T(idx.astype(np.int64), _rt.int64, True)))


def argsort(x, dim=-1, descending=False, stable=False):
    return sort(x, dim, descending)[1]


def topk(x, k, dim=-1, largest=True):
    v, i = sort(x, dim, descending=largest)
    sl = [slice(None)] * x.a.ndim
    sl[dim] = slice(0, k)
    return _ValIdx((v[tuple(sl)], i[tuple(sl)]))


# ---------------------------------------------------------------------------
# linear algebra


def _objpair(a, b):
    aa, adt = _operand(a)
    bb, bdt = _operand(b)
    dt = _promote(adt or _default_dtype[0], bdt) if bdt is not None else (adt or _default_dtype[0])
    if aa.dtype == object or bb.dtype == object:
        aa = aa if aa.dtype == object else _obj(aa)
        bb = bb if bb.dtype == object else _obj(bb)
    return aa, bb, dt


def matmul(a, b):
    aa, bb, dt = _objpair(a, b)
    r = np.matmul(aa, bb)
    if not isinstance(r, np.ndarray):
        r = _to_np_any(_S(r))
    if r.dtype == object:
        r = _lift_all(r)
    return T(r, dt, True)


bmm = matmul
mm = matmul
mv = matmul


def dot(a, b):
    return sum(a * b)


def baddbmm(inp, b1, b2, beta=1, alpha=1):
    return beta * inp + alpha * matmul(b1, b2)


def addmm(inp, m1, m2, beta=1, alpha=1):
    return beta * inp + alpha * matmul(m1, m2)


def einsum(eq, *ops):
    if len(ops) == 1 and isinstance(ops[0], (list, tuple)):
        ops = tuple(ops[0])
    arrs = [_operand(o)[0] for o in ops]
    dts = [o.dtype for o in ops if isinstance(o, T)]
    symb = builtins.any(a.dtype == object for a in arrs)
    if symb:
        arrs = [a if a.dtype == object else _obj(a) for a in arrs]
    r = np.einsum(eq, *arrs, optimize=False)
    r = np.asarray(r, dtype=object if symb else None)
    if symb:
        r = _lift_all(r)
    dt = dts[0]
    for d in dts[1:]:
        dt = _promote(dt, d)
    return T(r, dt, True)


def cross(a, b, dim=None):
    aa, bb, dt = _objpair(a, b)
    if dim is None:
        dim = -1
    aa, bb = np.broadcast_arrays(aa, bb)
    aa = np.moveaxis(aa, dim, -1)
    bb = np.moveaxis(bb, dim, -1)
    r = np.empty(aa.shape, dtype=object)
    r[..., 0] = aa[..., 1] * bb[..., 2] - aa[..., 2] * bb[..., 1]
    r[..., 1] = aa[..., 2] * bb[..., 0] - aa[..., 0] * bb[..., 2]
    r[..., 2] = aa[..., 0] * bb[..., 1] - aa[..., 1] * bb[..., 0]
    return T(np.moveaxis(r, -1, dim), dt)


def outer(a, b):
    return a.reshape(-1, 1) * b.reshape(1, -1)


def trace(x):
    return x.trace()


def inverse(x):
    """closed form (adjugate / determinant) for 1x1 and 2x2; the division carries the definedness condition det != 0."""
    a = x.a
    n = a.shape[-1]
    if a.shape[-2] != n or n > 2:
        raise Unmodelled("matrix inverse (LAPACK) beyond 2x2 -- needs an assumed contract")
    out = np.empty(a.shape, dtype=object)
    for pos in np.ndindex(*a.shape[:-2]):
        m = a[pos]
        if n == 1:
            out[pos][0, 0] = Sym(E.const(Fraction(1), E.R)) / m[0, 0]
        else:
            d = m[0, 0] * m[1, 1] - m[0, 1] * m[1, 0]
            out[pos][0, 0], out[pos][1, 1] = m[1, 1] / d, m[0, 0] / d
            out[pos][0, 1], out[pos][1, 0] = -m[0, 1] / d, -m[1, 0] / d
    return T(out, x.dtype)


def _pinv(x, rcond=None, hermitian=False, **k):
    """Moore-Penrose inverse of a symmetric 1x1 / 2x2 matrix, exact and piecewise by rank (forks the path on det = 0, trace = 0):
    full rank: the inverse; rank one (O = t u u^T with t = trace): O / t^2; rank zero: 0.  The numerical cut-off is not modelled."""
    a = x.a
    n = a.shape[-1]
    if not hermitian or a.shape[-2] != n or n > 2:
        raise Unmodelled("torch.linalg.pinv: only hermitian=True up to 2x2 is modelled")
    out = np.empty(a.shape, dtype=object)
    zero = Sym(E.const(Fraction(0), E.R))
    for pos in np.ndindex(*a.shape[:-2]):
        m = a[pos]
        if n == 1:
            out[pos][0, 0] = (Sym(E.const(Fraction(1), E.R)) / m[0, 0]) if builtins.bool(m[0, 0] != 0) else zero
            continue
        # torch reads the lower triangle of a hermitian argument
        d = m[0, 0] * m[1, 1] - m[1, 0] * m[1, 0]
        if builtins.bool(d != 0):
            out[pos][0, 0], out[pos][1, 1] = m[1, 1] / d, m[0, 0] / d
            out[pos][0, 1] = out[pos][1, 0] = -m[1, 0] / d
        else:
            t = m[0, 0] + m[1, 1]
            if builtins.bool(t != 0):
                t2 = t * t
                out[pos][0, 0], out[pos][1, 1], out[pos][0, 1], out[pos][1, 0] = m[0, 0] / t2, m[1, 1] / t2, m[1, 0] / t2, m[1, 0] / t2
            else:
                out[pos][0, 0] = out[pos][1, 1] = out[pos][0, 1] = out[pos][1, 0] = zero
    return T(out, x.dtype)


def det(x):
    a = x.a
    if a.shape[-2:] == (2, 2):
        return T(a[..., 0, 0] * a[..., 1, 1] - a[..., 0, 1] * a[..., 1, 0], x.dtype)
    if a.shape[-2:] == (3, 3):
        r = (a[..., 0, 0] * (a[..., 1, 1] * a[..., 2, 2] - a[..., 1, 2] * a[..., 2, 1])
             - a[..., 0, 1] * (a[..., 1, 0] * a[..., 2, 2] - a[..., 1, 2] * a[..., 2, 0])
             + a[..., 0, 2] * (a[..., 1, 0] * a[..., 2, 1] - a[..., 1, 1] * a[..., 2, 0]))
        return T(r, x.dtype)
    raise Unmodelled("det beyond 3x3")


class _Linalg:
    """LAPACK-backed routines have no executable model; contracts install assumed stubs here."""

    hooks: dict = {}

    @staticmethod
    def norm(x, ord=None, dim=None, keepdim=False):
        return norm(x, 2 if ord is None else ord, dim, keepdim)

    vector_norm = norm

    @staticmethod
    def cross(a, b, dim=-1):
        h = _Linalg.hooks.get("cross")
        if h is not None:
            r = h(a, b, dim)
            if r is not None:
                return r
        return cross(a, b, dim)

    @staticmethod
    def det(x):
        return det(x)

    @staticmethod
    def inv(x):
        return inverse(x)

    @staticmethod
    def solve(a, b):
        h = _Linalg.hooks.get("solve")
        if h is not None:
            return h(a, b)
        return matmul(inverse(a), b)

    @staticmethod
    def pinv(x, *a, **k):
        h = _Linalg.hooks.get("pinv")
        return h(x, *a, **k) if h is not None else _pinv(x, *a, **k)

    def __getattr__(self, name):
        h = _Linalg.hooks.get(name)
        if h is None:
            raise Unmodelled("torch.linalg.%s has no assumed contract installed" % name)
        return h


linalg = _Linalg()


# ---------------------------------------------------------------------------
# shape ops


def reshape(x, *shape):
    shp = shape[0] if (len(shape) == 1 and isinstance(shape[0], (tuple, list, _rt.Size))) else shape
    shp = tuple(operator.index(s) for s in shp)
    return T(x.a.reshape(shp), x.dtype, True)


def flatten(x, start_dim=0, end_dim=-1):
    nd = x.a.ndim
    if nd == 0:
        return reshape(x, 1)
    s, e = start_dim % nd, end_dim % nd
    shp = x.a.shape[:s] + (-1,) + x.a.shape[e + 1:]
    return T(x.a.reshape(shp), x.dtype, True)


def unsqueeze(x, d):
    nd = x.a.ndim + 1
    return T(np.expand_dims(x.a, d % nd), x.dtype, True)


def squeeze(x, d=None):
    if d is None:
        return T(np.squeeze(x.a), x.dtype, True)
    if isinstance(d, (tuple, list)):
        ax = tuple(i for i in d if x.a.shape[i] == 1)
        return T(np.squeeze(x.a, axis=ax), x.dtype, True) if ax else x
    if x.a.ndim == 0 or x.a.shape[d] != 1:
        return x
    return T(np.squeeze(x.a, axis=d), x.dtype, True)


def expand(x, *sizes):
    sizes = _shape_args(sizes) if not (len(sizes) == 1 and isinstance(sizes[0], (tuple, list, _rt.Size))) else tuple(sizes[0])
    a = x.a
    lead = len(sizes) - a.ndim
    tgt = tuple(a.shape[i - lead] if s == -1 else s for i, s in enumerate(sizes))
    return T(np.broadcast_to(a, tgt), x.dtype, True)


def broadcast_to(x, shape):
    return expand(x, *shape)


def repeat(x, *reps):
    reps = _shape_args(reps)
    a = x.a
    if len(reps) > a.ndim:
        a = a.reshape((1,) * (len(reps) - a.ndim) + a.shape)
    return T(np.tile(a, reps), x.dtype, True)


tile = repeat


def repeat_interleave(x, r, dim=None):
    if isinstance(r, (T, _rt.Tensor)):
        r = _idx_array(r)
    return T(np.repeat(x.a, r, axis=dim), x.dtype, True)


def transpose(x, a, b):
    return T(np.swapaxes(x.a, a, b), x.dtype, True)


swapaxes = transpose


def permute(x, *dims):
    if len(dims) == 1 and isinstance(dims[0], (tuple, list)):
        dims = tuple(dims[0])
    return T(np.transpose(x.a, dims), x.dtype, True)


def movedim(x, s, d):
    return T(np.moveaxis(x.a, s, d), x.dtype, True)


def diagonal(x, offset=0, dim1=0, dim2=1):
    v = np.diagonal(x.a, offset=offset, axis1=dim1, axis2=dim2)
    try:
        v.setflags(write=True)
    except ValueError:
        pass
    return T(v, x.dtype, True)


def diag(x, k=0):
    if x.a.ndim == 1:
        n = x.a.shape[0] + builtins.abs(k)
        out = zeros(n, n, dtype=x.dtype)
        for i in range(x.a.shape[0]):
            out.a[(i, i + k) if k >= 0 else (i - k, i)] = x.a[i]
        return out
    return T(np.diagonal(x.a, k).copy(), x.dtype, True)


def diag_embed(x, offset=0, dim1=-2, dim2=-1):
    if offset != 0 or (dim1, dim2) != (-2, -1):
        raise Unmodelled("diag_embed with offsets")
    n = x.a.shape[-1]
    out = zeros(*x.a.shape, n, dtype=x.dtype)
    for i in range(n):
        out.a[..., i, i] = x.a[..., i]
    return out


def _tri(x, k, upper):
    n, m = x.a.shape[-2:]
    mask = np.triu(np.ones((n, m), dtype=np.bool_), k) if upper else np.tril(np.ones((n, m), dtype=np.bool_), k)
    out = x.clone()
    z = _zero_like_elem(x)
    out.a[..., ~mask] = z
    return out


def triu(x, diagonal=0):
    return _tri(x, diagonal, True)


def tril(x, diagonal=0):
    return _tri(x, diagonal, False)


def triu_indices(row, col, offset=0, **kw):
    r, c = np.triu_indices(row, offset, col)
    return T(np.stack([r, c]).astype(np.int64), _rt.int64, True)


def tril_indices(row, col, offset=0, **kw):
    r, c = np.tril_indices(row, offset, col)
    return T(np.stack([r, c]).astype(np.int64), _rt.int64, True)


def _common(arrs):
    if builtins.any(a.dtype == object for a in arrs):
        return [a if a.dtype == object else _obj(a) for a in arrs]
    return arrs


def stack(ts, dim=0):
    ts = [t if isinstance(t, T) else T(t) for t in ts]
    dt = ts[0].dtype
    for t in ts[1:]:
        dt = _promote(dt, t.dtype)
    return T(np.stack(_common([t.a for t in ts]), axis=dim), dt, True)


def cat(ts, dim=0):
    ts = [t if isinstance(t, T) else T(t) for t in ts]
    ts = [t for t in ts if not (t.a.ndim == 1 and t.a.shape[0] == 0 and len(ts) > 1)] or ts[:1]
    dt = ts[0].dtype
    for t in ts[1:]:
        dt = _promote(dt, t.dtype)
    return T(np.concatenate(_common([t.a for t in ts]), axis=dim), dt, True)


concat = cat
concatenate = cat


def hstack(ts):
    return cat(ts, dim=1 if ts[0].a.ndim > 1 else 0)


def vstack(ts):
    return T(np.vstack(_common([t.a for t in ts])), ts[0].dtype, True)


def unbind(x, dim=0):
    a = np.moveaxis(x.a, dim, 0)
    return tuple(T(a[i], x.dtype, True) for i in range(a.shape[0]))


def split(x, s, dim=0):
    n = x.a.shape[dim]
    if isinstance(s, builtins.int):
        sizes = [s] * (n // s) + ([n % s] if n % s else [])
    else:
        sizes = list(s)
    out = []
    pos = 0
    for sz in sizes:
        sl = [slice(None)] * x.a.ndim
        sl[dim] = slice(pos, pos + sz)
        out.append(T(x.a[tuple(sl)], x.dtype, True))
        pos += sz
    return tuple(out)


def chunk(x, n, dim=0):
    size = -(-x.a.shape[dim] // n)
    return split(x, size, dim)


def gather(x, dim, index):
    idx = _idx_array(index)
    return T(np.take_along_axis(x.a, idx, axis=dim), x.dtype, True)


def take_along_dim(x, index, dim):
    return gather(x, dim, index)


def index_select(x, dim, index):
    return T(np.take(x.a, _idx_array(index), axis=dim), x.dtype, True)


def masked_select(x, mask):
    return x[mask]


def flip(x, *dims):
    if len(dims) == 1 and isinstance(dims[0], (tuple, list)):
        dims = tuple(dims[0])
    return T(np.flip(x.a, axis=dims).copy(), x.dtype, True)


def roll(x, shifts, dims=None):
    return T(np.roll(x.a, shifts, axis=dims), x.dtype, True)


def meshgrid(*ts, indexing="ij"):
    arrs = np.meshgrid(*[t.a for t in ts], indexing=indexing)
    return tuple(T(a, ts[0].dtype) for a in arrs)


def cartesian_prod(*ts):
    g = np.meshgrid(*[t.a for t in ts], indexing="ij")
    return T(np.stack([x.reshape(-1) for x in g], axis=1), ts[0].dtype)


def broadcast_tensors(*ts):
    arrs = np.broadcast_arrays(*[t.a for t in ts])
    return tuple(T(a, t.dtype, True) for a, t in zip(arrs, ts))


def atleast_1d(x):
    return x if x.a.ndim >= 1 else reshape(x, 1)


# ---------------------------------------------------------------------------
# autograd / misc surface


class _NoGrad:
    def __init__(self, *a, **k):
        pass

    def __enter__(self):
        return self

    def __exit__(self, *a):
        return False

    def __call__(self, f):
        return f


class _NoGradTaped(_NoGrad):
    """no_grad with stop-gradient tracking (see TAPE): float tensors built inside the region are constants of the tape."""

    def __enter__(self):
        TAPE["depth"] += 1
        return self

    def __exit__(self, *a):
        TAPE["depth"] -= 1
        return False

    def __call__(self, f):
        def g(*a, **k):
            with self:
                return f(*a, **k)

        return g


no_grad = _NoGradTaped
enable_grad = _NoGrad
set_grad_enabled = _NoGrad
inference_mode = _NoGradTaped


def is_grad_enabled():
    return False


class _Autograd:
    class Function:
        @classmethod
        def apply(cls, *a, **k):
            raise Unmodelled("autograd.Function.apply is not modelled (S8)")

    @staticmethod
    def grad(*a, **k):
        raise Unmodelled("autograd.grad is not modelled (S8)")

    class functional:
        @staticmethod
        def jacobian(*a, **k):
            raise Unmodelled("autograd.functional is not modelled (S8)")

        hessian = jacobian


autograd = _Autograd()


class _Cuda:
    @staticmethod
    def is_available():
        return False

    @staticmethod
    def synchronize(*a, **k):
        return None

    @staticmethod
    def empty_cache():
        return None

    @staticmethod
    def manual_seed_all(s):
        return None

    @staticmethod
    def get_rng_state_all():
        return None

    @staticmethod
    def set_rng_state_all(s):
        return None

    @staticmethod
    def device_count():
        return 0


cuda = _Cuda()


class _NN:
    Module = _rt.nn.Module  # real base class: repo classes were created from it at import time

    @staticmethod
    def Parameter(data=None, requires_grad=True):
        t = data if isinstance(data, T) else T(data)
        t.requires_grad = requires_grad
        return t

    class functional:
        @staticmethod
        def pad(x, pad, value=0.0):
            nd = x.a.ndim
            widths = [(0, 0)] * nd
            for i in range(len(pad) // 2):
                widths[nd - 1 - i] = (pad[2 * i], pad[2 * i + 1])
            out_shape = tuple(s + a + b for s, (a, b) in zip(x.a.shape, widths))
            out = _filled(out_shape, value, x.dtype)
            sl = tuple(slice(a, a + s) for s, (a, b) in zip(x.a.shape, widths))
            out.a[sl] = x.a
            return out

        @staticmethod
        def one_hot(x, num_classes=-1):
            a = _idx_array(x)
            n = num_classes if num_classes > 0 else builtins.int(a.max()) + 1
            return T(np.eye(n, dtype=np.int64)[a], _rt.int64, True)


nn = _NN()


class _Jit:
    @staticmethod
    def script(f):
        return f

    @staticmethod
    def ignore(f):
        return f


jit = _Jit()


def finfo(dt=None):
    return _rt.finfo(dt if dt is not None else _default_dtype[0])


def iinfo(dt):
    return _rt.iinfo(dt)


def set_printoptions(*a, **k):
    return None


def get_num_threads():
    return 1


def set_num_threads(n):
    return None


def save(obj, path, *a, **k):
    h = _IO.get("save")
    if h is None:
        raise Unmodelled("torch.save outside the ghost file system")
    return h(obj, path)


def load(path, *a, **k):
    h = _IO.get("load")
    if h is None:
        raise Unmodelled("torch.load outside the ghost file system")
    return h(path)


_IO: dict = {}


def symbolic(shape, prefix, dt=None):
    """Fresh symbolic float tensor with named entries prefix_i_j…"""
    if isinstance(shape, builtins.int):
        shape = (shape,)
    a = np.empty(shape, dtype=object)
    for pos in np.ndindex(*shape):
        a[pos] = E.real(prefix + "".join("_%d" % p for p in pos))
    return T(a, dt or _default_dtype[0], True)


def from_fractions(arr, dt=None):
    a = np.empty(np.shape(arr), dtype=object)
    src = np.asarray(arr, dtype=object)
    for pos in np.ndindex(*a.shape):
        v = src[pos]
        a[pos] = Sym(E.const(Fraction(v), E.R)) if not isinstance(v, Sym) else v
    return T(a, dt or _default_dtype[0], True)


def __getattr__(name):  # module-level: anything not modelled is loud, never silently real-torch
    if name.startswith("__"):
        raise AttributeError(name)
    raise Unmodelled("torch.%s is not modelled by symtorch" % name)
