"""pyvc.expr -- hash-consed symbolic scalar expressions.

Floats are modelled as mathematical reals and Python ints as mathematical
integers (assumption A1 of DESIGN.md).  A `Sym` wraps a `Node`; all Python
operators build new nodes.  `bool(sym)` on a non-constant asks the active
explorer (pyvc.explore) for a decision, which is what makes path exploration
of the real, unmodified repository code possible.
"""
from __future__ import annotations

import math
from fractions import Fraction

R, I, B = "R", "I", "B"


class Unmodelled(Exception):
    """An operation the engine cannot represent (never mapped to a violation)."""


class Node:
    __slots__ = ("op", "args", "val", "sort", "id", "__weakref__")

    def __repr__(self):
        return to_str(self)


_TABLE: dict = {}
_NEXT = [0]


def mk(op, args=(), val=None, sort=R) -> Node:
    key = (op, tuple(a.id for a in args), val, sort)
    n = _TABLE.get(key)
    if n is None:
        n = Node()
        n.op, n.args, n.val, n.sort = op, tuple(args), val, sort
        n.id = _NEXT[0]
        _NEXT[0] += 1
        _TABLE[key] = n
    return n


def table_size():
    return len(_TABLE)


# ----------------------------------------------------------------------------
# constants


def frac_of_float(x: float) -> Fraction:
    """Float-constant rule (i): a double is read as its shortest round-trip decimal."""
    if x != x or x in (math.inf, -math.inf):
        raise Unmodelled(f"non-finite float constant {x!r}")
    if x == int(x) and abs(x) < 2**53:
        return Fraction(int(x))
    return Fraction(repr(float(x)))


def const(v, sort=None) -> Node:
    if isinstance(v, bool):
        return mk("const", (), bool(v), B)
    if isinstance(v, int):
        return mk("const", (), Fraction(v), sort or I)
    if isinstance(v, Fraction):
        if sort is None:
            sort = I if v.denominator == 1 else R
        return mk("const", (), v, sort)
    if isinstance(v, float):
        return mk("const", (), frac_of_float(v), sort or R)
    try:
        import numpy as np

        if isinstance(v, np.bool_):
            return const(bool(v))
        if isinstance(v, np.integer):
            return const(int(v), sort)
        if isinstance(v, np.floating):
            return const(float(v), sort)
    except ImportError:  # pragma: no cover
        pass
    raise Unmodelled(f"cannot make a constant of {type(v).__name__}: {v!r}")


TRUE = const(True)
FALSE = const(False)
ZERO = const(0)
ONE = const(1)


def var(name: str, sort=R) -> Node:
    return mk("var", (), name, sort)


def is_const(n: Node) -> bool:
    return n.op == "const"


def node_of(x, sort_hint=None) -> Node:
    if isinstance(x, Sym):
        return x.n
    if isinstance(x, Node):
        return x
    return const(x, sort_hint)


def _num_sort(*ns):
    for n in ns:
        if n.sort == R:
            return R
    return I


def _as_num(n: Node) -> Node:
    if n.sort == B:
        return ite(n, ONE, ZERO)
    return n


# ----------------------------------------------------------------------------
# constructors with light simplification


def add(*xs) -> Node:
    terms = []
    c = Fraction(0)
    sort = I
    stack = list(reversed(xs))
    while stack:
        x = _as_num(stack.pop())
        if x.sort == R:
            sort = R
        if x.op == "const":
            c += x.val
        elif x.op == "add":
            stack.extend(reversed(x.args))
        else:
            terms.append(x)
    if c != 0 or not terms:
        terms.append(const(c, sort))
    if len(terms) == 1:
        t = terms[0]
        if t.sort != sort and t.op == "const":
            return const(t.val, sort)
        return t if t.sort == sort else mk("toreal", (t,), None, R)
    return mk("add", terms, None, sort)


def mul(*xs) -> Node:
    fs = []
    c = Fraction(1)
    sort = I
    stack = list(reversed(xs))
    while stack:
        x = _as_num(stack.pop())
        if x.sort == R:
            sort = R
        if x.op == "const":
            c *= x.val
        elif x.op == "mul":
            stack.extend(reversed(x.args))
        else:
            fs.append(x)
    if c == 0:
        return const(Fraction(0), sort)
    if c != 1 or not fs:
        fs.insert(0, const(c, sort))
    if len(fs) == 1:
        t = fs[0]
        if t.sort != sort and t.op == "const":
            return const(t.val, sort)
        return t if t.sort == sort else mk("toreal", (t,), None, R)
    return mk("mul", fs, None, sort)


def neg(x):
    return mul(const(-1), x)


def sub(a, b):
    return add(a, neg(b))


def _frac_pow(b: Fraction, e: Fraction):
    """Exact rational power if it exists, else None."""
    if e.denominator == 1:
        if b == 0 and e < 0:
            return None
        return b ** int(e)
    if b < 0:
        return None
    if b == 0:
        return Fraction(0) if e > 0 else None
    q = e.denominator

    def iroot(n, k):
        if n < 2:
            return n
        r = int(round(n ** (1.0 / k)))
        for cand in (r - 1, r, r + 1):
            if cand >= 0 and cand**k == n:
                return cand
        # slow exact
        lo, hi = 0, 1 << ((n.bit_length() // k) + 1)
        while lo < hi:
            mid = (lo + hi) // 2
            if mid**k < n:
                lo = mid + 1
            else:
                hi = mid
        return lo if lo**k == n else None

    rn, rd = iroot(b.numerator, q), iroot(b.denominator, q)
    if rn is None or rd is None:
        return None
    return Fraction(rn, rd) ** int(e.numerator)


def _reduce_radical(b: Fraction, e: Fraction):
    """b^e (b > 0 rational, e = s/r not an integer, no exact rational value) as coef * m^(frac(e)) with m a positive integer
    that is r-th-power free: (3/4)^(1/2) -> (1/2, 3).  None when b is not small enough to factor by trial division."""
    if b <= 0 or e.denominator == 1:
        return None
    r = e.denominator
    whole = math.floor(e)
    f = e - whole  # in (0,1): f = s/r
    s_ = f.numerator
    n, d = b.numerator, b.denominator
    N = n * d ** (r - 1)  # b = N / d^r
    if N > 10**14:
        return None
    k, m, p_ = 1, N, 2
    while p_ ** r <= m and p_ < 10**6:
        while m % (p_ ** r) == 0:
            m //= p_ ** r
            k *= p_
        p_ += 1 if p_ == 2 else 2
    if k == 1 and d == 1 and whole == 0 and s_ == 1:
        return None  # already canonical: m^(1/r), m r-th-power free
    coef = Fraction(k, d) ** s_ * (b ** whole)
    # b^f = (N^(1/r)/d)^s = (k m^(1/r)/d)^s = (k/d)^s (m^s)^(1/r)
    M = m ** s_
    if s_ != 1:
        if M > 10**14:
            return None
        # pull r-th powers out of m^s again
        k2, p_ = 1, 2
        while p_ ** r <= M and p_ < 10**6:
            while M % (p_ ** r) == 0:
                M //= p_ ** r
                k2 *= p_
            p_ += 1 if p_ == 2 else 2
        coef *= k2
    if M == 1:
        return None
    return coef, M, r


def powr(x: Node, e) -> Node:
    e = Fraction(e)
    x = _as_num(x)
    if e == 0:
        return const(Fraction(1), x.sort)
    if e == 1:
        return x
    if x.op == "const":
        if x.val == 0 and e < 0:
            # 1/0: no real value.  An opaque symbol that no contract can say anything about (it must sit in a branch that the
            # path condition excludes; E.defined of an expression containing it is False)
            return var("undefined(0**%s)" % e, R)
        v = _frac_pow(x.val, e)
        if v is not None:
            return const(v, I if (x.sort == I and v.denominator == 1 and e > 0) else R)
        red = _reduce_radical(Fraction(x.val), e)
        if red is not None:
            coef, m, r_ = red
            return mul(const(coef, R), mk("pow", (const(Fraction(m), R),), Fraction(1, r_), R))
    if x.op == "pow" and e.denominator == 1 and x.val.denominator == 1:
        return powr(x.args[0], x.val * e)
    sort = I if (x.sort == I and e.denominator == 1 and e > 0) else R
    return mk("pow", (x,), e, sort)


def div(a, b) -> Node:
    a, b = _as_num(a), _as_num(b)
    r = mul(a, powr(b, -1))
    if r.sort == I:
        if r.op == "const":
            return const(r.val, R)
        r = mk("toreal", (r,), None, R)
    return r


def sqrt(x):
    return powr(x, Fraction(1, 2))


def fn(name, x) -> Node:
    x = _as_num(x)
    if x.op == "const":
        v = x.val
        if name == "exp" and v == 0:
            return const(Fraction(1), R)
        if name in ("sin",) and v == 0:
            return const(Fraction(0), R)
        if name == "cos" and v == 0:
            return const(Fraction(1), R)
        if name == "log" and v == 1:
            return const(Fraction(0), R)
        if name == "abs":
            return const(abs(v), x.sort)
        if name == "sign":
            return const(Fraction((v > 0) - (v < 0)), x.sort)
        if name == "floor":
            return const(Fraction(math.floor(v)), I)
    if name in ("abs", "sign"):
        return mk(name, (x,), None, x.sort)
    if name == "floor":
        return x if x.sort == I else mk("floor", (x,), None, I)
    return mk(name, (x,), None, R)


def expm1(x):
    return add(fn("exp", x), const(-1))


def uf(name, args=(), sort=R) -> Node:
    return mk("uf", tuple(args), name, sort)


def floordiv(a, b) -> Node:
    a, b = _as_num(a), _as_num(b)
    if a.sort != I or b.sort != I:
        return fn("floor", div(a, b))
    if a.op == "const" and b.op == "const" and b.val != 0:
        return const(Fraction(math.floor(a.val / b.val)), I)
    if b.op == "const" and b.val == 1:
        return a
    return mk("floordiv", (a, b), None, I)


def mod(a, b) -> Node:
    a, b = _as_num(a), _as_num(b)
    if a.sort != I or b.sort != I:
        # real remainder with the sign of the divisor (Python / torch.remainder): a - b*floor(a/b)
        return sub(a, mul(b, mk("toreal", (fn("floor", div(a, b)),), None, R)))
    if a.op == "const" and b.op == "const" and b.val != 0:
        return const(Fraction(int(a.val) % int(b.val)), I)
    if b.op == "const" and b.val == 1:
        return const(0)
    return mk("mod", (a, b), None, I)


def ite(c, a, b) -> Node:
    if c.op == "const":
        return a if c.val else b
    if a.sort == B and b.sort == B:
        if a is b:
            return a
        return mk("ite", (c, a, b), None, B)
    a, b = _as_num(a), _as_num(b)
    if a is b:
        return a
    s = _num_sort(a, b)
    return mk("ite", (c, a, b), None, s)


def _cmp(op, a, b) -> Node:
    a, b = _as_num(a), _as_num(b)
    if a.op == "const" and b.op == "const":
        x, y = a.val, b.val
        return const({"lt": x < y, "le": x <= y, "eq": x == y}[op])
    if op == "eq":
        if a is b:
            return TRUE
        if a.id > b.id:
            a, b = b, a
    elif a is b:
        return const(op == "le")
    return mk(op, (a, b), None, B)


def lt(a, b):
    return _cmp("lt", a, b)


def le(a, b):
    return _cmp("le", a, b)


def gt(a, b):
    return _cmp("lt", b, a)


def ge(a, b):
    return _cmp("le", b, a)


def eq(a, b):
    if a.sort == B and b.sort == B:
        if a is b:
            return TRUE
        if a.op == "const":
            return b if a.val else not_(b)
        if b.op == "const":
            return a if b.val else not_(a)
        return mk("iff", (a, b), None, B)
    return _cmp("eq", a, b)


def ne(a, b):
    return not_(eq(a, b))


def not_(a) -> Node:
    if a.sort != B:
        a = ne(a, ZERO)
    if a.op == "const":
        return const(not a.val)
    if a.op == "not":
        return a.args[0]
    return mk("not", (a,), None, B)


def _tobool(a):
    return a if a.sort == B else ne(a, ZERO)


def and_(*xs) -> Node:
    out = []
    seen = set()
    stack = list(reversed(xs))
    while stack:
        x = _tobool(stack.pop())
        if x.op == "const":
            if not x.val:
                return FALSE
            continue
        if x.op == "and":
            stack.extend(reversed(x.args))
            continue
        if x.id not in seen:
            seen.add(x.id)
            out.append(x)
    if not out:
        return TRUE
    if len(out) == 1:
        return out[0]
    return mk("and", out, None, B)


def or_(*xs) -> Node:
    out = []
    seen = set()
    stack = list(reversed(xs))
    while stack:
        x = _tobool(stack.pop())
        if x.op == "const":
            if x.val:
                return TRUE
            continue
        if x.op == "or":
            stack.extend(reversed(x.args))
            continue
        if x.id not in seen:
            seen.add(x.id)
            out.append(x)
    if not out:
        return FALSE
    if len(out) == 1:
        return out[0]
    return mk("or", out, None, B)


def implies(a, b):
    return or_(not_(a), b)


def max_(a, b):
    return ite(ge(a, b), a, b)


def min_(a, b):
    return ite(le(a, b), a, b)


# ----------------------------------------------------------------------------
# the Python-facing wrapper

_ORACLE = [None]  # set by pyvc.explore


_E_AS_FRACTION = frac_of_float(math.e)


def exponent_of_float(o: float) -> Fraction:
    """an exponent that is the double nearest to a small rational (1/3, 1.5, 0.2 ...) is read as that rational (float-constant
    rule for exponents: `x ** (1 / 3)` means the cube root)"""
    snap = Fraction(o).limit_denominator(64)
    return snap if float(snap) == o else frac_of_float(o)


def set_oracle(o):
    old = _ORACLE[0]
    _ORACLE[0] = o
    return old


class Sym:
    """Python-facing symbolic scalar."""

    __slots__ = ("n",)
    __array_priority__ = 1000

    def __init__(self, n: Node):
        self.n = n

    # -- sorts
    @property
    def sort(self):
        return self.n.sort

    def is_const(self):
        return self.n.op == "const"

    def const_value(self):
        if self.n.op != "const":
            raise Unmodelled("symbolic value where a concrete one is required: %s" % to_str(self.n, 200))
        return self.n.val

    # -- arithmetic
    def _w(self, x):
        return node_of(x)

    def __add__(self, o):
        o = _coerce(o)
        return NotImplemented if o is None else Sym(add(self.n, o))

    __radd__ = __add__

    def __sub__(self, o):
        o = _coerce(o)
        return NotImplemented if o is None else Sym(sub(self.n, o))

    def __rsub__(self, o):
        o = _coerce(o)
        return NotImplemented if o is None else Sym(sub(o, self.n))

    def __mul__(self, o):
        o = _coerce(o)
        return NotImplemented if o is None else Sym(mul(self.n, o))

    __rmul__ = __mul__

    def __truediv__(self, o):
        o = _coerce(o)
        return NotImplemented if o is None else Sym(div(self.n, o))

    def __rtruediv__(self, o):
        o = _coerce(o)
        return NotImplemented if o is None else Sym(div(o, self.n))

    def __floordiv__(self, o):
        o = _coerce(o)
        return NotImplemented if o is None else Sym(floordiv(self.n, o))

    def __rfloordiv__(self, o):
        o = _coerce(o)
        return NotImplemented if o is None else Sym(floordiv(o, self.n))

    def __mod__(self, o):
        o = _coerce(o)
        return NotImplemented if o is None else Sym(mod(self.n, o))

    def __rmod__(self, o):
        o = _coerce(o)
        return NotImplemented if o is None else Sym(mod(o, self.n))

    def __pow__(self, o):
        if isinstance(o, Sym):
            if o.n.op != "const":
                if self.n.op == "const" and self.n.val == _E_AS_FRACTION:
                    return Sym(fn("exp", o.n))  # math.e ** x is read as exp(x) (float-constant rule: the literal names Euler's number)
                raise Unmodelled("symbolic exponent")
            o = o.n.val
        if isinstance(o, float):
            o = exponent_of_float(o)
        return Sym(powr(self.n, Fraction(o)))

    def __rpow__(self, o):
        # concrete ** symbolic: only exp-like
        if self.n.op == "const":
            return Sym(powr(node_of(o), self.n.val))
        if isinstance(o, float) and o == math.e:
            return Sym(fn("exp", self.n))
        raise Unmodelled("symbolic exponent")

    def __neg__(self):
        if self.n.sort == B:
            raise Unmodelled("negation of a bool; use ~")
        return Sym(neg(self.n))

    def __pos__(self):
        return self

    def __abs__(self):
        return Sym(fn("abs", self.n))

    # -- comparisons
    def __lt__(self, o):
        return Sym(lt(self.n, node_of(o)))

    def __le__(self, o):
        return Sym(le(self.n, node_of(o)))

    def __gt__(self, o):
        return Sym(gt(self.n, node_of(o)))

    def __ge__(self, o):
        return Sym(ge(self.n, node_of(o)))

    def __eq__(self, o):  # type: ignore[override]
        if o is None:
            return False
        c = _coerce(o)
        if c is None:
            return NotImplemented
        return Sym(eq(self.n, c))

    def __ne__(self, o):  # type: ignore[override]
        if o is None:
            return True
        c = _coerce(o)
        if c is None:
            return NotImplemented
        return Sym(ne(self.n, c))

    def __hash__(self):
        return hash(self.n.id)

    # -- boolean structure
    def __and__(self, o):
        return Sym(and_(self.n, node_of(o)))

    __rand__ = __and__

    def __or__(self, o):
        return Sym(or_(self.n, node_of(o)))

    __ror__ = __or__

    def __invert__(self):
        return Sym(not_(self.n))

    def __xor__(self, o):
        return Sym(ne(_tobool(self.n), _tobool(node_of(o))))

    def __bool__(self):
        n = self.n
        if n.sort != B:
            n = ne(n, ZERO)
        if n.op == "const":
            return bool(n.val)
        o = _ORACLE[0]
        if o is None:
            raise Unmodelled("symbolic branch outside an exploration: %s" % to_str(n, 200))
        return o.decide(n)

    # -- concretisation
    def __index__(self):
        if self.n.op == "const" and self.n.sort != B and self.n.val.denominator == 1:
            return int(self.n.val)
        if self.n.sort == I:
            o = _ORACLE[0]
            if o is not None:
                return o.concretize_int(self.n)
        raise Unmodelled("symbolic value used as an index: %s" % to_str(self.n, 200))

    def __int__(self):
        if self.n.op == "const":
            return int(self.n.val)
        raise Unmodelled("int() of a symbolic value reached the C builtin: %s" % to_str(self.n, 200))

    def __float__(self):
        if self.n.op == "const":
            return float(self.n.val)
        raise Unmodelled("float() of a symbolic value reached the C builtin: %s" % to_str(self.n, 200))

    def __round__(self, nd=None):
        if self.n.op == "const":
            return round(self.n.val, nd)
        raise Unmodelled("round() of symbolic")

    def __format__(self, spec):
        if self.n.op == "const":
            try:
                v = self.n.val
                return format(int(v) if (self.n.sort == I) else float(v), spec)
            except Exception:
                return str(self.n.val)
        return "<sym#%d>" % self.n.id

    def __repr__(self):
        return "Sym(%s)" % to_str(self.n, 120)

    __str__ = __repr__

    # torch-scalar look-alikes used by repo code on 0-d results
    def item(self):
        return self

    def detach(self):
        return self

    def cpu(self):
        return self


def _coerce(o):
    if isinstance(o, Sym):
        return o.n
    if isinstance(o, Node):
        return o
    if isinstance(o, (bool, int, float, Fraction)):
        return const(o)
    try:
        import numpy as np

        if isinstance(o, (np.integer, np.floating, np.bool_)):
            return const(o)
    except ImportError:  # pragma: no cover
        pass
    return None


def S(x) -> Sym:
    return x if isinstance(x, Sym) else Sym(node_of(x))


def real(name):
    return Sym(var(name, R))


def integer(name):
    return Sym(var(name, I))


def boolean(name):
    return Sym(var(name, B))


# ----------------------------------------------------------------------------
# printing


def to_str(n: Node, limit=400) -> str:
    out = []
    budget = [limit]

    def rec(n, d):
        if budget[0] <= 0:
            out.append("…")
            return
        op = n.op
        if op == "const":
            s = str(n.val)
            out.append(s)
            budget[0] -= len(s)
        elif op == "var":
            out.append(n.val)
            budget[0] -= len(n.val)
        elif op in ("add", "mul", "and", "or"):
            sep = {"add": " + ", "mul": "*", "and": " & ", "or": " | "}[op]
            out.append("(")
            for k, a in enumerate(n.args):
                if k:
                    out.append(sep)
                rec(a, d + 1)
            out.append(")")
            budget[0] -= 2
        elif op == "pow":
            rec(n.args[0], d + 1)
            out.append("^(%s)" % n.val)
            budget[0] -= 4
        elif op in ("lt", "le", "eq", "iff"):
            out.append("(")
            rec(n.args[0], d + 1)
            out.append({"lt": " < ", "le": " <= ", "eq": " == ", "iff": " <=> "}[op])
            rec(n.args[1], d + 1)
            out.append(")")
        elif op == "uf":
            out.append(str(n.val) + "(")
            for k, a in enumerate(n.args):
                if k:
                    out.append(",")
                rec(a, d + 1)
            out.append(")")
            budget[0] -= len(str(n.val))
        else:
            out.append(op + "(")
            for k, a in enumerate(n.args):
                if k:
                    out.append(",")
                rec(a, d + 1)
            out.append(")")
            budget[0] -= len(op)

    rec(n, 0)
    return "".join(out)


# ----------------------------------------------------------------------------
# traversal helpers


def postorder(roots):
    seen = set()
    order = []
    for r in roots:
        if r.id in seen:
            continue
        stack = [(r, 0)]
        while stack:
            n, i = stack.pop()
            if i == 0 and n.id in seen:
                continue
            if i < len(n.args):
                stack.append((n, i + 1))
                c = n.args[i]
                if c.id not in seen:
                    stack.append((c, 0))
            else:
                if n.id not in seen:
                    seen.add(n.id)
                    order.append(n)
    return order


def free_vars(*roots):
    return {n for n in postorder(roots) if n.op == "var"}


def atoms_of_kind(roots, op):
    return [n for n in postorder(roots) if n.op == op]


def substitute(root: Node, mapping: dict) -> Node:
    """mapping: Node -> Node (keys matched by identity)."""
    memo = {}
    for n in postorder([root]):
        if n in mapping:
            memo[n.id] = mapping[n]
            continue
        if not n.args:
            memo[n.id] = n
            continue
        new = [memo[a.id] for a in n.args]
        if all(x is y for x, y in zip(new, n.args)):
            memo[n.id] = n
        else:
            memo[n.id] = rebuild(n, new)
    return memo[root.id]


def rebuild(n: Node, args):
    op = n.op
    if op == "add":
        return add(*args)
    if op == "mul":
        return mul(*args)
    if op == "pow":
        return powr(args[0], n.val)
    if op in ("exp", "sin", "cos", "log", "abs", "sign", "floor", "tanh", "atan", "acos", "asin"):
        return fn(op, args[0])
    if op == "toreal":
        a = args[0]
        return const(a.val, R) if a.op == "const" else (a if a.sort == R else mk("toreal", (a,), None, R))
    if op == "floordiv":
        return floordiv(*args)
    if op == "mod":
        return mod(*args)
    if op == "ite":
        return ite(*args)
    if op in ("lt", "le"):
        return _cmp(op, *args)
    if op == "eq":
        return eq(*args)
    if op == "iff":
        return eq(*args)
    if op == "not":
        return not_(args[0])
    if op == "and":
        return and_(*args)
    if op == "or":
        return or_(*args)
    if op == "uf":
        return uf(n.val, args, n.sort)
    raise Unmodelled("rebuild " + op)


# ----------------------------------------------------------------------------
# numeric evaluation (exact where possible, mpmath otherwise)


def evaluate(root: Node, env: dict, mode="mp", uf_impl=None):
    """env: var name -> number.  mode 'frac' (exact, raises on irrational), 'mp' (mpmath 50 digits), 'float'."""
    if mode == "mp":
        import mpmath

        mp = mpmath.mp
        mp.dps = 60
        num = lambda fr: mpmath.mpf(fr.numerator) / mpmath.mpf(fr.denominator)
        F = {
            "exp": mpmath.exp,
            "sin": mpmath.sin,
            "cos": mpmath.cos,
            "log": mpmath.log,
            "tanh": mpmath.tanh,
            "atan": mpmath.atan,
            "acos": mpmath.acos,
            "asin": mpmath.asin,
        }
        flo = lambda x: int(mpmath.floor(x))
    elif mode == "float":
        num = float
        F = {k: getattr(math, k) for k in ("exp", "sin", "cos", "log", "tanh", "atan", "acos", "asin")}
        flo = math.floor
    else:
        num = lambda fr: fr
        F = {}
        flo = math.floor
    memo = {}
    for n in postorder([root]):
        op = n.op
        a = [memo[c.id] for c in n.args]
        if op == "const":
            v = n.val if n.sort == B else num(n.val)
        elif op == "var":
            if n.val not in env:
                raise KeyError(n.val)
            v = env[n.val]
            if n.sort == B:
                v = bool(v)
            elif isinstance(v, Fraction):
                v = num(v)
            elif isinstance(v, (int, float)) and mode == "mp":
                v = num(Fraction(v) if isinstance(v, int) else frac_of_float(v))
        elif op == "add":
            v = a[0]
            for x in a[1:]:
                v = v + x
        elif op == "mul":
            v = a[0]
            for x in a[1:]:
                v = v * x
        elif op == "pow":
            e = n.val
            if e.denominator == 1:
                v = a[0] ** int(e)
            elif mode == "frac":
                r = _frac_pow(Fraction(a[0]), e)
                if r is None:
                    raise Unmodelled("irrational power in exact evaluation")
                v = r
            elif mode == "mp":
                import mpmath

                v = mpmath.power(a[0], mpmath.mpf(e.numerator) / e.denominator)
            else:
                v = a[0] ** float(e)
        elif op == "toreal":
            v = a[0]
        elif op in F:
            v = F[op](a[0])
        elif op == "abs":
            v = abs(a[0])
        elif op == "sign":
            v = (a[0] > 0) - (a[0] < 0)
        elif op == "floor":
            v = flo(a[0])
        elif op == "floordiv":
            v = flo(Fraction(int(a[0])) / int(a[1])) if mode != "frac" else math.floor(a[0] / a[1])
        elif op == "mod":
            v = int(a[0]) % int(a[1])
        elif op == "ite":
            v = a[1] if a[0] else a[2]
        elif op == "lt":
            v = a[0] < a[1]
        elif op == "le":
            v = a[0] <= a[1]
        elif op == "eq":
            v = a[0] == a[1]
        elif op == "iff":
            v = bool(a[0]) == bool(a[1])
        elif op == "not":
            v = not a[0]
        elif op == "and":
            v = all(a)
        elif op == "or":
            v = any(a)
        elif op == "uf":
            if uf_impl is None or n.val not in uf_impl:
                raise KeyError("uf " + str(n.val))
            v = uf_impl[n.val](*a)
        else:
            raise Unmodelled("evaluate " + op)
        memo[n.id] = v
    return memo[root.id]


# ----------------------------------------------------------------------------
# symbolic differentiation


def defined(root: Node) -> Node:
    """Definedness (finiteness) condition of a real expression: every divisor is non-zero, every even root has a
    non-negative radicand, every logarithm a positive argument.  This is what torch.isfinite decides under assumption A1
    (no overflow); uninterpreted applications and variables are finite."""
    memo = {}

    def go(n):
        if n.id in memo:
            return memo[n.id]
        if n.op == "ite":
            c, a, b = n.args
            r = and_(go(c), ite(c, go(a), go(b))) if (go(a) is not TRUE or go(b) is not TRUE) else go(c)
        else:
            conds = [go(a) for a in n.args]
            if n.op == "var" and isinstance(n.val, str) and n.val.startswith("undefined("):
                conds.append(FALSE)
            if n.op == "pow":
                e = n.val
                base = n.args[0]
                if e.denominator % 2 == 0:
                    conds.append(gt(base, const(0)) if e < 0 else ge(base, const(0)))
                elif e < 0:
                    conds.append(ne(base, const(0)))
            elif n.op == "log":
                conds.append(gt(n.args[0], const(0)))
            conds = [c for c in conds if c is not TRUE]
            r = and_(*conds) if conds else TRUE
        memo[n.id] = r
        return r

    return go(root)


def diff(root: Node, x: Node, uf_rule=None) -> Node:
    """d root / d x (x a var node).  uf_rule(node, argindex) -> Node gives partials of uf applications."""
    memo = {}
    zero = const(Fraction(0), R)
    for n in postorder([root]):
        op = n.op
        if n is x:
            d = const(Fraction(1), R)
        elif op in ("const", "var"):
            d = zero
        elif op == "add":
            d = add(*[memo[a.id] for a in n.args])
        elif op == "mul":
            terms = []
            for k, a in enumerate(n.args):
                da = memo[a.id]
                if da.op == "const" and da.val == 0:
                    continue
                others = [b for j, b in enumerate(n.args) if j != k]
                terms.append(mul(da, *others))
            d = add(*terms) if terms else zero
        elif op == "pow":
            da = memo[n.args[0].id]
            if da.op == "const" and da.val == 0:
                d = zero
            else:
                d = mul(const(n.val), powr(n.args[0], n.val - 1), da)
        elif op == "toreal":
            d = memo[n.args[0].id]
        elif op == "exp":
            d = mul(n, memo[n.args[0].id])
        elif op == "sin":
            d = mul(fn("cos", n.args[0]), memo[n.args[0].id])
        elif op == "cos":
            d = mul(const(-1), fn("sin", n.args[0]), memo[n.args[0].id])
        elif op == "log":
            d = mul(powr(n.args[0], -1), memo[n.args[0].id])
        elif op == "ite":
            d = ite(n.args[0], memo[n.args[1].id], memo[n.args[2].id])
        elif op == "abs":
            d = mul(fn("sign", n.args[0]), memo[n.args[0].id])
        elif op == "uf":
            terms = []
            for k, a in enumerate(n.args):
                da = memo[a.id]
                if da.op == "const" and da.val == 0:
                    continue
                if uf_rule is None:
                    part = uf("D%d_%s" % (k, n.val), n.args, R)
                else:
                    part = uf_rule(n, k)
                terms.append(mul(part, da))
            d = add(*terms) if terms else zero
        elif n.sort == B or op in ("sign", "floor", "floordiv", "mod"):
            d = zero
        else:
            raise Unmodelled("diff " + op)
        memo[n.id] = d
    return memo[root.id]
