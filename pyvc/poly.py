"""pyvc.poly -- exact normal forms.

A `Poly` is a finite sum  sum_i c_i * prod_j atom_j ** e_ij  with rational
coefficients c_i and rational exponents e_ij.  Atoms are

  ('v', key)       a variable or an opaque sub-term (uninterpreted application,
                   abs, sign, ite, floor, ...) keyed by its canonical structure
  ('pw', polykey)  a multi-term polynomial base (exponent carried in the monomial)
  ('exp', monokey) exp of one monomial; exp(sum c_i m_i) = prod exp(m_i)**c_i

The decision procedure `is_zero` is *sound* (it only uses the field axioms,
p**a * p**b = p**(a+b) for p > 0, exp(a)exp(b)=exp(a+b)); it is complete for
rational functions and for radical expressions whose square-root generators are
multiplicatively independent -- the class the NDDO integral code lives in.
Soundness side conditions (radicand >= 0, divisor != 0) are emitted as separate
safety obligations by the explorer, not assumed here.
"""
from __future__ import annotations

from fractions import Fraction
from math import gcd

from . import expr as E

_ATOMS: dict = {}
_ATOM_LIST: list = []


def atom_id(key) -> int:
    i = _ATOMS.get(key)
    if i is None:
        i = len(_ATOM_LIST)
        _ATOMS[key] = i
        _ATOM_LIST.append(key)
    return i


def atom_key(i):
    return _ATOM_LIST[i]


ONE_M = ()


class Poly:
    __slots__ = ("t", "_key")

    def __init__(self, t=None):
        self.t = t if t is not None else {}
        self._key = None

    # -- construction
    @staticmethod
    def const(c):
        c = Fraction(c)
        return Poly({ONE_M: c} if c != 0 else {})

    @staticmethod
    def atom(i, e=Fraction(1)):
        return Poly({((i, Fraction(e)),): Fraction(1)})

    def is_zero_syntactic(self):
        return not self.t

    def is_const(self):
        return not self.t or (len(self.t) == 1 and ONE_M in self.t)

    def const_value(self):
        return self.t.get(ONE_M, Fraction(0))

    def key(self):
        if self._key is None:
            self._key = tuple(sorted(self.t.items()))
        return self._key

    def __len__(self):
        return len(self.t)

    # -- arithmetic
    def __add__(self, o):
        if len(self.t) < len(o.t):
            self, o = o, self
        t = dict(self.t)
        for m, c in o.t.items():
            v = t.get(m)
            if v is None:
                t[m] = c
            else:
                v = v + c
                if v == 0:
                    del t[m]
                else:
                    t[m] = v
        return Poly(t)

    def scale(self, c):
        c = Fraction(c)
        if c == 0:
            return Poly()
        if c == 1:
            return self
        return Poly({m: v * c for m, v in self.t.items()})

    def __neg__(self):
        return self.scale(-1)

    def __sub__(self, o):
        return self + o.scale(-1)

    def __mul__(self, o):
        if not self.t or not o.t:
            return Poly()
        if len(self.t) > len(o.t):
            self, o = o, self
        acc: dict = {}
        pending = []  # monomials that need re-expansion (pw atoms with exponent >= 1)
        for m1, c1 in self.t.items():
            for m2, c2 in o.t.items():
                m, needs = mono_mul(m1, m2)
                c = c1 * c2
                if needs:
                    pending.append((m, c))
                    continue
                v = acc.get(m)
                if v is None:
                    acc[m] = c
                else:
                    v += c
                    if v == 0:
                        del acc[m]
                    else:
                        acc[m] = v
        res = Poly(acc)
        for m, c in pending:
            res = res + expand_mono(m).scale(c)
        return res

    def pow_int(self, n: int):
        assert n >= 0
        result = Poly.const(1)
        base = self
        while n:
            if n & 1:
                result = result * base
            n >>= 1
            if n:
                base = base * base
        return result

    def atoms(self):
        s = set()
        for m in self.t:
            for a, _ in m:
                s.add(a)
        return s

    def __repr__(self):
        return poly_str(self)


def mono_mul(m1, m2):
    """Merge two monomials; returns (mono, needs_expansion)."""
    if not m1:
        return m2, False
    if not m2:
        return m1, False
    out = []
    i = j = 0
    needs = False
    while i < len(m1) and j < len(m2):
        a, ea = m1[i]
        b, eb = m2[j]
        if a == b:
            e = ea + eb
            if e != 0:
                out.append((a, e))
                if e >= 1 and _ATOM_LIST[a][0] == "pw":
                    needs = True
            i += 1
            j += 1
        elif a < b:
            out.append(m1[i])
            i += 1
        else:
            out.append(m2[j])
            j += 1
    out.extend(m1[i:])
    out.extend(m2[j:])
    return tuple(out), needs


def expand_mono(m) -> Poly:
    """Expand integer parts (>=1) of pw-atom exponents polynomially."""
    res = Poly.const(1)
    rest = []
    for a, e in m:
        k = _ATOM_LIST[a]
        if k[0] == "pw" and e >= 1:
            n = e.numerator // e.denominator
            f = e - n
            base = Poly(dict(k[1]))
            res = res * base.pow_int(n)
            if f != 0:
                rest.append((a, f))
        else:
            rest.append((a, e))
    if rest:
        res = res * Poly({tuple(rest): Fraction(1)})
    return res


def poly_pow(p: Poly, e: Fraction) -> Poly:
    e = Fraction(e)
    if e == 0:
        return Poly.const(1)
    if not p.t:
        if e > 0:
            return Poly()
        raise ZeroDivisionError("0 ** negative")
    if e.denominator == 1 and e > 0:
        return p.pow_int(int(e))
    if len(p.t) == 1:
        (m, c), = p.t.items()
        # (c*m)**e
        if e.denominator == 1:
            return Poly({tuple((a, x * e) for a, x in m): c ** int(e)})
        # fractional: only split a single atom with exponent 1 (x>=0 is sqrt's own safety VC)
        if len(m) == 0:
            v = E._frac_pow(c, e)
            if v is not None:
                return Poly.const(v)
        if c > 0 and (len(m) == 0 or (len(m) == 1 and (m[0][1] == 1 or _ATOM_LIST[m[0][0]][0] in ("pw", "exp")))):
            cv = E._frac_pow(c, e)
            cp = Poly.const(cv) if cv is not None else Poly.atom(atom_id(("pw", ((ONE_M, c),))), e)
            if len(m) == 0:
                return cp
            return cp * Poly({((m[0][0], m[0][1] * e),): Fraction(1)})
    # multi-term (or unsafe single-term) base: canonical pw atom
    content, prim = primitive(p)
    cv = E._frac_pow(content, e)
    if cv is not None:
        cp = Poly.const(cv)
    else:
        cp = Poly.atom(atom_id(("pw", ((ONE_M, content),))), e)
    a = atom_id(("pw", prim.key()))
    res = Poly({((a, e),): Fraction(1)})
    if e >= 1:
        res = expand_mono(((a, e),))
    return cp * res


def primitive(p: Poly):
    """p = content * prim with content > 0 rational, prim having coprime integer coefficients."""
    num = 0
    den = 1
    for c in p.t.values():
        num = gcd(num, abs(c.numerator))
        den = den * c.denominator // gcd(den, c.denominator)
    content = Fraction(num, den)
    if content == 1:
        return content, p
    return content, p.scale(1 / content)


# ----------------------------------------------------------------------------
# Node -> Poly

_MEMO: dict = {}
_OPAQUE_OPS = {"abs", "sign", "floor", "floordiv", "mod", "ite", "lt", "le", "eq", "iff", "not", "and", "or", "uf",
               "sin", "cos", "log", "tanh", "atan", "acos", "asin"}


def canon_key(n: E.Node):
    """Canonical structural key for any node (numeric -> poly key)."""
    if n.sort == E.B:
        if n.op == "const":
            return ("b", n.val)
        if n.op == "var":
            return ("bv", n.val)
        if n.op in ("lt", "le", "eq"):
            d = to_poly(n.args[0]) - to_poly(n.args[1])
            if n.op == "eq":
                # sign-normalise
                k1, k2 = d.key(), (-d).key()
                return ("eq", min(k1, k2))
            return (n.op, d.key())
        return (n.op, n.val, tuple(canon_key(a) for a in n.args))
    return to_poly(n).key()


def to_poly(n: E.Node) -> Poly:
    r = _MEMO.get(n.id)
    if r is not None:
        return r
    for m in E.postorder([n]):
        if m.id in _MEMO or m.sort == E.B:
            continue
        _MEMO[m.id] = _conv(m)
    return _MEMO[n.id]


def _conv(n: E.Node) -> Poly:
    op = n.op
    if op == "const":
        return Poly.const(n.val)
    if op == "var":
        return Poly.atom(atom_id(("v", ("var", n.val, n.sort))))
    if op == "toreal":
        return _MEMO[n.args[0].id]
    if op == "add":
        acc = Poly()
        for a in n.args:
            acc = acc + _MEMO[a.id]
        return acc
    if op == "mul":
        ps = sorted((_MEMO[a.id] for a in n.args), key=len)
        acc = ps[0]
        for p in ps[1:]:
            acc = acc * p
        return acc
    if op == "pow":
        return poly_pow(_MEMO[n.args[0].id], n.val)
    if op == "exp":
        p = _MEMO[n.args[0].id]
        acc = Poly.const(1)
        for m, c in sorted(p.t.items()):
            acc = acc * Poly.atom(atom_id(("exp", m)), c)
        return acc
    if op in _OPAQUE_OPS:
        key = (op, n.val, tuple(canon_key(a) for a in n.args))
        return Poly.atom(atom_id(("v", key)))
    raise E.Unmodelled("to_poly " + op)


# ----------------------------------------------------------------------------
# zero test


def clear_denominators(p: Poly, max_rounds=8) -> Poly:
    """Multiply p by powers of its pw bases until no pw atom has a negative exponent."""
    for _ in range(max_rounds):
        worst = {}
        for m in p.t:
            for a, e in m:
                if e < 0 and _ATOM_LIST[a][0] == "pw":
                    if a not in worst or e < worst[a]:
                        worst[a] = e
        if not worst:
            return p
        mm = tuple(sorted((a, Fraction(-(e.numerator // e.denominator))) for a, e in worst.items()))
        acc = Poly()
        for m, c in p.t.items():
            m2, _ = mono_mul(m, mm)
            acc = acc + expand_mono(m2).scale(c)
        p = acc
    return p


def is_zero(p: Poly) -> bool:
    if not p.t:
        return True
    q = clear_denominators(p)
    return not q.t


def equal(a: E.Node, b: E.Node) -> bool:
    return is_zero(to_poly(a) - to_poly(b))


# ----------------------------------------------------------------------------
# printing


def _atom_str(i):
    k = _ATOM_LIST[i]
    if k[0] == "v":
        kk = k[1]
        if kk[0] == "var":
            return kk[1]
        return "%s#%d" % (kk[0] if kk[0] != "uf" else kk[1], i)
    if k[0] == "pw":
        return "[" + poly_str(Poly(dict(k[1])), 6) + "]"
    if k[0] == "exp":
        return "exp{" + poly_str(Poly({k[1]: Fraction(1)}), 4) + "}"
    return str(k)


def poly_str(p: Poly, maxterms=12):
    if not p.t:
        return "0"
    out = []
    for k, (m, c) in enumerate(sorted(p.t.items())):
        if k >= maxterms:
            out.append("… (%d terms)" % len(p.t))
            break
        s = str(c)
        for a, e in m:
            s += "*" + _atom_str(a) + ("" if e == 1 else "^(%s)" % e)
        out.append(s)
    return " + ".join(out)


def free_atoms(p: Poly):
    """All variable names mentioned by p, looking inside pw/exp atoms."""
    names = set()
    seen = set()

    def walk_key(k):
        if isinstance(k, tuple):
            if len(k) == 3 and k[0] == "var":
                names.add(k[1])
                return
            for x in k:
                walk_key(x)
        elif isinstance(k, int) and not isinstance(k, bool):
            pass

    def walk_atom(a):
        if a in seen:
            return
        seen.add(a)
        k = _ATOM_LIST[a]
        if k[0] == "v":
            walk_struct(k[1])
        elif k[0] == "pw":
            for m, _ in k[1]:
                for b, _e in m:
                    walk_atom(b)
        elif k[0] == "exp":
            for b, _e in k[1]:
                walk_atom(b)

    def walk_struct(k):
        # canonical keys embed poly keys: tuples of ((mono),(coef)) where mono = ((atom,exp),...)
        if isinstance(k, tuple):
            if len(k) == 3 and k[0] == "var" and isinstance(k[1], str):
                names.add(k[1])
                return
            if len(k) == 2 and isinstance(k[0], int) and not isinstance(k[0], bool) and isinstance(k[1], Fraction):
                walk_atom(k[0])
                return
            for x in k:
                walk_struct(x)

    for m in p.t:
        for a, _ in m:
            walk_atom(a)
    return names
