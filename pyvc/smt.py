"""pyvc.smt -- translation of Expr nodes to z3 (and, through SMT-LIB, to cvc5).

Semantics assumed (DESIGN.md 2.11): reals/integers are mathematical (A1);
`//` and `%` are Python floor division / modulo, encoded with explicit
Euclidean witnesses; fractional powers are principal roots of non-negative
radicands; exp/sin/cos are uninterpreted with the axioms of A5 instantiated on
the terms that occur.
"""
from __future__ import annotations

import os
import subprocess
import tempfile
import time
from fractions import Fraction

import z3


def _prod(xs):
    xs = list(xs)
    return xs[0] if len(xs) == 1 else z3.Product(xs)


def _sum(xs):
    xs = list(xs)
    return xs[0] if len(xs) == 1 else z3.Sum(xs)

from . import expr as E


class Tr:
    def __init__(self):
        self.memo = {}
        self.side = []
        self.fresh = 0
        self.vars = {}
        self.ufs = {}
        self.divmod = {}
        self.exp_args = []
        self.trig_args = []

    def _fresh(self, prefix, sort):
        self.fresh += 1
        name = "%s!%d" % (prefix, self.fresh)
        return z3.Int(name) if sort == E.I else z3.Real(name)

    def var(self, n):
        v = self.vars.get(n.id)
        if v is None:
            if n.sort == E.R:
                v = z3.Real(n.val)
            elif n.sort == E.I:
                v = z3.Int(n.val)
            else:
                v = z3.Bool(n.val)
            self.vars[n.id] = v
        return v

    def num(self, n, want):
        z = self.memo[n.id]
        if want == E.R and n.sort == E.I:
            return z3.ToReal(z)
        return z

    def tr(self, root):
        for n in E.postorder([root]):
            if n.id not in self.memo:
                self.memo[n.id] = self._tr1(n)
        return self.memo[root.id]

    def _tr1(self, n):
        op = n.op
        if op == "const":
            if n.sort == E.B:
                return z3.BoolVal(bool(n.val))
            if n.sort == E.I:
                return z3.IntVal(int(n.val))
            return z3.RealVal(str(n.val))
        if op == "var":
            return self.var(n)
        if op == "toreal":
            return z3.ToReal(self.memo[n.args[0].id])
        if op == "add":
            return _sum([self.num(a, n.sort) for a in n.args])
        if op == "mul":
            return _prod([self.num(a, n.sort) for a in n.args])
        if op == "pow":
            b = n.args[0]
            e = n.val
            if e.denominator == 1:
                k = int(e)
                zb = self.num(b, n.sort if k > 0 else E.R)
                if k > 0:
                    return _prod([zb] * k)
                zb = self.num(b, E.R)
                return 1 / _prod([zb] * (-k))
            zb = self.num(b, E.R)
            key = ("root", b.id, e.denominator)
            s = self.divmod.get(key)
            if s is None:
                s = self._fresh("root", E.R)
                self.divmod[key] = s
                self.side.append(z3.Implies(zb >= 0, z3.And(s >= 0, _prod([s] * e.denominator) == zb)))
            p = abs(e.numerator)
            r = _prod([s] * p) if p > 1 else s
            return r if e > 0 else 1 / r
        if op == "exp":
            f = self.uf_decl("exp", 1)
            za = self.num(n.args[0], E.R)
            t = f(za)
            self.side.append(t > 0)
            self.side.append(t >= 1 + za)
            self.side.append(z3.Implies(za < 0, t < 1))
            self.side.append(z3.Implies(za > 0, t > 1))
            self.side.append(z3.Implies(za == 0, t == 1))
            for (zb, tb) in self.exp_args[:8]:
                self.side.append(z3.Implies(za < zb, t < tb))
                self.side.append(z3.Implies(zb < za, tb < t))
            self.exp_args.append((za, t))
            return t
        if op in ("sin", "cos"):
            za = self.num(n.args[0], E.R)
            fs, fc = self.uf_decl("sin", 1), self.uf_decl("cos", 1)
            if n.args[0].id not in self.trig_args:
                self.trig_args.append(n.args[0].id)
                self.side.append(fs(za) * fs(za) + fc(za) * fc(za) == 1)
            return fs(za) if op == "sin" else fc(za)
        if op in ("log", "tanh", "atan", "acos", "asin"):
            return self.uf_decl(op, 1)(self.num(n.args[0], E.R))
        if op == "abs":
            za = self.memo[n.args[0].id]
            return z3.If(za >= 0, za, -za)
        if op == "sign":
            za = self.memo[n.args[0].id]
            one = 1 if n.sort == E.I else z3.RealVal(1)
            return z3.If(za > 0, one, z3.If(za < 0, -one, one - one))
        if op == "floor":
            return z3.ToInt(self.num(n.args[0], E.R))
        if op in ("floordiv", "mod"):
            a, b = n.args
            key = ("dm", a.id, b.id)
            w = self.divmod.get(key)
            if w is None:
                q, r = self._fresh("q", E.I), self._fresh("r", E.I)
                za, zb = self.memo[a.id], self.memo[b.id]
                self.side.append(z3.Implies(zb != 0, za == zb * q + r))
                self.side.append(z3.Implies(zb > 0, z3.And(r >= 0, r < zb)))
                self.side.append(z3.Implies(zb < 0, z3.And(r <= 0, r > zb)))
                w = (q, r)
                # sound lemmas relating Euclidean witnesses of terms with the same divisor (keep z3 out of NIA search)
                for key2, w2 in list(self.divmod.items()):
                    if key2[0] == "dm" and key2[2] == b.id:
                        a2 = self.memo[key2[1]]
                        q2, r2 = w2
                        for (x1, qq1, rr1, x2, qq2, rr2) in ((za, q, r, a2, q2, r2), (a2, q2, r2, za, q, r)):
                            self.side.append(z3.Implies(z3.And(zb > 0, x1 <= x2), qq1 <= qq2))
                            self.side.append(z3.Implies(z3.And(zb > 0, x1 == x2 + zb), z3.And(qq1 == qq2 + 1, rr1 == rr2)))
                            self.side.append(z3.Implies(z3.And(zb > 0, x1 == x2 + 1, rr2 < zb - 1), z3.And(qq1 == qq2, rr1 == rr2 + 1)))
                            self.side.append(z3.Implies(z3.And(zb > 0, x1 == x2 + 1, rr2 == zb - 1), z3.And(qq1 == qq2 + 1, rr1 == 0)))
                self.divmod[key] = w
            return w[0] if op == "floordiv" else w[1]
        if op == "ite":
            c = self.memo[n.args[0].id]
            if n.sort == E.B:
                return z3.If(c, self.memo[n.args[1].id], self.memo[n.args[2].id])
            return z3.If(c, self.num(n.args[1], n.sort), self.num(n.args[2], n.sort))
        if op in ("lt", "le", "eq"):
            a, b = n.args
            s = E.R if (a.sort == E.R or b.sort == E.R) else E.I
            za, zb = self.num(a, s), self.num(b, s)
            return za < zb if op == "lt" else (za <= zb if op == "le" else za == zb)
        if op == "iff":
            return self.memo[n.args[0].id] == self.memo[n.args[1].id]
        if op == "not":
            return z3.Not(self.memo[n.args[0].id])
        if op == "and":
            return z3.And([self.memo[a.id] for a in n.args])
        if op == "or":
            return z3.Or([self.memo[a.id] for a in n.args])
        if op == "uf":
            zs = {E.R: z3.RealSort(), E.I: z3.IntSort(), E.B: z3.BoolSort()}
            key = (n.val, tuple(a.sort for a in n.args), n.sort)
            f = self.ufs.get(key)
            if f is None:
                if n.args:
                    f = z3.Function(str(n.val), *[zs[a.sort] for a in n.args], zs[n.sort])
                else:
                    f = z3.Const(str(n.val), zs[n.sort])
                self.ufs[key] = f
            return f(*[self.memo[a.id] for a in n.args]) if n.args else f
        raise E.Unmodelled("smt translation of " + op)

    def uf_decl(self, name, arity):
        key = ("$" + name, arity)
        f = self.ufs.get(key)
        if f is None:
            f = z3.Function(name, *([z3.RealSort()] * arity), z3.RealSort())
            self.ufs[key] = f
        return f


def _val_to_frac(v):
    if z3.is_int_value(v):
        return Fraction(v.as_long())
    if z3.is_rational_value(v):
        return Fraction(v.numerator_as_long(), v.denominator_as_long())
    if z3.is_algebraic_value(v):
        a = v.approx(30)
        return Fraction(a.numerator_as_long(), a.denominator_as_long())
    if z3.is_true(v):
        return True
    if z3.is_false(v):
        return False
    return None


def _model_dict(tr: Tr, model):
    out = {}
    for nid, zv in tr.vars.items():
        try:
            v = model.eval(zv, model_completion=True)
            out[str(zv)] = _val_to_frac(v)
        except Exception:
            out[str(zv)] = None
    return out


STATS = {"z3_calls": 0, "z3_time": 0.0, "cvc5_calls": 0, "cvc5_time": 0.0}


def check_sat(nodes, timeout_s=30.0, want_model=True, use_cvc5=True, smt2_out=None):
    """Satisfiability of the conjunction of boolean nodes.
    Returns (status, model, info) with status in {'sat','unsat','unknown'}."""
    tr = Tr()
    zs = [tr.tr(n) for n in nodes]
    s = z3.Solver()
    for c in tr.side:
        s.add(c)
    for c in zs:
        s.add(c)
    if smt2_out is not None:
        smt2_out.append(s.to_smt2())
    # z3 first with a short budget, cvc5 on its unknowns, then z3 again with the full budget
    first = min(timeout_s, 3.0) if use_cvc5 else timeout_s
    info = {}
    for attempt, budget in enumerate((first, timeout_s)):
        s.set("timeout", int(budget * 1000))
        t0 = time.time()
        r = s.check()
        dt = time.time() - t0
        STATS["z3_calls"] += 1
        STATS["z3_time"] += dt
        info = dict(info, backend="z3", time_s=round(dt, 4))
        if r == z3.unsat:
            return "unsat", None, info
        if r == z3.sat:
            return "sat", (_model_dict(tr, s.model()) if want_model else None), info
        info["z3_reason"] = s.reason_unknown()
        if attempt == 0 and use_cvc5:
            st, out = run_cvc5(s.to_smt2(), timeout_s)
            info["cvc5_raw"] = out[:200]
            if st == "unsat":
                info["backend"] = "cvc5"
                return st, None, info
            if st == "sat":
                info["cvc5_sat"] = True
                if not want_model:
                    info["backend"] = "cvc5"
                    return st, None, info
        if budget >= timeout_s:
            break
    if info.get("cvc5_sat"):
        info["backend"] = "cvc5"
        return "sat", None, info
    return "unknown", None, info


def run_cvc5(smt2_text, timeout_s=30.0):
    txt = "(set-logic ALL)\n" + smt2_text
    with tempfile.NamedTemporaryFile("w", suffix=".smt2", delete=False) as f:
        f.write(txt)
        path = f.name
    t0 = time.time()
    try:
        p = subprocess.run(
            ["/usr/bin/cvc5", "--lang=smt2", "--tlimit=%d" % int(timeout_s * 1000), path],
            capture_output=True,
            text=True,
            timeout=timeout_s + 5,
        )
        out = (p.stdout + p.stderr).strip()
    except subprocess.TimeoutExpired:
        out = "timeout"
    finally:
        os.unlink(path)
    STATS["cvc5_calls"] += 1
    STATS["cvc5_time"] += time.time() - t0
    first = out.splitlines()[0].strip() if out else ""
    if first in ("sat", "unsat"):
        return first, out
    return "unknown", out


class GroupSolver:
    """One z3 solver for many goals under the same hypotheses (push/pop); cvc5 on z3 unknowns."""

    def __init__(self, assumptions):
        self.tr = Tr()
        self.s = z3.Solver()
        self.nside = 0
        for a in assumptions:
            self.s.add(self.tr.tr(a))
        self._sync()

    def _sync(self):
        while self.nside < len(self.tr.side):
            self.s.add(self.tr.side[self.nside])
            self.nside += 1

    def check_valid(self, goal, timeout_s=30.0, smt2_out=None):
        zg = self.tr.tr(E.not_(goal))
        self._sync()
        self.s.push()
        try:
            self.s.add(zg)
            if smt2_out is not None:
                smt2_out.append(self.s.to_smt2())
            info = {}
            first = min(timeout_s, 3.0)
            for attempt, budget in enumerate((first, timeout_s)):
                self.s.set("timeout", int(budget * 1000))
                t0 = time.time()
                r = self.s.check()
                dt = time.time() - t0
                STATS["z3_calls"] += 1
                STATS["z3_time"] += dt
                info = dict(info, backend="z3", time_s=round(dt, 4))
                if r == z3.unsat:
                    return "valid", None, info
                if r == z3.sat:
                    return "refuted", _model_dict(self.tr, self.s.model()), info
                info["z3_reason"] = self.s.reason_unknown()
                if attempt == 0:
                    st, out = run_cvc5(self.s.to_smt2(), timeout_s)
                    info["cvc5_raw"] = out[:200]
                    if st == "unsat":
                        info["backend"] = "cvc5"
                        return "valid", None, info
                    if st == "sat":
                        info["cvc5_sat"] = True
                if budget >= timeout_s:
                    break
            if info.get("cvc5_sat"):
                info["backend"] = "cvc5"
                return "refuted", None, info
            return "unknown", None, info
        finally:
            self.s.pop()


def check_valid(assumptions, goal, timeout_s=30.0, smt2_out=None):
    """Is (and assumptions) => goal valid?  Returns (status, model, info):
    'valid', 'refuted' (model = counterexample), or 'unknown'."""
    st, model, info = check_sat(list(assumptions) + [E.not_(goal)], timeout_s, smt2_out=smt2_out)
    return {"unsat": "valid", "sat": "refuted", "unknown": "unknown"}[st], model, info
