"""pyvc.ghostfs -- ghost model of the I/O the MD drivers perform (assumption A3).

  * h5py: a file is a tree of groups and datasets; a dataset is an array of rows;
    `ds[i] = v` stores v in row i (i may be symbolic, the write may carry a
    guard); `flush()` makes all earlier writes durable; nothing else does.
  * text files opened with mode "a+" append; "w" truncates.
  * torch.save / os.replace: a checkpoint file's visible content changes
    atomically at os.replace.

Every effect is appended to `disk.events` in program order, which is what the
crash-point obligations of C10 quantify over.
"""
from __future__ import annotations

import re

import numpy as np

from . import expr as E
from .expr import Sym, Unmodelled


def _node(x):
    return E.node_of(x) if not isinstance(x, E.Node) else x


class GhostDataset:
    def __init__(self, disk, path, shape=None, dtype=None, data=None):
        self.disk = disk
        self.path = path
        self.shape = tuple(shape) if shape is not None else (np.shape(data) if data is not None else ())
        self.dtype = dtype
        self.data = data  # whole-value datasets (create_dataset(..., data=...))
        self.base = None  # callable r(Node) -> value : content before the recorded writes (None = never written)
        self.writes = []  # (guard Node, idx Node, value, event_no)

    def __setitem__(self, key, value):
        idx = key[0] if isinstance(key, tuple) else key
        if idx is Ellipsis:
            raise Unmodelled("whole-dataset assignment")
        self.store(idx, value, E.TRUE)

    def store(self, idx, value, guard=E.TRUE):
        g = E._tobool(_node(guard))
        if g.op == "const" and not g.val:
            return
        ev = self.disk.event("h5write", file=self.path[0], dataset=self.path[1], idx=_node(idx), guard=g, value=value)
        self.writes.append((g, _node(idx), value, ev))

    def __getitem__(self, key):
        idx = key[0] if isinstance(key, tuple) else key
        return self.read(idx)

    def read(self, r, upto_event=None):
        """Symbolic content of row r (scalar datasets -> Sym, array rows -> object ndarray)."""
        r = _node(r)
        cur = self.base(r) if self.base is not None else None
        for g, idx, val, evn in self.writes:
            if upto_event is not None and evn >= upto_event:
                break
            cond = E.and_(g, E.eq(r, idx))
            cur = _ite_val(cond, val, cur)
        if cur is None:
            # nothing was ever written to this dataset: every row holds an unspecified (filler) value
            sort = E.I if (self.dtype is not None and np.dtype(self.dtype).kind in "iu") else E.R
            row = self.shape[1:] if len(self.shape) > 1 else ()
            if row:
                out = np.empty(row, dtype=object)
                for pos in np.ndindex(*row):
                    out[pos] = Sym(E.uf("unwritten", (), sort))
                return out
            return Sym(E.uf("unwritten", (), sort))
        return cur

    def written(self, r, upto_event=None):
        """Symbolic bool: row r has been written by a recorded write (or by the base content)."""
        r = _node(r)
        acc = self.base_written(r) if getattr(self, "base_written", None) else E.FALSE
        for g, idx, val, evn in self.writes:
            if upto_event is not None and evn >= upto_event:
                break
            acc = E.or_(acc, E.and_(g, E.eq(r, idx)))
        return acc

    def __len__(self):
        return self.shape[0]


class _Unwritten:
    def __repr__(self):
        return "<unwritten row>"


UNWRITTEN = _Unwritten()


def _ite_val(cond, new, old):
    if cond.op == "const":
        return new if cond.val else old
    if old is None or old is UNWRITTEN:
        old_arr = None
    if isinstance(new, np.ndarray) or isinstance(old, np.ndarray):
        na = np.asarray(new, dtype=object)
        if old is None or old is UNWRITTEN:
            oa = np.empty(na.shape, dtype=object)
            for pos in np.ndindex(*na.shape):
                oa[pos] = Sym(E.uf("unwritten", (), E.R))
        else:
            oa = np.broadcast_to(np.asarray(old, dtype=object), na.shape)
        out = np.empty(na.shape, dtype=object)
        for pos in np.ndindex(*na.shape):
            out[pos] = Sym(E.ite(cond, _node(na[pos]), _node(oa[pos])))
        return out
    if old is None or old is UNWRITTEN:
        old = Sym(E.uf("unwritten", (), _node(new).sort if _node(new).sort != E.B else E.R))
    return Sym(E.ite(cond, _node(new), _node(old)))


class GhostGroup:
    def __init__(self, disk, file, prefix=""):
        self.disk = disk
        self.file = file
        self.prefix = prefix
        self.children = {}
        self.attrs = {}

    def _split(self, path):
        return [p for p in path.split("/") if p]

    def __contains__(self, path):
        node = self
        for p in self._split(path):
            if not isinstance(node, GhostGroup) or p not in node.children:
                return False
            node = node.children[p]
        return True

    def __getitem__(self, path):
        node = self
        for p in self._split(path):
            if not isinstance(node, GhostGroup) or p not in node.children:
                raise KeyError("ghost h5: no object '%s' in %s" % (path, self.prefix or "/"))
            node = node.children[p]
        return node

    def create_group(self, path):
        node = self
        for p in self._split(path):
            if p not in node.children:
                node.children[p] = GhostGroup(self.disk, self.file, node.prefix + "/" + p)
            node = node.children[p]
        self.disk.event("h5create_group", file=self.file.name, path=node.prefix)
        return node

    def create_dataset(self, path, shape=None, dtype=None, data=None, **kw):
        parts = self._split(path)
        node = self
        for p in parts[:-1]:
            if p not in node.children:
                node.children[p] = GhostGroup(self.disk, self.file, node.prefix + "/" + p)
            node = node.children[p]
        full = node.prefix + "/" + parts[-1]
        if parts[-1] in node.children:
            raise ValueError("ghost h5: dataset %s exists" % full)
        ds = GhostDataset(self.disk, (self.file.name, full), shape, dtype, data)
        node.children[parts[-1]] = ds
        self.disk.event("h5create_dataset", file=self.file.name, path=full, shape=ds.shape)
        return ds

    def datasets(self, out=None):
        out = {} if out is None else out
        for k, v in self.children.items():
            if isinstance(v, GhostDataset):
                out[v.path[1]] = v
            else:
                v.datasets(out)
        return out


class GhostH5File(GhostGroup):
    def __init__(self, disk, name, mode):
        super().__init__(disk, self, "")
        self.name = name
        self.mode = mode
        self.open = True

    def flush(self):
        self.disk.event("h5flush", file=self.name)

    def close(self):
        if self.open:
            self.disk.event("h5close", file=self.name)
        self.open = False


class GhostTextFile:
    def __init__(self, disk, name, mode):
        self.disk, self.name, self.mode = disk, name, mode
        self.closed = False

    def write(self, s):
        self.disk.event("textwrite", file=self.name, text=s)
        return len(s)

    def flush(self):
        self.disk.event("textflush", file=self.name)

    def close(self):
        if not self.closed:
            self.disk.event("textclose", file=self.name)
        self.closed = True


class GhostTextRW:
    """A text file with known previous content (list of lines, which may carry symbolic-integer placeholders) opened for
    reading/updating: readline / tell / seek in units of lines, truncate at the current position."""

    def __init__(self, disk, name, mode):
        self.disk, self.name, self.mode = disk, name, mode
        self.pos = 0
        self.closed = False

    def _lines(self):
        return self.disk.text_content[self.name]

    def readline(self):
        ls = self._lines()
        if self.pos >= len(ls):
            return ""
        self.pos += 1
        return ls[self.pos - 1]

    def readlines(self):
        ls = self._lines()
        out = ls[self.pos:]
        self.pos = len(ls)
        return list(out)

    def tell(self):
        return self.pos

    def seek(self, pos, whence=0):
        if whence != 0:
            raise Unmodelled("ghost text seek whence=%r" % whence)
        self.pos = pos
        return pos

    def truncate(self, size=None):
        keep = self.pos if size is None else size
        self.disk.text_content[self.name] = self._lines()[:keep]
        self.disk.event("texttruncate", file=self.name, keep=keep)
        return keep

    def write(self, s):
        raise Unmodelled("ghost text r+ write")

    def close(self):
        self.closed = True

    def __enter__(self):
        return self

    def __exit__(self, *exc):
        self.close()
        return False


class GhostDisk:
    def __init__(self):
        self.events = []
        self.h5 = {}
        self.text = {}
        self.text_content = {}  # path -> list of lines already on disk (for files that are read back)
        self.ckpt_visible = {}  # path -> object
        self.ckpt_tmp = {}
        self.exists = set()

    def event(self, kind, **kw):
        n = len(self.events)
        self.events.append(dict(kind=kind, n=n, **kw))
        return n

    # --- h5py look-alike module
    def h5py_module(disk):
        class _H5:
            Group = GhostGroup
            Dataset = GhostDataset

            @staticmethod
            def File(path, mode="r"):
                if mode in ("w",):
                    f = GhostH5File(disk, path, mode)
                    disk.h5[path] = f
                    disk.exists.add(path)
                    disk.event("h5open", file=path, mode=mode)
                    return f
                if mode in ("r+", "a", "r"):
                    if path not in disk.h5:
                        raise OSError("ghost h5: no such file " + path)
                    f = disk.h5[path]
                    f.open = True
                    f.mode = mode
                    disk.event("h5open", file=path, mode=mode)
                    return f
                raise Unmodelled("h5py mode " + mode)

        return _H5

    def open_fn(disk):
        def ghost_open(path, mode="r", *a, **k):
            if mode in ("r", "r+"):
                if path not in disk.text_content:
                    raise FileNotFoundError(path)
                disk.event("textopen", file=path, mode=mode)
                return GhostTextRW(disk, path, mode)
            if "a" in mode or "w" in mode:
                if "w" in mode:
                    disk.text_content[path] = []
                f = GhostTextFile(disk, path, mode)
                disk.text.setdefault(path, [])
                disk.text[path].append(f)
                disk.exists.add(path)
                disk.event("textopen", file=path, mode=mode)
                return f
            raise Unmodelled("ghost open mode " + mode)

        return ghost_open

    def os_module(disk):
        """`os` look-alike for the module under contract: existence of ghost files comes from the ghost disk."""
        import os as _os
        import types

        class _Path:
            def __getattr__(self, name):
                return getattr(_os.path, name)

            @staticmethod
            def exists(path):
                return path in disk.exists or path in disk.text_content or path in disk.h5 or _os.path.exists(path)

        m = types.SimpleNamespace(**{k: getattr(_os, k) for k in dir(_os) if not k.startswith("__")})
        m.path = _Path()
        return m

    def text_frames(self, path):
        """XYZ frames written to `path`: list of (event no, label text of the 'step:' field)."""
        out = []
        for ev in self.events:
            if ev["kind"] == "textwrite" and ev["file"] == path:
                for m in re.finditer(r"step:\s*(\S+)", ev["text"]):
                    out.append((ev["n"], m.group(1)))
        return out


_NODE_BY_ID = {}


def node_from_placeholder(text):
    """'<sym#123>' (Sym.__format__) or a literal integer -> Node."""
    m = re.fullmatch(r"<sym#(\d+)>", text)
    if m:
        nid = int(m.group(1))
        n = _NODE_BY_ID.get(nid)
        if n is None:
            for node in E._TABLE.values():
                _NODE_BY_ID[node.id] = node
            n = _NODE_BY_ID.get(nid)
        return n
    try:
        return E.const(int(text))
    except ValueError:
        return None
