"""pyvc.explore -- path exploration of real repository functions.

`Explorer.run(thunk)` re-executes `thunk` depth-first over decision sequences.
Every symbolic branch (`Sym.__bool__`) is explored both ways unless z3 proves
one side infeasible under the current path condition (an `unknown` keeps the
path, S4).  Obligations recorded on the way carry a snapshot of the path
condition; they are discharged later by pyvc.discharge.
"""
from __future__ import annotations

import sys
import time
import traceback

from . import expr as E
from . import smt
from .expr import Sym, Unmodelled


class PathEnd(Exception):
    """Raised by contract code to stop the current path (e.g. after a loop back edge)."""


class Infeasible(Exception):
    """The current path condition became unsatisfiable (an assume failed)."""


class BudgetExceeded(Exception):
    pass


class Obligation:
    __slots__ = ("name", "pc", "goal", "kind", "meta", "path_id")

    def __init__(self, name, pc, goal, kind="post", meta=None, path_id=0):
        self.name, self.pc, self.goal, self.kind, self.meta, self.path_id = name, tuple(pc), goal, kind, meta or {}, path_id


class PathResult:
    __slots__ = ("decisions", "pc", "value", "raised", "obligations", "ended", "path_id", "notes", "ghost")

    def __init__(self):
        self.decisions = []
        self.pc = []
        self.ghost = set()  # ids of pc literals that only constrain ghost state (not used for pruning)
        self.value = None
        self.raised = None
        self.obligations = []
        self.ended = False
        self.notes = {}


_CUR = [None]


def cur() -> "Explorer":
    if _CUR[0] is None:
        raise Unmodelled("no active exploration")
    return _CUR[0]


def active():
    return _CUR[0] is not None


class Explorer:
    def __init__(self, max_paths=4096, prune=True, prune_timeout=5.0, max_int_fork=64, name="", guide=None):
        # guide: node -> bool.  With a guide the explorer follows ONE path, the one a chosen valuation of the inputs takes (every
        # decision is still recorded in the path condition, so obligations on that path hold for all inputs that take it).
        self.guide = guide
        self.max_paths = max_paths
        self.prune = prune
        self.prune_timeout = prune_timeout
        self.max_int_fork = max_int_fork
        self.name = name
        self.paths: list[PathResult] = []
        self._prefix = []
        self._pos = 0
        self._work = []
        self._path = None
        self._sat_cache = {}
        self.stats = {"paths": 0, "prune_queries": 0, "pruned": 0, "prune_time": 0.0}

    # -- feasibility
    def _feasible(self, extra):
        if not self.prune:
            return True
        core = [n for n in self._path.pc if n.id not in self._path.ghost]
        key = (tuple(n.id for n in core), extra.id)
        r = self._sat_cache.get(key)
        if r is None:
            t0 = time.time()
            st, _, _ = smt.check_sat(core + [extra], self.prune_timeout, want_model=False, use_cvc5=False)
            self.stats["prune_queries"] += 1
            self.stats["prune_time"] += time.time() - t0
            r = st != "unsat"
            if not r:
                self.stats["pruned"] += 1
            self._sat_cache[key] = r
        return r

    # -- oracle interface used by Sym
    def decide(self, n: E.Node) -> bool:
        p = self._path
        # syntactic shortcut (deterministic in pc, hence identical on replay)
        neg = E.not_(n)
        for c in p.pc:
            if c is n:
                return True
            if c is neg:
                return False
        if self._pos < len(self._prefix):
            kind, val = self._prefix[self._pos]
            if kind not in ("b", "f"):
                raise Unmodelled("non-deterministic replay (expected a boolean decision)")
            self._pos += 1
            p.decisions.append((kind, val))
            p.pc.append(n if val else neg)
            return val
        if self.guide is not None:
            val = bool(self.guide(n))
            self._prefix = self._decisions_so_far() + [("f", val)]
            self._pos = len(self._prefix)
            p.decisions.append(("f", val))
            p.pc.append(n if val else neg)
            return val
        ft = self._feasible(n)
        ff = self._feasible(neg)
        if ft and ff:
            base = self._decisions_so_far()
            self._work.append(base + [("b", False)])
            self._prefix = base + [("b", True)]
            self._pos = len(self._prefix)
            p.decisions.append(("b", True))
            p.pc.append(n)
            return True
        if not ft and not ff:
            raise Infeasible()
        val = bool(ft)
        self._prefix = self._decisions_so_far() + [("f", val)]
        self._pos = len(self._prefix)
        p.decisions.append(("f", val))
        p.pc.append(n if val else neg)
        return val

    def concretize_int(self, n: E.Node) -> int:
        p = self._path
        if self._pos < len(self._prefix):
            kind, val = self._prefix[self._pos]
            if kind != "i":
                raise Unmodelled("non-deterministic replay (expected an integer choice)")
            self._pos += 1
            p.decisions.append(("i", val))
            p.pc.append(E.eq(n, E.const(val)))
            return val
        vals = []
        block = []
        for _ in range(self.max_int_fork + 1):
            st, model, _ = smt.check_sat(p.pc + block, self.prune_timeout, use_cvc5=False)
            if st == "unsat":
                break
            if st != "sat":
                raise Unmodelled("cannot enumerate the values of an index expression: " + E.to_str(n, 120))
            v = E.evaluate(n, _complete(model, n), mode="frac")
            v = int(v)
            vals.append(v)
            block.append(E.ne(n, E.const(v)))
        else:
            raise Unmodelled("index expression has more than %d feasible values: %s" % (self.max_int_fork, E.to_str(n, 120)))
        if not vals:
            raise Infeasible()
        vals.sort()
        base = self._decisions_so_far()
        for v in vals[1:]:
            self._work.append(base + [("i", v)])
        self._prefix = base + [("i", vals[0])]
        self._pos = len(self._prefix)
        p.decisions.append(("i", vals[0]))
        p.pc.append(E.eq(n, E.const(vals[0])))
        return vals[0]

    def _decisions_so_far(self):
        return list(self._path.decisions)

    # -- contract interface
    def assume(self, cond, ghost=False):
        """ghost=True: the assumption only constrains ghost state; it is part of every obligation's hypotheses but is
        left out of path-feasibility queries (pruning less is always sound)."""
        n = E._tobool(E.node_of(cond))
        if n.op == "const":
            if not n.val:
                raise Infeasible()
            return
        self._path.pc.append(n)
        if ghost:
            self._path.ghost.add(n.id)

    def oblige(self, name, cond, kind="post", **meta):
        n = E._tobool(E.node_of(cond))
        ob = Obligation(name, self._path.pc, n, kind, meta, 0)
        self._path.obligations.append(ob)
        return ob

    def note(self, key, value):
        self._path.notes[key] = value

    # -- driver
    def run(self, thunk, on_path=None):
        self._work = [[]]
        old_oracle = E.set_oracle(self)
        old_cur = _CUR[0]
        _CUR[0] = self
        try:
            while self._work:
                if len(self.paths) >= self.max_paths:
                    raise BudgetExceeded("more than %d paths in %s" % (self.max_paths, self.name))
                self._prefix = self._work.pop()
                self._pos = 0
                from . import symtorch as _st

                _st._fresh_counter[0] = 0  # fresh names are per path, so identical sub-terms are shared across paths
                p = PathResult()
                p.path_id = len(self.paths)
                self._path = p
                try:
                    p.value = thunk()
                except PathEnd:
                    p.ended = True
                except Infeasible:
                    continue
                except (Unmodelled, BudgetExceeded):
                    raise
                except RecursionError:
                    raise
                except Exception as exc:  # an exception raised by the code under verification is an outcome
                    p.raised = exc
                    p.notes["traceback"] = traceback.format_exc(limit=6)
                for ob in p.obligations:
                    ob.path_id = p.path_id
                self.paths.append(p)
                self.stats["paths"] += 1
                if on_path is not None:
                    on_path(p)
        finally:
            E.set_oracle(old_oracle)
            _CUR[0] = old_cur
        return self.paths

    def all_obligations(self):
        out = []
        for p in self.paths:
            out.extend(p.obligations)
        return out


def _complete(model, n):
    env = dict(model or {})
    for v in E.free_vars(n):
        if env.get(v.val) is None:
            env[v.val] = False if v.sort == E.B else 0
    return env


# convenience for contract code -------------------------------------------------


def assume(cond, ghost=False):
    cur().assume(cond, ghost)


def oblige(name, cond, kind="post", **meta):
    return cur().oblige(name, cond, kind, **meta)


def fresh_real(prefix):
    from . import symtorch

    return E.real(symtorch._fresh_name(prefix))


def fresh_int(prefix):
    from . import symtorch

    return E.integer(symtorch._fresh_name(prefix))


def fresh_bool(prefix):
    from . import symtorch

    return E.boolean(symtorch._fresh_name(prefix))
