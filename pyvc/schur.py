"""pyvc.schur -- exact Schur-Cohn-Fujiwara root location over Q[x].

For a real polynomial p(z) = sum a_i z^i of degree n the matrix
    B[i][j] = sum_{l=1..min(i,j)} ( a_{n-i+l} a_{n-j+l} - a_{i-l} a_{j-l} ),   i,j = 1..n
is positive definite iff all roots of p lie in the open unit disc.  When the
a_i are polynomials in one parameter x, every leading principal minor is a
polynomial in x; it is recovered by exact evaluation (Fraction Gaussian
elimination) at enough rational points and Lagrange interpolation, and its
positivity on an interval is decided by Sturm root counting (sympy, exact).
"""
from __future__ import annotations

from fractions import Fraction


def schur_cohn_matrix(a):
    """a[0..n] exact numbers (a[n] != 0)."""
    n = len(a) - 1
    B = [[Fraction(0)] * n for _ in range(n)]
    for i in range(1, n + 1):
        for j in range(1, n + 1):
            s = Fraction(0)
            for l in range(1, min(i, j) + 1):
                s += a[n - i + l] * a[n - j + l] - a[i - l] * a[j - l]
            B[i - 1][j - 1] = s
    return B


def leading_minors(M):
    """Exact leading principal minors of a square Fraction matrix (fraction-free not needed at these sizes)."""
    n = len(M)
    A = [row[:] for row in M]
    minors = []
    det = Fraction(1)
    for k in range(n):
        # pivot without row exchange is enough for sign-definite use; fall back to generic det if pivot is 0
        if A[k][k] == 0:
            return _minors_generic(M)
        det *= A[k][k]
        minors.append(det)
        for i in range(k + 1, n):
            if A[i][k] != 0:
                f = A[i][k] / A[k][k]
                for j in range(k, n):
                    A[i][j] -= f * A[k][j]
    return minors


def _det(M):
    n = len(M)
    A = [row[:] for row in M]
    det = Fraction(1)
    for k in range(n):
        piv = None
        for i in range(k, n):
            if A[i][k] != 0:
                piv = i
                break
        if piv is None:
            return Fraction(0)
        if piv != k:
            A[k], A[piv] = A[piv], A[k]
            det = -det
        det *= A[k][k]
        for i in range(k + 1, n):
            if A[i][k] != 0:
                f = A[i][k] / A[k][k]
                for j in range(k, n):
                    A[i][j] -= f * A[k][j]
    return det


def _minors_generic(M):
    return [_det([row[: r + 1] for row in M[: r + 1]]) for r in range(len(M))]


def interpolate(xs, ys):
    """Exact Lagrange interpolation -> coefficient list (low to high)."""
    n = len(xs)
    coeffs = [Fraction(0)] * n
    for i in range(n):
        # basis polynomial
        num = [Fraction(1)]
        den = Fraction(1)
        for j in range(n):
            if i == j:
                continue
            num = _mul_lin(num, -xs[j])
            den *= xs[i] - xs[j]
        f = ys[i] / den
        for k, c in enumerate(num):
            coeffs[k] += c * f
    while len(coeffs) > 1 and coeffs[-1] == 0:
        coeffs.pop()
    return coeffs


def _mul_lin(p, c):
    """p(x) * (x + c)"""
    out = [Fraction(0)] * (len(p) + 1)
    for k, a in enumerate(p):
        out[k + 1] += a
        out[k] += a * c
    return out


def minors_as_polynomials(coeff_fn, n, deg_per_entry=2, x0=Fraction(1, 7)):
    """coeff_fn(x) -> [a_0..a_n] exact.  Returns for r = 1..n the minor polynomial (coefficients low->high)."""
    polys = []
    npts = deg_per_entry * n + 1
    xs = [x0 + Fraction(i, 5) for i in range(npts)]
    vals = [leading_minors(schur_cohn_matrix(coeff_fn(x))) for x in xs]
    for r in range(n):
        need = deg_per_entry * (r + 1) + 1
        polys.append(interpolate(xs[:need], [vals[i][r] for i in range(need)]))
        # consistency: the remaining points must lie on the interpolant (guards against a degree under-estimate)
        for i in range(need, npts):
            if _eval(polys[-1], xs[i]) != vals[i][r]:
                raise ArithmeticError("minor %d is not a polynomial of degree <= %d" % (r + 1, need - 1))
    return polys


def _eval(c, x):
    acc = Fraction(0)
    for a in reversed(c):
        acc = acc * x + a
    return acc


def positive_on(coeffs, lo, hi, open_lo=True):
    """Is the polynomial > 0 on (lo, hi]  (or [lo, hi] when open_lo is False)?  Exact (Sturm via sympy)."""
    import sympy

    x = sympy.Symbol("x")
    c = list(coeffs)
    # factor out (x - lo)^m when lo is a root and the interval is open there
    m = 0
    if open_lo:
        while len(c) > 1 and _eval(c, lo) == 0:
            c = _deflate(c, lo)
            m += 1
    poly = sympy.Poly(sum(sympy.Rational(a.numerator, a.denominator) * x**k for k, a in enumerate(c)), x)
    if poly.is_zero:
        return False, {"reason": "zero polynomial"}
    nroots = poly.count_roots(sympy.Rational(lo.numerator, lo.denominator), sympy.Rational(hi.numerator, hi.denominator))
    mid = (lo + hi) / 2
    sign_mid = _eval(c, mid) * (mid - lo) ** m
    ok = nroots == 0 and sign_mid > 0
    return ok, {"roots_in_closed_interval_after_deflation": int(nroots), "multiplicity_at_lo": m, "value_at_mid": float(sign_mid), "degree": poly.degree()}


def _deflate(c, r):
    """c(x) / (x - r) for a root r (synthetic division)."""
    n = len(c) - 1
    out = [Fraction(0)] * n
    acc = Fraction(0)
    for k in range(n, 0, -1):
        acc = c[k] + acc * r
        out[k - 1] = acc
    return out


def all_roots_inside_for_interval(coeff_fn, n, lo, hi, deg_per_entry=2):
    """All roots of p_x in the open unit disc for every x in (lo, hi]?  Returns (bool, details)."""
    polys = minors_as_polynomials(coeff_fn, n, deg_per_entry)
    details = []
    ok_all = True
    for r, c in enumerate(polys):
        ok, info = positive_on(c, lo, hi)
        info["minor"] = r + 1
        details.append(info)
        ok_all = ok_all and ok
    return ok_all, details
