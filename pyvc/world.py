"""pyvc.world -- run the real repository code in a symbolic world.

`World` swaps, in the globals of every loaded `seqm.*` module and only for the
duration of a `with` block: the `torch` module (and names imported from it)
for pyvc.symtorch, `math` for a symbolic-aware look-alike, a few builtins whose
C implementations reject symbolic values, I/O modules for ghost versions, and
contracted callees for their contract stubs.  Nothing in /repo is edited.

`cut_loops` re-compiles one function from its own current source with the
standard assert/havoc/assume cut at the loops that have a loop contract; all
other statements are the original ones.
"""
from __future__ import annotations

import ast
import builtins
import hashlib
import inspect
import math as _math
import sys
import textwrap
import types
from fractions import Fraction

import torch as _rt

from . import expr as E
from . import symtorch
from .expr import Sym, Unmodelled

# ---------------------------------------------------------------------------
# builtin shadows


class _IntMeta(type):
    def __instancecheck__(cls, obj):
        if isinstance(obj, builtins.int):
            return True
        return isinstance(obj, Sym) and obj.n.sort == E.I

    def __subclasscheck__(cls, sub):
        return issubclass(sub, builtins.int)


class sym_int(metaclass=_IntMeta):
    """Shadow of builtins.int: passes symbolic integers through."""

    def __new__(cls, x=0, *a):
        if isinstance(x, symtorch.T):
            x = x.item()
        if isinstance(x, Sym):
            if x.n.op == "const":
                return builtins.int(x.n.val)
            if x.n.sort == E.I:
                return x
            if x.n.sort == E.B:
                return Sym(E.ite(x.n, E.ONE, E.ZERO))
            raise Unmodelled("int() truncation of a symbolic real")
        if isinstance(x, str) and "<sym#" in x:
            # a symbolic integer that went through string formatting (ghost text files) and is parsed back
            from .ghostfs import node_from_placeholder

            n = node_from_placeholder(x.strip())
            if n is None or n.sort != E.I:
                raise ValueError("invalid literal for int() with base 10: %r" % x)
            return Sym(n)
        return builtins.int(x, *a)


class _FloatMeta(type):
    def __instancecheck__(cls, obj):
        if isinstance(obj, builtins.float):
            return True
        return isinstance(obj, Sym) and obj.n.sort == E.R

    def __subclasscheck__(cls, sub):
        return issubclass(sub, builtins.float)


class sym_float(metaclass=_FloatMeta):
    def __new__(cls, x=0.0):
        if isinstance(x, symtorch.T):
            x = x.item()
        if isinstance(x, Sym):
            if x.n.op == "const" and x.n.sort != E.B:
                fl = builtins.float(x.n.val)
                return fl if E.frac_of_float(fl) == x.n.val else x
            if x.n.sort == E.I:
                return Sym(E.add(x.n, E.const(Fraction(0), E.R)))
            return x
        return builtins.float(x)


class SymRange:
    """range() with a symbolic bound: iterating it concretises (bounded fork); loop cuts read .start/.stop."""

    def __init__(self, start, stop, step=1):
        self.start, self.stop, self.step = start, stop, step

    def __iter__(self):
        import operator

        return iter(builtins.range(operator.index(self.start), operator.index(self.stop), operator.index(self.step)))

    def __len__(self):
        import operator

        return len(builtins.range(operator.index(self.start), operator.index(self.stop), operator.index(self.step)))


def sym_range(*a):
    if builtins.any(isinstance(x, Sym) and x.n.op != "const" for x in a):
        if len(a) == 1:
            return SymRange(0, a[0])
        return SymRange(*a)
    import operator

    return builtins.range(*[operator.index(x) for x in a])


def _sym_minmax(is_min):
    real_fn = builtins.min if is_min else builtins.max

    def f(*args, **kw):
        seq = list(args[0]) if len(args) == 1 else list(args)
        if "key" in kw or not builtins.any(isinstance(x, Sym) and x.n.op != "const" for x in seq):
            return real_fn(seq, **kw) if (seq or "default" in kw) else real_fn(seq)
        acc = seq[0]
        for x in seq[1:]:
            a, b = E.node_of(acc), E.node_of(x)
            acc = Sym(E.min_(a, b) if is_min else E.max_(a, b))
        return acc

    return f


sym_min = _sym_minmax(True)
sym_max = _sym_minmax(False)


def sym_isinstance(obj, cls):
    return builtins.isinstance(obj, cls)


def sym_print(*a, **k):
    return None


def sym_round(x, nd=None):
    if isinstance(x, Sym) and x.n.op != "const":
        raise Unmodelled("round() of a symbolic value")
    return builtins.round(x, nd) if nd is not None else builtins.round(x)


class SymMath:
    """math look-alike that keeps exact / symbolic values."""

    pi = _math.pi
    e = _math.e
    inf = _math.inf
    nan = _math.nan
    factorial = staticmethod(_math.factorial)
    comb = staticmethod(_math.comb)
    floor = staticmethod(lambda x: Sym(E.fn("floor", E.node_of(x))) if isinstance(x, Sym) else _math.floor(x))
    ceil = staticmethod(lambda x: _math.ceil(x))
    isclose = staticmethod(_math.isclose)
    isfinite = staticmethod(lambda x: True if isinstance(x, Sym) else _math.isfinite(x))
    isnan = staticmethod(lambda x: False if isinstance(x, Sym) else _math.isnan(x))
    isinf = staticmethod(lambda x: False if isinstance(x, Sym) else _math.isinf(x))

    @staticmethod
    def sqrt(x):
        if isinstance(x, Sym):
            return Sym(E.sqrt(x.n))
        fr = E.frac_of_float(builtins.float(x))
        v = E._frac_pow(fr, Fraction(1, 2))
        if v is not None:
            return builtins.float(v) if E.frac_of_float(builtins.float(v)) == v else Sym(E.const(v, E.R))
        return Sym(E.sqrt(E.const(fr, E.R)))

    @staticmethod
    def exp(x):
        if isinstance(x, Sym):
            return Sym(E.fn("exp", x.n))
        if x == 0:
            return 1.0
        return Sym(E.fn("exp", E.const(E.frac_of_float(builtins.float(x)), E.R)))

    @staticmethod
    def _f(name):
        def g(x):
            if isinstance(x, Sym):
                return Sym(E.fn(name, x.n))
            return getattr(_math, name)(x)

        return staticmethod(g)

    @staticmethod
    def pow(x, y):
        return Sym(E.node_of(x)) ** y if isinstance(x, Sym) else _math.pow(x, y)

    @staticmethod
    def fabs(x):
        return abs(x)


for _n in ("sin", "cos", "log", "tanh", "atan", "acos", "asin"):
    setattr(SymMath, _n, SymMath._f(_n))

symmath = SymMath()

_BUILTIN_SHADOWS = {
    "int": sym_int,
    "float": sym_float,
    "print": sym_print,
    "round": sym_round,
    "range": sym_range,
    "min": sym_min,
    "max": sym_max,
}

# names imported `from torch import X`
_TORCH_FN_MAP = {}
for _name in dir(symtorch):
    if _name.startswith("_"):
        continue
    _real = getattr(_rt, _name, None)
    if _real is not None and callable(_real) and not isinstance(_real, type):
        _TORCH_FN_MAP[id(_real)] = getattr(symtorch, _name)


class World:
    def __init__(self, stubs=None, module_prefixes=("seqm",), extra_globals=None, silence_print=True, constants=None):
        """stubs: {"pkg.module:Qual.name": replacement}; extra_globals: {"pkg.module": {name: value}};
        constants: {name: Sym} -- module-level float constants of that name become named symbols (float-constant rule ii)"""
        self.stubs = dict(stubs or {})
        self.constants = dict(constants or {})
        self.prefixes = module_prefixes
        self.extra = extra_globals or {}
        self.silence_print = silence_print
        self._undo = []

    def _set(self, holder, name, value, is_dict):
        missing = object()
        if is_dict:
            old = holder.get(name, missing)
            holder[name] = value
            self._undo.append((holder, name, old, True, missing))
        else:
            old = holder.__dict__.get(name, missing) if hasattr(holder, "__dict__") else missing
            setattr(holder, name, value)
            self._undo.append((holder, name, old, False, missing))

    def __enter__(self):
        import math as real_math

        mods = [m for n, m in list(sys.modules.items()) if m is not None and builtins.any(n == p or n.startswith(p + ".") for p in self.prefixes)]
        for m in mods:
            d = m.__dict__
            for name, val in list(d.items()):
                if val is _rt:
                    self._set(d, name, symtorch, True)
                elif val is real_math:
                    self._set(d, name, symmath, True)
                elif id(val) in _TORCH_FN_MAP and callable(val) and getattr(val, "__module__", "") is not None and not isinstance(val, type):
                    if getattr(_rt, getattr(val, "__name__", ""), None) is val:
                        self._set(d, name, _TORCH_FN_MAP[id(val)], True)
            for name, val in self.constants.items():
                if isinstance(d.get(name), builtins.float):
                    self._set(d, name, val, True)
            for name, val in _BUILTIN_SHADOWS.items():
                if name == "print" and not self.silence_print:
                    continue
                if name not in d:
                    self._set(d, name, val, True)
            for name, val in self.extra.get(m.__name__, {}).items():
                self._set(d, name, val, True)
        for target, repl in self.stubs.items():
            modname, qual = target.split(":")
            holder = sys.modules[modname]
            parts = qual.split(".")
            for p in parts[:-1]:
                holder = getattr(holder, p)
            if isinstance(holder, types.ModuleType):
                self._set(holder.__dict__, parts[-1], repl, True)
                # the same function may have been imported by name into other seqm modules
                orig = None
                for (h, nm, old, is_dict, missing) in self._undo[::-1]:
                    if h is holder.__dict__ and nm == parts[-1]:
                        orig = old
                        break
                if orig is not None and orig is not missing:
                    for m in mods:
                        for name, val in list(m.__dict__.items()):
                            if val is orig and m.__dict__ is not holder.__dict__:
                                self._set(m.__dict__, name, repl, True)
            else:
                self._set(holder, parts[-1], repl, False)
        return self

    def __exit__(self, *exc):
        for holder, name, old, is_dict, missing in reversed(self._undo):
            if is_dict:
                if old is missing:
                    holder.pop(name, None)
                else:
                    holder[name] = old
            else:
                if old is missing:
                    try:
                        delattr(holder, name)
                    except AttributeError:
                        pass
                else:
                    setattr(holder, name, old)
        self._undo.clear()
        return False


# ---------------------------------------------------------------------------
# source identity


def resolve(target: str):
    """'pkg.module:Qual.name' -> (holder, attribute name, function object)."""
    import importlib

    modname, qual = target.split(":")
    mod = importlib.import_module(modname)
    holder = mod
    parts = qual.split(".")
    for p in parts[:-1]:
        holder = getattr(holder, p)
    raw = holder.__dict__[parts[-1]] if hasattr(holder, "__dict__") and parts[-1] in holder.__dict__ else getattr(holder, parts[-1])
    fn = raw
    if isinstance(raw, (staticmethod, classmethod)):
        fn = raw.__func__
    return holder, parts[-1], fn


def source_info(target: str):
    _, _, fn = resolve(target)
    fn = inspect.unwrap(fn)
    try:
        src = inspect.getsource(fn)
        lines, first = inspect.getsourcelines(fn)
        file = inspect.getsourcefile(fn)
    except (OSError, TypeError):
        return {"target": target, "file": None}
    return {
        "target": target,
        "file": file,
        "first_line": first,
        "last_line": first + len(lines) - 1,
        "sha256": hashlib.sha256(src.encode()).hexdigest(),
    }


# ---------------------------------------------------------------------------
# loop cut


class LoopContract:
    """Override what is needed.  `L` is the dict of the function's locals at that point."""

    #: names of locals this loop may modify in addition to those assigned in its body
    def enter(self, L, it):
        """Emit obligations 'invariant holds on entry'."""

    def havoc(self, L, it) -> dict:
        """Return new values for locals (and havoc heap state); assume the invariant."""
        return {}

    def guard(self, L, it):
        """for-loops only: is there another iteration? (symbolic bool)"""
        raise NotImplementedError

    def target(self, L, it):
        """for-loops only: value bound to the loop target."""
        raise NotImplementedError

    def back(self, L):
        """Emit obligations at the back edge (invariant preserved, variant decreased)."""

    def exit(self, L):
        """Hook on the exit path (after havoc, guard false)."""

    def brk(self, L):
        """Hook after a `break`."""


class BlockContract:
    """Statement contract: the body of an `if <test>:` statement is replaced by its contract.  `apply(L)` may modify heap
    objects reachable from the locals `L` in place (the frame of the block) and returns new values for the local names the
    block assigns; names it does not return become Poison (reading them later is a modelling error, not a proof)."""

    def apply(self, L) -> dict:
        return {}


class Poison:
    """Value of a local that the loop invariant says nothing about."""

    def __init__(self, name):
        object.__setattr__(self, "_name", name)

    def _die(self, *a, **k):
        raise Unmodelled("local '%s' is read after a loop cut but is not described by the loop invariant" % object.__getattribute__(self, "_name"))

    __getattr__ = __call__ = __add__ = __radd__ = __mul__ = __rmul__ = __sub__ = __rsub__ = __bool__ = __getitem__ = __iter__ = __truediv__ = __lt__ = __gt__ = __le__ = __ge__ = _die


class _Runtime:
    def __init__(self):
        self.contracts = {}
        self.kept = {}
        self.targets = {}
        self.from_pyvc = True

    def loop_enter(self, lid, it, L):
        c = self.contracts[lid]
        c.enter(dict(L), it)
        return it

    def loop_havoc(self, lid, it, names, L):
        c = self.contracts[lid]
        new = c.havoc(dict(L), it) or {}
        out = []
        kept = {}
        for n in names:
            if n in new:
                out.append(new[n])
            elif n in L:
                out.append(L[n])
                kept[n] = (L[n], L[n].clone() if isinstance(L[n], symtorch.T) else L[n])
            else:
                out.append(Poison(n))
        # locals the body may modify but the contract does not havoc are thereby claimed loop-invariant: checked at the back edge
        for t in self.targets.get(lid, ()):
            kept.pop(t, None)  # the loop target is rebound by the loop itself
        self.kept[lid] = kept
        return tuple(out) if len(out) != 1 else (out[0],)

    def _frame(self, lid, L):
        from .explore import oblige

        unchecked = getattr(self.contracts[lid], "frame_unchecked", ())
        for n, (obj, snap) in self.kept.get(lid, {}).items():
            if n in unchecked:
                continue
            cur = L.get(n, None)
            same = True
            if isinstance(snap, symtorch.T):
                if not isinstance(cur, symtorch.T) or cur.a.shape != snap.a.shape:
                    same = False
                else:
                    for x, y in zip(cur.a.reshape(-1), snap.a.reshape(-1)):
                        if isinstance(x, Sym) or isinstance(y, Sym):
                            if E.node_of(x) is not E.node_of(y):
                                same = False
                                break
                        elif x != y:
                            same = False
                            break
            elif isinstance(snap, (builtins.int, builtins.float, builtins.bool, str, type(None), Sym)):
                if isinstance(snap, Sym) or isinstance(cur, Sym):
                    same = isinstance(cur, Sym) and isinstance(snap, Sym) and cur.n is snap.n
                else:
                    same = cur == snap and type(cur) is type(snap)
            else:
                continue  # opaque objects (writers, dicts): outside this frame check
            if not same:
                oblige("loop-cut.frame.local-'%s'-is-changed-by-the-body-but-not-described-by-the-invariant" % n, E.FALSE)

    def loop_guard(self, lid, it, L):
        return builtins.bool(self.contracts[lid].guard(dict(L), it))

    def loop_target(self, lid, it, L):
        return self.contracts[lid].target(dict(L), it)

    def loop_back(self, lid, it, L):
        from .explore import PathEnd

        self.contracts[lid].back(dict(L))
        self._frame(lid, L)
        raise PathEnd()

    def loop_break(self, lid, it, L):
        self.contracts[lid].brk(dict(L))

    def loop_exit(self, lid, it, L):
        self.contracts[lid].exit(dict(L))

    def block_apply(self, bid, names, L):
        new = self.contracts[bid].apply(dict(L)) or {}
        out = []
        for n in names:
            if n in new:
                out.append(new[n])
            elif n in L:
                out.append(L[n])  # existing object: modified in place by the contract, or left as it is (the contract's frame)
            else:
                out.append(Poison(n))
        return tuple(out)


RUNTIME = _Runtime()


def _base_name(node):
    while isinstance(node, (ast.Subscript, ast.Attribute, ast.Starred)):
        node = node.value
    return node.id if isinstance(node, ast.Name) else None


def _stored_names(nodes):
    """Local names a statement list may change: rebinding (x = ...), in-place stores through the name (x[i] = ..., x.a = ...,
    x += ...) and calls of in-place tensor methods on it (x.zero_(), x.copy_(...))."""
    names = []

    def add(n):
        if n is not None and n not in names:
            names.append(n)

    for node in nodes:
        for sub in ast.walk(node):
            if isinstance(sub, ast.Name) and isinstance(sub.ctx, (ast.Store, ast.Del)):
                add(sub.id)
            elif isinstance(sub, (ast.Subscript, ast.Attribute)) and isinstance(sub.ctx, (ast.Store, ast.Del)):
                b = _base_name(sub)
                if b != "self":
                    add(b)
            elif isinstance(sub, ast.AugAssign):
                b = _base_name(sub.target)
                if b != "self":
                    add(b)
            elif isinstance(sub, ast.Call) and isinstance(sub.func, ast.Attribute) and sub.func.attr.endswith("_") and not sub.func.attr.startswith("_"):
                b = _base_name(sub.func.value)
                if b != "self":
                    add(b)
    return names


class _BlockCutter(ast.NodeTransformer):
    def __init__(self, blocks):
        self.blocks = blocks  # normalised test text of an `if` -> block id
        self.blocks_found = {}
        self.depth = 0

    def visit_FunctionDef(self, node):
        self.depth += 1
        if self.depth == 1:
            self.generic_visit(node)
        self.depth -= 1
        return node

    def visit_If(self, node):
        key = ast.unparse(node.test).replace(" ", "")
        if key in self.blocks:
            bid = self.blocks[key]
            self.blocks_found[key] = self.blocks_found.get(key, 0) + 1
            names = [n for n in _stored_names(node.body) if not n.startswith("__pyvc")]
            call = ast.Call(ast.Attribute(ast.Name("__pyvc__", ast.Load()), "block_apply", ast.Load()),
                            [ast.Constant(bid), ast.Constant(tuple(names)), ast.Call(ast.Name("locals", ast.Load()), [], [])], [])
            if names:
                body = [ast.Assign([ast.Tuple([ast.Name(n, ast.Store()) for n in names], ast.Store())], call)]
            else:
                body = [ast.Expr(call)]
            new = ast.If(node.test, body, [self.visit(x) for x in node.orelse])
            return ast.copy_location(new, node)
        self.generic_visit(node)
        return node


class _Cutter(ast.NodeTransformer):
    def __init__(self, fname, wanted):
        self.fname = fname
        self.wanted = wanted  # ordinal -> loop id
        self.ordinal = -1
        self.found = {}
        self.depth = 0

    def visit_FunctionDef(self, node):
        self.depth += 1
        if self.depth > 1:
            # nested defs keep their own loops un-numbered
            self.depth -= 1
            return node
        self.generic_visit(node)
        self.depth -= 1
        return node

    def _cut(self, node, is_for):
        self.ordinal += 1
        my = self.ordinal
        # number nested loops too (pre-order), but do not cut inside a cut loop body
        if my not in self.wanted:
            self.generic_visit(node)
            return node
        inner = _CountOnly()
        for b in node.body:
            inner.visit(b)
        self.ordinal += inner.count
        if node.orelse:
            raise Unmodelled("loop cut of a loop with an else clause")
        lid = self.wanted[my]
        self.found[my] = ast.unparse(node.iter if is_for else node.test)
        names = _stored_names(node.body + ([node.target] if is_for else []))
        names = [n for n in names if not n.startswith("__pyvc")]
        RUNTIME.targets[lid] = tuple(_stored_names([node.target])) if is_for else ()
        for extra in getattr(RUNTIME.contracts.get(lid), "also_modifies", ()):
            if extra not in names:
                names.append(extra)
        L = ast.Call(ast.Name("locals", ast.Load()), [], [])
        rt = lambda meth, *args: ast.Call(ast.Attribute(ast.Name("__pyvc__", ast.Load()), meth, ast.Load()), [ast.Constant(lid)] + list(args), [])
        it_name = "__pyvc_it_%d" % my
        stmts = []
        stmts.append(ast.Assign([ast.Name(it_name, ast.Store())], node.iter if is_for else ast.Constant(None)))
        stmts.append(ast.Expr(rt("loop_enter", ast.Name(it_name, ast.Load()), L)))
        if names:
            tgt = ast.Tuple([ast.Name(n, ast.Store()) for n in names], ast.Store())
            stmts.append(ast.Assign([tgt], rt("loop_havoc", ast.Name(it_name, ast.Load()), ast.Constant(tuple(names)), L)))
        else:
            stmts.append(ast.Expr(rt("loop_havoc", ast.Name(it_name, ast.Load()), ast.Constant(()), L)))
        once = ast.For(
            target=ast.Name("__pyvc_once_%d" % my, ast.Store()),
            iter=ast.Tuple([ast.Constant(0)], ast.Load()),
            body=node.body,
            orelse=[ast.Expr(rt("loop_back", ast.Name(it_name, ast.Load()), L))],
        )
        body = []
        if is_for:
            body.append(ast.Assign([node.target], rt("loop_target", ast.Name(it_name, ast.Load()), L)))
            test = rt("loop_guard", ast.Name(it_name, ast.Load()), L)
        else:
            test = node.test
        body.append(once)
        body.append(ast.Expr(rt("loop_break", ast.Name(it_name, ast.Load()), L)))
        stmts.append(ast.If(test, body, [ast.Expr(rt("loop_exit", ast.Name(it_name, ast.Load()), L))]))
        return stmts

    def visit_For(self, node):
        return self._cut(node, True)

    def visit_While(self, node):
        return self._cut(node, False)


class _CountOnly(ast.NodeVisitor):
    def __init__(self):
        self.count = 0

    def visit_For(self, node):
        self.count += 1
        self.generic_visit(node)

    def visit_While(self, node):
        self.count += 1
        self.generic_visit(node)

    def visit_FunctionDef(self, node):
        return


def list_loops(target):
    """[(ordinal, 'for'|'while', source text of iterable/test, line)] in pre-order."""
    _, _, fn = resolve(target)
    src = textwrap.dedent(inspect.getsource(inspect.unwrap(fn)))
    tree = ast.parse(src)
    out = []

    class V(ast.NodeVisitor):
        depth = 0

        def visit_FunctionDef(s, node):
            s.depth += 1
            if s.depth == 1:
                s.generic_visit(node)
            s.depth -= 1

        def visit_For(s, node):
            out.append((len(out), "for", ast.unparse(node.iter), node.lineno))
            s.generic_visit(node)

        def visit_While(s, node):
            out.append((len(out), "while", ast.unparse(node.test), node.lineno))
            s.generic_visit(node)

    V().visit(tree)
    return out


class _LiteralLifter(ast.NodeTransformer):
    """float literal 1.69 -> __pyvc_lit__('1.69'): the literal is read as the exact decimal written in the source
    (float-constant rule i, applied before any double-precision arithmetic can round it)."""

    def __init__(self):
        self.count = 0

    def visit_Constant(self, node):
        if isinstance(node.value, builtins.float):
            self.count += 1
            return ast.copy_location(ast.Call(ast.Name("__pyvc_lit__", ast.Load()), [ast.Constant(repr(node.value))], []), node)
        return node

    def visit_JoinedStr(self, node):
        return node


def _lit(text):
    return Sym(E.const(Fraction(text), E.R))


class _FmtRewriter(ast.NodeTransformer):
    """'literal %d' % args  ->  __pyvc_fmt__('literal %d', args): %-formatting of symbolic values yields placeholders
    instead of reaching the C-level int()/float() conversions."""

    def visit_BinOp(self, node):
        self.generic_visit(node)
        if isinstance(node.op, ast.Mod) and isinstance(node.left, ast.Constant) and isinstance(node.left.value, str):
            return ast.copy_location(ast.Call(ast.Name("__pyvc_fmt__", ast.Load()), [node.left, node.right], []), node)
        return node


def _fmt(template, args):
    if not isinstance(args, tuple):
        args = (args,)
    safe = []
    symbolic = False
    for a in args:
        if isinstance(a, symtorch.T) and a.a.size == 1:
            a = a.item()
        if isinstance(a, Sym):
            if a.n.op == "const":
                a = builtins.int(a.n.val) if a.n.sort == E.I else builtins.float(a.n.val)
            else:
                symbolic = True
                a = "<sym#%d>" % a.n.id
        safe.append(a)
    if not symbolic:
        return template % tuple(safe)
    import re as _re

    out = _re.sub(r"%[-+ #0]*\d*(?:\.\d+)?[diouxXeEfFgGs]", "%s", template)
    return out % tuple(safe)


def cut_loops(target: str, loops: dict):
    return recompile(target, loops=loops)


def recompile(target: str, loops: dict = None, lift_literals=False, blocks: dict = None):
    """Recompile `target` from its current source with loop contracts and/or exact float literals.
    loops: {ordinal: (expected iterable/test text, LoopContract)}.
    blocks: {text of an `if` test: BlockContract}: the body of that statement is replaced by the contract (every occurrence;
    the anchor must occur exactly once unless the contract sets `many = True`).
    Returns the new function object (globals = the defining module's real dict, so World swaps apply)."""
    loops = loops or {}
    holder, name, fn = resolve(target)
    fn = inspect.unwrap(fn)
    src = textwrap.dedent(inspect.getsource(fn))
    tree = ast.parse(src)
    fdef = tree.body[0]
    fdef.decorator_list = []
    wanted = {}
    for ordn, (text, contract) in loops.items():
        lid = "%s#%d" % (target, ordn)
        RUNTIME.contracts[lid] = contract
        wanted[ordn] = lid
    bwanted = {}
    for text, contract in (blocks or {}).items():
        bid = "%s#if[%s]" % (target, text)
        RUNTIME.contracts[bid] = contract
        bwanted[text.replace(" ", "")] = bid
    if bwanted:
        bc = _BlockCutter(bwanted)
        tree = bc.visit(tree)
    cutter = _Cutter(fdef.name, wanted)
    new = cutter.visit(tree)
    for text, contract in (blocks or {}).items():
        nfound = bc.blocks_found.get(text.replace(" ", ""), 0)
        if nfound == 0 or (nfound > 1 and not getattr(contract, "many", False)):
            raise Unmodelled("contract anchor %s: `if %s:` occurs %d times in %s" % ("not found" if nfound == 0 else "ambiguous", text, nfound, target))
    for ordn, (text, contract) in loops.items():
        if ordn not in cutter.found:
            raise Unmodelled("contract anchor not found: loop %d of %s" % (ordn, target))
        if text is not None and cutter.found[ordn].replace(" ", "") != text.replace(" ", ""):
            raise Unmodelled("contract anchor moved: loop %d of %s is now over '%s' (contract expects '%s')" % (ordn, target, cutter.found[ordn], text))
    if lift_literals:
        new = _LiteralLifter().visit(new)
    new = _FmtRewriter().visit(new)
    # wrap in a factory so that zero-argument super() keeps working
    factory = ast.parse("def __pyvc_factory__(__class__):\n    pass\n    return %s\n" % fdef.name)
    factory.body[0].body[0] = new.body[0]
    ast.fix_missing_locations(factory)
    code = compile(factory, "<pyvc-recompiled:%s>" % target, "exec")
    g = fn.__globals__
    ns = {}
    exec(code, g, ns)
    cls = holder if isinstance(holder, type) else None
    newfn = ns["__pyvc_factory__"](cls)
    if lift_literals and fn.__defaults__:
        newfn.__defaults__ = fn.__defaults__
    else:
        newfn.__defaults__ = fn.__defaults__
    newfn.__kwdefaults__ = fn.__kwdefaults__
    g.setdefault("__pyvc__", RUNTIME)
    g.setdefault("__pyvc_lit__", _lit)
    g.setdefault("__pyvc_fmt__", _fmt)
    return newfn
