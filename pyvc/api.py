"""pyvc.api -- what contract modules use: a per-task context that records the
functions under contract, generates obligations from explorations of the real
code, discharges them (normal form -> z3 -> cvc5) and keeps everything needed
for the evidence file."""
from __future__ import annotations

import json
import os
import random
import time
import traceback
from fractions import Fraction

from . import expr as E
from . import poly as P
from . import smt
from . import symtorch as st
from . import world as W
from .explore import Explorer, Obligation, PathEnd, Infeasible, assume, oblige, cur, active, fresh_real, fresh_int, fresh_bool
from .expr import Sym, Unmodelled, S, real, integer, boolean

QUICK_TIMEOUT = 30.0
THOROUGH_TIMEOUT = 300.0


class ObResult(dict):
    pass


class Ctx:
    def __init__(self, prop, task, tier="quick", seed=0):
        self.prop, self.task, self.tier, self.seed = prop, task, tier, seed
        self.results: list[dict] = []
        self.functions: list[dict] = []
        self.assumptions: list[str] = []
        self.not_decided: list[str] = []
        self.bounded: list[dict] = []
        self.crosschecks = 0
        self.samples: list = []
        self.notes: list[str] = []
        self.rng = random.Random(seed * 7919 + hash(task) % 1000)
        self.timeout = QUICK_TIMEOUT if tier == "quick" else THOROUGH_TIMEOUT
        self.covers = 0
        self._cache = {}
        self._groups = {}
        self._refuted_clauses = {}
        self.hubs = None  # set of symbol names treated as hubs by pc slicing (None = no slicing)

    # ---- bookkeeping
    def under_contract(self, target, loops_cut=(), stubs=(), note=None):
        info = W.source_info(target)
        info["loops_cut"] = list(loops_cut)
        info["callees_stubbed"] = list(stubs)
        if note:
            info["note"] = note
        self.functions.append(info)
        return W.resolve(target)[2]

    def assume_note(self, text):
        if text not in self.assumptions:
            self.assumptions.append(text)

    def undecided_clause(self, text):
        if text not in self.not_decided:
            self.not_decided.append(text)

    def oid(self, name):
        return "%s.%s.%s" % (self.prop, self.task, name)

    def _record(self, name, status, backend, t, detail=None, model=None, replay=None, witness_class=None, shape=None, smt2=None):
        r = {
            "id": self.oid(name),
            "status": status,
            "backend": backend,
            "time_s": round(t, 4),
        }
        if detail:
            r["detail"] = detail if len(detail) < 2000 else detail[:2000] + "…"
        if model is not None:
            r["model"] = {k: _js(v) for k, v in model.items()}
        if replay is not None:
            r["replay"] = replay
        if witness_class:
            r["witness_class"] = witness_class
        if shape:
            r["shape"] = shape
        if smt2 and len(self.samples) < 2:
            self.samples.append({"obligation": r["id"], "smt2": smt2[:1500]})
        self.results.append(r)
        return r

    # ---- proving
    def prove_eq(self, name, a, b, pc=(), replay=None, classify=None, shape=None, numeric_env=None, tol=None):
        """a == b for all values (under pc).  Normal form first, then z3/cvc5; a numeric
        counterexample search backs up refutation for radical/transcendental identities."""
        t0 = time.time()
        an, bn = E.node_of(a), E.node_of(b)
        pcn = [E._tobool(E.node_of(c)) for c in pc]
        if pcn:
            an, bn = simplify_under(pcn, an), simplify_under(pcn, bn)
        try:
            d = P.to_poly(an) - P.to_poly(bn)
            if P.is_zero(d):
                return self._record(name, "discharged", "normal-form", time.time() - t0, shape=shape)
        except Unmodelled:
            d = None
        except ZeroDivisionError:
            # a divisor vanishes identically: the terms are undefined wherever their definedness condition fails, which is everywhere
            # unless the hypotheses already exclude it (then the obligation is vacuous)
            dn = E.and_(E.defined(an), E.defined(bn))
            stt, model, _ = smt.check_sat(pcn + [dn], self.timeout)
            if stt == "unsat":
                return self._record(name, "discharged", "z3", time.time() - t0, detail="hypotheses exclude every input (a divisor vanishes identically and definedness is a hypothesis)", shape=shape)
            return self._refuted(name, model or {}, "a divisor vanishes identically: the value is undefined", "normal-form", t0, replay, classify, shape)
        goal = E.eq(an, bn)
        # numeric refutation attempt (cheap, finds most wrong identities)
        cex = self._numeric_cex(an, bn, pcn, numeric_env)
        if cex is not None:
            return self._refuted(name, cex[0], "numeric (mpmath 60 digits): lhs-rhs = %s" % cex[1], "numeric", t0, replay, classify, shape)
        smt2 = []
        status, model, info = smt.check_valid(pcn, goal, self.timeout, smt2_out=smt2)
        if status == "valid":
            return self._record(name, "discharged", info["backend"], time.time() - t0, shape=shape, smt2=smt2[0] if smt2 else None)
        if status == "refuted":
            return self._refuted(name, model or {}, "z3 model", info["backend"], t0, replay, classify, shape)
        return self._record(name, "unknown", info.get("backend", "z3"), time.time() - t0, detail="normal form residual: %s | %s" % (P.poly_str(d, 6) if d is not None else "n/a", info), shape=shape)

    def prove(self, name, goal, pc=(), replay=None, classify=None, shape=None):
        """Boolean goal valid under pc (z3, cvc5 on unknown)."""
        t0 = time.time()
        g = E._tobool(E.node_of(goal))
        if g.op == "const" and g.val:
            return self._record(name, "discharged", "constant-folding", time.time() - t0, shape=shape)
        pcn = [E._tobool(E.node_of(c)) for c in pc]
        if pcn:
            g = simplify_under(pcn, g)
            if g.op == "const" and g.val:
                return self._record(name, "discharged", "constant-folding", time.time() - t0, shape=shape)
        # equalities (and conjunctions of them) go through the normal form first
        if g.op == "eq" and g.args[0].sort != E.B:
            try:
                if P.equal(g.args[0], g.args[1]):
                    return self._record(name, "discharged", "normal-form", time.time() - t0, shape=shape)
            except Unmodelled:
                pass
        smt2 = []
        ckey = (frozenset(c.id for c in pcn), g.id)
        cached = self._cache.get(ckey)
        if cached is not None and cached[0] == "valid":
            return self._record(name, "discharged", cached[1] + "(cached)", time.time() - t0, shape=shape)
        status = None
        if self.hubs is not None and pcn:
            sl = slice_pc(pcn, g, self.hubs)
            if len(sl) < len(pcn):
                skey = (frozenset(c.id for c in sl), g.id)
                c2 = self._cache.get(skey)
                if c2 is not None and c2[0] == "valid":
                    return self._record(name, "discharged", c2[1] + "(sliced,cached)", time.time() - t0, shape=shape)
                if c2 is None:
                    gs = self._group(sl)
                    st2, _, info2 = gs.check_valid(g, min(self.timeout, 10.0))
                    self._cache[skey] = (st2, info2.get("backend", "z3"))
                    if st2 == "valid":
                        return self._record(name, "discharged", info2["backend"] + "(sliced)", time.time() - t0, shape=shape)
        if _has_real([g] + pcn):
            # nonlinear real arithmetic: a fresh (non-incremental) solver, so that z3 can use nlsat
            status, model, info = smt.check_valid(pcn, g, self.timeout, smt2_out=smt2 if len(self.samples) < 2 else None)
        else:
            gs = self._group(pcn)
            status, model, info = gs.check_valid(g, self.timeout, smt2_out=smt2 if len(self.samples) < 2 else None)
        self._cache[ckey] = (status, info.get("backend", "z3"))
        if status == "valid":
            return self._record(name, "discharged", info["backend"], time.time() - t0, shape=shape, smt2=smt2[0] if smt2 else None)
        if status == "refuted":
            return self._refuted(name, model or {}, "solver model", info["backend"], t0, replay, classify, shape)
        return self._record(name, "unknown", info.get("backend", "z3"), time.time() - t0, detail=str(info) + " goal=" + E.to_str(g, 300), shape=shape)

    def _group(self, pcn):
        gkey = tuple(c.id for c in pcn)
        gs = self._groups.get(gkey)
        if gs is None:
            if len(self._groups) > 12:
                self._groups.clear()
            gs = self._groups[gkey] = smt.GroupSolver(pcn)
        return gs

    def _refuted(self, name, model, why, backend, t0, replay, classify, shape):
        rep = None
        if replay is not None:
            try:
                import contextlib, io

                with contextlib.redirect_stdout(io.StringIO()):
                    rep = replay(model)
            except Exception:
                rep = {"reproduced": False, "error": traceback.format_exc(limit=4)}
        wc = None
        if classify is not None:
            try:
                wc = classify(model, rep)
            except Exception:
                wc = "unclassified"
        return self._record(name, "refuted", backend, time.time() - t0, detail=why, model=model, replay=rep, witness_class=wc, shape=shape)

    def _numeric_cex(self, an, bn, pcn, env0=None, tries=16):
        vars_ = sorted(E.free_vars(an, bn, *pcn), key=lambda v: v.val)
        if any(n.op == "uf" for n in E.postorder([an, bn])):
            return None
        for k in range(tries):
            env = {}
            for v in vars_:
                if v.sort == E.B:
                    env[v.val] = self.rng.random() < 0.5
                elif v.sort == E.I:
                    env[v.val] = self.rng.randint(0, 7)
                else:
                    env[v.val] = Fraction(self.rng.randint(5, 400), 97) * (1 if (env0 or {}).get("_positive") or k < tries // 2 or self.rng.random() < 0.7 else -1)
            if env0:
                env.update({k2: v2 for k2, v2 in env0.items() if not k2.startswith("_")})
            try:
                if not all(E.evaluate(c, env, "mp") for c in pcn):
                    continue
                va = E.evaluate(an, env, "mp")
                vb = E.evaluate(bn, env, "mp")
            except (ZeroDivisionError, ValueError, KeyError, Unmodelled, TypeError):
                continue
            import mpmath

            if isinstance(va, mpmath.mpc) or isinstance(vb, mpmath.mpc):
                continue
            try:
                diff = abs(va - vb)
                scale = max(abs(va), abs(vb), 1)
                if diff > scale * mpmath.mpf("1e-30"):
                    return env, str(va - vb)[:40]
            except TypeError:
                continue
        return None

    def discharge(self, obligations, prefix="", replay=None, classify=None, shape=None):
        """Discharge obligations recorded by an Explorer."""
        out = []
        seen = {}
        for ob in obligations:
            nm = prefix + ob.name
            k = seen.get(nm, 0)
            seen[nm] = k + 1
            full = nm if k == 0 else "%s@path%d" % (nm, ob.path_id)
            if any(r["id"] == self.oid(full) for r in self.results):
                full = "%s@path%d.%d" % (nm, ob.path_id, k)
            rp = ob.meta.get("replay", replay)
            cl = ob.meta.get("classify", classify)
            first = self._refuted_clauses.get(nm)
            if first is not None:
                # the clause is already refuted (with a replayed witness) on another path: not re-solved
                out.append(self._record(full, "skipped", "none", 0.0, detail="same clause already refuted as " + first))
                continue
            r = self.prove(full, ob.goal, ob.pc, replay=rp, classify=cl, shape=ob.meta.get("shape", shape))
            if r["status"] == "refuted":
                self._refuted_clauses[nm] = r["id"]
            out.append(r)
        return out

    def cover(self, name, conds):
        """Vacuity guard: the conjunction must be satisfiable."""
        t0 = time.time()
        st_, model, info = smt.check_sat([E._tobool(E.node_of(c)) for c in conds], self.timeout)
        self.covers += 1
        if st_ == "sat":
            return self._record("cover." + name, "discharged", info["backend"] + "-cover", time.time() - t0)
        if st_ == "unsat":
            return self._record("cover." + name, "error", info["backend"], time.time() - t0, detail="precondition/path condition is unsatisfiable: the contract is vacuous")
        return self._record("cover." + name, "unknown", info["backend"], time.time() - t0, detail=str(info))

    def canary(self, name, goal, pc=()):
        """A deliberately false obligation: the engine must refute it."""
        t0 = time.time()
        status, model, info = smt.check_valid([E._tobool(E.node_of(c)) for c in pc], E._tobool(E.node_of(goal)), self.timeout)
        if status == "refuted":
            return self._record("canary." + name, "discharged", info["backend"] + "-canary", time.time() - t0)
        return self._record("canary." + name, "error", info.get("backend", "z3"), time.time() - t0, detail="canary obligation was not refuted (%s): the engine would prove anything" % status)

    def canary_eq(self, name, a, b):
        t0 = time.time()
        try:
            ok = P.equal(E.node_of(a), E.node_of(b))
        except Unmodelled:
            ok = False
        if not ok:
            return self._record("canary." + name, "discharged", "normal-form-canary", time.time() - t0)
        return self._record("canary." + name, "error", "normal-form", time.time() - t0, detail="canary identity was accepted: normal form unsound")

    def fail(self, name, detail, model=None, replay=None, witness_class=None, backend="frame"):
        return self._record(name, "refuted", backend, 0.0, detail=detail, model=model, replay=replay, witness_class=witness_class)

    def ok(self, name, backend, detail=None, t=0.0, shape=None):
        return self._record(name, "discharged", backend, t, detail=detail, shape=shape)

    def error(self, name, detail):
        return self._record(name, "error", "engine", 0.0, detail=detail)

    def unknown(self, name, detail, backend="engine"):
        return self._record(name, "unknown", backend, 0.0, detail=detail)

    def explore(self, thunk, stubs=None, max_paths=4096, prune=True, name="", extra_globals=None, constants=None, guide=None):
        ex = Explorer(max_paths=max_paths, prune=prune, name=name or self.task, guide=guide)
        with W.World(stubs=stubs, extra_globals=extra_globals, constants=constants):
            ex.run(thunk)
        return ex


_SYMS = {}
_HASREAL = {}


def _has_real(nodes):
    for n in nodes:
        r = _HASREAL.get(n.id)
        if r is None:
            r = any(x.op == "var" and x.sort == E.R for x in E.postorder([n]))
            _HASREAL[n.id] = r
        if r:
            return True
    return False


def symbols_of(n):
    r = _SYMS.get(n.id)
    if r is None:
        r = frozenset((x.val if x.op == "var" else "uf:" + str(x.val)) for x in E.postorder([n]) if x.op in ("var", "uf"))
        _SYMS[n.id] = r
    return r


def slice_pc(pcn, goal, hubs):
    """Hypotheses that share a non-hub symbol with the goal, plus those that mention hub symbols only.
    Proving the goal from a subset of the hypotheses is sound; on failure the caller retries with all of them."""
    gs = symbols_of(goal) - hubs
    keep = []
    for c in pcn:
        cs = symbols_of(c) - hubs
        if not cs or (cs & gs):
            keep.append(c)
    return keep


def simplify_under(pc, node):
    """Replace sub-terms whose truth value is fixed by a path-condition literal."""
    mapping = {}
    for c in pc:
        if c.op == "not":
            mapping[c.args[0]] = E.FALSE
        elif c.op == "and":
            for x in c.args:
                if x.op == "not":
                    mapping[x.args[0]] = E.FALSE
                else:
                    mapping[x] = E.TRUE
        else:
            mapping[c] = E.TRUE
    mapping = {k: v for k, v in mapping.items() if k.op not in ("const",)}
    if not mapping:
        return node
    return E.substitute(node, mapping)


def resolve_ites(pc, node, timeout=5.0):
    """Replace every if-then-else whose condition is decided by the path condition (z3: pc => c, or pc => not c) by the branch
    taken.  Sound simplification; used where code builds a guarded value such as where(x != 0, x, 1/0)."""
    pcn = [E._tobool(E.node_of(c)) for c in pc]
    node = E.node_of(node)
    mapping = {}
    for n in E.postorder([node]):
        if n.op == "ite" and n.args[0].op != "const":
            c = n.args[0]
            if c in mapping:
                continue
            st_, _, _ = smt.check_valid(pcn, c, timeout)
            if st_ == "valid":
                mapping[c] = E.TRUE
                continue
            st_, _, _ = smt.check_valid(pcn, E.not_(c), timeout)
            if st_ == "valid":
                mapping[c] = E.FALSE
    return E.substitute(node, mapping) if mapping else node


def _js(v):
    if isinstance(v, Fraction):
        if v.denominator == 1:
            return int(v)
        return {"frac": "%d/%d" % (v.numerator, v.denominator), "float": float(v)}
    if isinstance(v, (bool, int, float, str)) or v is None:
        return v
    return str(v)


def model_float(model, key, default=0.0):
    v = (model or {}).get(key)
    if v is None:
        return default
    if isinstance(v, dict):
        return v["float"]
    return float(v)
