#!/bin/sh
# Runs every registered quick command in sequence (about 12 minutes on 16 cores) and prints one line per property.
cd "$(dirname "$0")/.."
for id in C01 C02 C03 C05 C06 C07 C08 C09 C10 C11 C12 C13 C14 C15 C17 C18 C19 C20; do
  ./check $id --tier ${1:-quick} > /tmp/pyvc.$id.log 2>&1; echo "$id exit=$? $(tail -1 /tmp/pyvc.$id.log | cut -c1-160)"
done
