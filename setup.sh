#!/bin/sh
# Build the overlay venv: /venv's packages (torch, h5py, repo editable) + z3/cvc5/sympy from the offline wheelhouse.
set -e
cd "$(dirname "$0")"
if [ ! -x .venv/bin/python ] || ! .venv/bin/python -c "import z3, torch, sympy, jsonschema" 2>/dev/null; then
  rm -rf .venv
  /venv/bin/python -m venv .venv
  PIP_NO_INDEX=1 .venv/bin/python -m pip install -q --no-index --find-links /opt/veriftools/wheels z3-solver cvc5 sympy jsonschema mpmath
  echo "import site; site.addsitedir('/venv/lib/python3.12/site-packages')" > .venv/lib/python3.12/site-packages/_repo_overlay.pth
fi
.venv/bin/python -c "import z3, torch, sympy, seqm; print('setup ok', z3.get_version_string(), torch.__version__)"
