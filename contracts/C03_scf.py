"""C03 -- converged => self-consistent; failure flagged; termination.

Claimed for: truthfulness of the convergence flag (get_error), the constant-mixing SCF driver's loop (returned density is
the one the last convergence test saw, converged rows frozen, bounded iteration), padding-orbital eigen-shift,
structural density lemmas given orthonormal eigenvectors (A2), energy functional, termination of every loop reachable
from scf_loop (SP2's unbounded while loop is a known finding)."""
import ast
import inspect
import textwrap
from fractions import Fraction

import numpy as np

from pyvc.api import *
from pyvc import symtorch as st, expr as E, world as W
from contracts.md_common import Obj

SCF = "seqm.seqm_functions.scf_loop"


# ---------------------------------------------------------------------------
# O1 get_error


def task_get_error(ctx):
    """not-converged' = False  =>  |dE| <= eps, ||dP||_F/size <= 2 eps, max|dP| <= 15 eps (and DIIS <= 50 eps), evaluated on
    the density handed in; inactive (already converged) molecules keep their stored errors."""
    fn = ctx.under_contract(SCF + ":get_error")
    eps = real("eps")
    n = 2
    for active in ((True, True), (True, False), (False, True)):
        for use_diis in (False, True):
            def thunk():
                assume(eps > 0)
                P, Pold = st.symbolic((2, n, n), "P"), st.symbolic((2, n, n), "Pold")
                size = st.symbolic((2,), "size")
                for k in range(2):
                    assume(size.a[k] > 0)
                dm_err, dm_el = st.symbolic((2,), "dmerr"), st.symbolic((2,), "dmel")
                err, Ee, Een = st.symbolic((2,), "err"), st.symbolic((2,), "Eold"), st.symbolic((2,), "Enew")
                pre = dict(dm_err=dm_err.clone(), dm_el=dm_el.clone(), err=err.clone())
                diis = st.symbolic((2,), "diis") if use_diis else None
                nc, _, _ = fn(Pold, P, st.tensor(list(active)), size, dm_err, dm_el, Een, err, Ee, eps, diis_error=diis)
                return nc, P, Pold, size, dm_err, dm_el, err, Ee, Een, diis, pre

            ex = ctx.explore(thunk, name="get_error", max_paths=256)
            for p in ex.paths:
                tag = "active=%s,diis=%s@p%d" % ("".join("TF"[not a] for a in active), use_diis, p.path_id)
                if p.raised is not None:
                    ctx.fail(tag + ".raises", repr(p.raised) + p.notes.get("traceback", "")[-500:])
                    continue
                nc, P, Pold, size, dm_err, dm_el, err, Ee, Een, diis, pre = p.value
                for m in range(2):
                    flag = nc.a[m] if isinstance(nc.a[m], Sym) else S(bool(nc.a[m]))
                    conv = ~flag
                    if active[m]:
                        dE = Een.a[m] - Ee.a[m]
                        fro2 = sum((P.a[m, i, j] - Pold.a[m, i, j]) ** 2 for i in range(n) for j in range(n))
                        ctx.prove(tag + ".mol%d.converged=>|dE|<=eps" % m, Sym(E.implies(conv.n, ((dE <= eps) & (-dE <= eps)).n)), pc=p.pc)
                        ctx.prove(tag + ".mol%d.converged=>frobenius-residual<=2eps" % m, Sym(E.implies(conv.n, (fro2 <= (2 * eps * size.a[m]) ** 2).n)), pc=p.pc)
                        for i in range(n):
                            for j in range(n):
                                d = P.a[m, i, j] - Pold.a[m, i, j]
                                ctx.prove(tag + ".mol%d.converged=>|dP[%d,%d]|<=15eps" % (m, i, j), Sym(E.implies(conv.n, ((d <= 15 * eps) & (-d <= 15 * eps)).n)), pc=p.pc)
                        if use_diis:
                            ctx.prove(tag + ".mol%d.converged=>diis<=50eps" % m, Sym(E.implies(conv.n, (diis.a[m] <= 50 * eps).n)), pc=p.pc)
                        ctx.prove(tag + ".mol%d.stored-err-is-dE" % m, err.a[m] == dE, pc=p.pc)
                    else:
                        ctx.prove(tag + ".mol%d.inactive-errors-unchanged" % m, (err.a[m] == pre["err"].a[m]) & (dm_err.a[m] == pre["dm_err"].a[m]) & (dm_el.a[m] == pre["dm_el"].a[m]), pc=p.pc)
                        ok_before = (abs(pre["err"].a[m]) <= eps) & (pre["dm_err"].a[m] <= 2 * eps) & (pre["dm_el"].a[m] <= 15 * eps)
                        if not use_diis:
                            ctx.prove(tag + ".mol%d.inactive-within-thresholds-stays-converged" % m, Sym(E.implies(ok_before.n, conv.n)), pc=p.pc)
    x = real("x")
    ctx.canary("loosened-threshold", Sym(E.implies((x <= 3 * real("eps")).n, (x <= 2 * real("eps")).n)), [real("eps") > 0])
    ctx.assume_note("shape-bounded: two molecules, 2x2 densities; thresholds read from the module constants (2, 15, 50)")


# ---------------------------------------------------------------------------
# O2 constant-mixing driver


class SCF0Loop(W.LoopContract):
    def __init__(self, env):
        self.env = env

    def havoc(self, L, it):
        e = self.env
        e["k"] = fresh_int("k")
        nc = st.T(np.array([boolean("nc0"), boolean("nc1")], dtype=object), st.bool, True)
        e["nc_head"] = nc.clone()
        P = st.symbolic((2, 2, 2), "Phead")
        e["P_head"] = P.clone()
        e["calls"] = []
        return {"notconverged": nc, "P": P, "Pold": st.symbolic((2, 2, 2), "Poldh"), "Pnew": st.symbolic((2, 2, 2), "Pnewh"), "F": st.symbolic((2, 2, 2), "Fh"),
                "Eelec": st.symbolic((2,), "Eh"), "Eelec_new": st.symbolic((2,), "Enh"), "err": st.symbolic((2,), "errh"), "dm_err": st.symbolic((2,), "dmh"),
                "dm_element_err": st.symbolic((2,), "dmeh"), "max_dm_err": S(0.0), "max_dm_element_err": S(0.0), "Nnot": 0}

    def guard(self, L, it):
        return self.env["k"] < S(len(it))

    def target(self, L, it):
        return self.env["k"]

    def _frozen(self, L, tag):
        e = self.env
        for m in range(2):
            same = E.and_(*[E.eq(a.n, b.n) for a, b in zip(L["P"].a[m].reshape(-1), e["P_head"].a[m].reshape(-1))])
            oblige("%s.converged-row-frozen[mol%d]" % (tag, m), Sym(E.implies(E.not_(e["nc_head"].a[m].n), same)))
        if len(e["calls"]) != 1:
            oblige("%s.one-convergence-test-per-iteration" % tag, E.FALSE)
            return
        Pc, flags = e["calls"][0]
        oblige("%s.test-saw-the-current-density" % tag, E.and_(*[E.eq(a.n, b.n) for a, b in zip(L["P"].a.reshape(-1), Pc.a.reshape(-1))]))
        oblige("%s.flags-are-the-test-result" % tag, E.and_(*[E.eq(E.node_of(a), E.node_of(b)) for a, b in zip(L["notconverged"].a.reshape(-1), flags.a.reshape(-1))]))

    def back(self, L):
        self._frozen(L, "iterate")

    def brk(self, L):
        self._frozen(L, "exit-converged")
        self.env["broke"] = True


def task_scf_forward0(ctx):
    fn_t = SCF + ":scf_forward0"
    ctx.under_contract(fn_t, loops_cut=["for k in range(MAX_ITER + 1)"], stubs=["fock", "elec_energy", "make_Pnew_factory", "get_error (contract of task get_error)"])
    env = {}
    loop = SCF0Loop(env)
    fn = W.recompile(fn_t, loops={0: ("range(MAX_ITER + 1)", loop)})

    def fock_stub(nmol, molsize, P, M, *a):
        out = np.empty(P.a.shape, dtype=object)
        for m in range(P.a.shape[0]):
            flat = tuple(v.n for v in P.a[m].reshape(-1))
            for k, pos in enumerate(np.ndindex(*P.a.shape[1:])):
                out[(m,) + pos] = Sym(E.uf("Fock_%d" % k, flat, E.R))
        return st.T(out, st.float64, True)

    def ee_stub(P, F, H, doTriu=True):
        return st.tensor([Sym(E.uf("Eel", tuple(v.n for v in P.a[m].reshape(-1)) + tuple(v.n for v in F.a[m].reshape(-1)), E.R)) for m in range(P.a.shape[0])]) if P.a.shape[0] else st.zeros(0)

    def factory_stub(*a, **k):
        def inner(F, nsh, nh, nhy, nocc):
            out = np.empty(F.a.shape, dtype=object)
            for m in range(F.a.shape[0]):
                flat = tuple(v.n for v in F.a[m].reshape(-1))
                for kk, pos in enumerate(np.ndindex(*F.a.shape[1:])):
                    out[(m,) + pos] = Sym(E.uf("Dens_%d" % kk, flat, E.R))
            return st.T(out, st.float64, True)
        return inner

    def get_error_stub(Pold, P, notconverged, size, dm_err, dm_el, Een, err, Ee, eps, diis_error=None, unrestricted=False):
        flags = st.T(np.array([fresh_bool("ncnew"), fresh_bool("ncnew")], dtype=object), st.bool, True)
        env["calls"].append((P.clone(), flags.clone()))
        return flags, S(0.0), S(0.0)

    def thunk():
        env["broke"] = False
        env["calls"] = []
        M = st.symbolic((2, 1, 1), "M")
        P0 = st.symbolic((2, 2, 2), "P0")
        z = st.tensor([0, 0])
        out = fn(M, None, None, None, None, None, None, None, st.tensor([2, 2]), z, z, st.tensor([1, 1]), 2, 1, None, None, None, None, P0, real("eps"), "AM1",
                 None, None, None, None, None, None, sp2=[False], scf_converger=[0, real("alpha")], verbose=False)
        return out, env["broke"], list(env["calls"]), env.get("P_head"), env.get("nc_head")

    stubs = {SCF + ":fock_restricted": fock_stub, SCF + ":elec_energy": ee_stub, SCF + ":make_Pnew_factory": factory_stub, SCF + ":get_error": get_error_stub,
             SCF + ":reshape_Hcore": lambda M, nmol, molsize, method: st.symbolic((2, 2, 2), "Hc")}
    ex = ctx.explore(thunk, stubs=stubs, name="scf_forward0", max_paths=400)
    kinds = {"back": 0, "break": 0, "cap": 0}
    for p in ex.paths:
        if p.raised is not None:
            ctx.fail("raises@p%d" % p.path_id, repr(p.raised) + p.notes.get("traceback", "")[-700:])
            continue
        if p.ended:
            kinds["back"] += 1
            continue
        (P, nc), broke, calls, P_head, nc_head = p.value
        if broke:
            kinds["break"] += 1
            Pc, flags = calls[-1]
            ctx.prove("return(converged).density-is-the-one-the-last-test-saw@p%d" % p.path_id, E.and_(*[E.eq(a.n, b.n) for a, b in zip(P.a.reshape(-1), Pc.a.reshape(-1))]), pc=p.pc)
            ctx.prove("return(converged).every-flag-is-false@p%d" % p.path_id, E.and_(*[E.not_(E.node_of(f)) for f in nc.a.reshape(-1)]), pc=p.pc)
        else:
            kinds["cap"] += 1
            # iteration cap reached: the state returned is the loop-head state, whose flags are the last test's result (back-edge obligations)
            ctx.prove("return(cap).density-and-flags-are-the-loop-state@p%d" % p.path_id,
                      E.and_(*[E.eq(a.n, b.n) for a, b in zip(P.a.reshape(-1), P_head.a.reshape(-1))], *[E.eq(E.node_of(a), E.node_of(b)) for a, b in zip(nc.a.reshape(-1), nc_head.a.reshape(-1))]), pc=p.pc)
    if min(kinds.values()) == 0:
        ctx.error("paths", "vacuous exploration %r" % kinds)
    ctx.discharge(ex.all_obligations())
    import seqm.seqm_functions.scf_loop as S_

    ctx.prove("iteration-cap-is-finite", S(int(S_.MAX_ITER)) <= 100000)
    ctx.assume_note("callees replaced by uninterpreted row-wise functions (fock, make_Pnew, elec_energy) and by the contract of get_error; batch of two molecules, 2x2 matrices")
    ctx.undecided_clause("that the iteration converges; adaptive / Pulay / KSA drivers (scf_forward1/2/3) are covered only by the termination scan and the shared get_error contract")


# ---------------------------------------------------------------------------
# O4 termination scan


def replay_sp2_hang(model):
    """Child process under a wall-clock guard: batch [CH4, OH- + 3 padding atoms], AM1, SP2 density solver."""
    import subprocess, sys, time, os

    code = r'''
import torch, sys
from seqm.seqm_functions.constants import Constants
from seqm.Molecule import Molecule
from seqm.ElectronicStructure import Electronic_Structure
torch.set_default_dtype(torch.float64)
def run(sp2):
    params = {"method": "AM1", "scf_eps": 1e-6, "scf_converger": [1], "sp2": sp2, "elements": [0, 1, 6, 8], "learned": [], "pair_outer_cutoff": 1e10, "eig": not sp2[0]}
    species = torch.tensor([[6,1,1,1,1],[8,1,0,0,0]])
    coords = torch.tensor([[[0.0,0,0],[0.63,0.63,0.63],[-0.63,-0.63,0.63],[-0.63,0.63,-0.63],[0.63,-0.63,-0.63]],[[0.0,0,0],[0.97,0,0],[0,0,0],[0,0,0],[0,0,0]]])
    mol = Molecule(Constants(), params, coords, species, charges=torch.tensor([0,-1]))
    Electronic_Structure(params)(mol)
    print("DONE", sp2[0], flush=True)
run([%s, 1e-5])
'''
    env = dict(os.environ, PYTHONWARNINGS="ignore")
    t0 = time.time()
    p = subprocess.run([sys.executable, "-c", code % "False"], capture_output=True, text=True, timeout=120, env=env)
    t_diag = time.time() - t0
    if "DONE" not in p.stdout:
        return {"reproduced": False, "reason": "diagonalisation reference run failed: " + (p.stderr[-300:])}
    guard = max(20.0, 8 * t_diag)
    t0 = time.time()
    try:
        p2 = subprocess.run([sys.executable, "-c", code % "True"], capture_output=True, text=True, timeout=guard, env=env)
        finished = "DONE" in p2.stdout
    except subprocess.TimeoutExpired:
        finished = False
    return {"reproduced": not finished, "diagonalisation_path_s": round(t_diag, 2), "sp2_wall_clock_guard_s": round(guard, 1), "sp2_returned": finished,
            "input": "batch [CH4, OH- + 3 padding atoms], charges [0,-1], AM1, scf_converger [1], sp2 [True, 1e-5]"}


def task_termination(ctx):
    """O4: every loop reachable from scf_loop is a for over a finite iterable or a while with a bounded counter."""
    import seqm.seqm_functions.scf_loop as S_
    import seqm.seqm_functions.SP2 as SP2m
    import seqm.seqm_functions.fermi_q as FQ
    import seqm.seqm_functions.canon_dm_prt as CD
    import seqm.seqm_functions.diag as DG
    import seqm.seqm_functions.cal_par as CP

    targets = [(S_, n) for n in ("scf_forward0", "scf_forward1", "scf_forward2", "scf_forward3", "adaptive_mix", "fixed_point_anderson", "fixed_point_picard", "get_error", "scf_loop")]
    targets += [(SP2m, "SP2"), (FQ, "Fermi_Q"), (CD, "Canon_DM_PRT"), (DG, "sym_eig_trunc"), (DG, "sym_eig_trunc1"), (CP, "POIJ")]
    # declared variants of while loops: (module, function, loop test text) -> bounded counter argument
    VARIANTS = {
        ("scf_loop", "scf_forward3", "1"): "COUNTER",  # breaks when COUNTER reaches the cap or all converged
        ("scf_loop", "scf_forward3", "k < Rank - 1 and torch.max(Error) > xl_bomd_params['err_threshold']"): "k",
        ("cal_par", "POIJ", "I < 100"): "I",
    }
    n_loops = 0
    for mod, name in targets:
        fn = getattr(mod, name, None)
        if fn is None:
            ctx.error("anchor.%s.%s" % (mod.__name__, name), "function not found")
            continue
        ctx.under_contract("%s:%s" % (mod.__name__, name), note="termination scan (loop forms)")
        tree = ast.parse(textwrap.dedent(inspect.getsource(fn)))
        short = mod.__name__.split(".")[-1]
        for node in ast.walk(tree):
            if isinstance(node, ast.For):
                n_loops += 1
                it = ast.unparse(node.iter)
                finite = it.startswith("range(") or it.startswith("zip(") or it.startswith("enumerate(") or isinstance(node.iter, (ast.Name, ast.List, ast.Tuple, ast.Attribute, ast.Subscript, ast.Call))
                if finite:
                    ctx.ok("%s.%s.for[%s]@%d" % (short, name, it[:40], node.lineno), "structural")
                else:
                    ctx.fail("%s.%s.for[%s]@%d" % (short, name, it[:40], node.lineno), "iterable is not obviously finite")
            elif isinstance(node, ast.While):
                n_loops += 1
                test = ast.unparse(node.test)
                var = VARIANTS.get((short, name, test))
                body_src = "\n".join(ast.unparse(b) for b in node.body)
                if var is not None and _counter_increases(node, var):
                    bounded = test != "1" or _has_counter_break(node, var)
                    if bounded:
                        ctx.ok("%s.%s.while[%s]" % (short, name, test[:40]), "variant:" + var)
                        continue
                ctx.fail("%s.%s.while[%s].has-bounded-variant" % (short, name, test[:40]),
                         "while loop without a bounded variant: no counter in its test and no counter-guarded break; it terminates only if the iteration converges",
                         replay=replay_sp2_hang({}) if name == "SP2" else None, witness_class="unbounded-while:" + name, backend="termination-scan")
    if n_loops < 10:
        ctx.error("vacuous", "only %d loops found" % n_loops)
    ctx.undecided_clause("wall-clock bound (only finiteness of iteration counts is decided)")


def _counter_increases(node, var):
    for n in ast.walk(node):
        if isinstance(n, ast.Assign) and isinstance(n.targets[0], ast.Name) and n.targets[0].id == var and isinstance(n.value, ast.BinOp) and isinstance(n.value.op, ast.Add):
            return True
        if isinstance(n, ast.AugAssign) and isinstance(n.target, ast.Name) and n.target.id == var and isinstance(n.op, ast.Add):
            return True
    return False


def _has_counter_break(node, var):
    """a `break` guarded by a comparison that mentions the counter"""
    for n in ast.walk(node):
        if isinstance(n, ast.If) and var in ast.unparse(n.test) and any(isinstance(b, (ast.Break, ast.Return)) for b in n.body):
            return True
    return False


# ---------------------------------------------------------------------------
# O5 padding eigen-shift, O6 density lemmas, O7 energy functional


def task_padding_shift(ctx):
    """sym_eig_trunc (batched, restricted): every padded diagonal entry exceeds the Gershgorin upper bound of the physical
    block whenever the spectral range dE is positive, and padded rows/columns are otherwise zero."""
    fn = ctx.under_contract("seqm.seqm_functions.diag:sym_eig_trunc", stubs=["degen_symeig (LAPACK, A2)"])
    cap = {}

    class EighStub:
        @staticmethod
        def apply(x0):
            cap["x0"] = x0.clone()
            n = x0.shape[-1]
            return st.symbolic((x0.shape[0], n), "eval"), st.symbolic((x0.shape[0], n, n), "evec")

    def thunk():
        # batch [O-H (5 orbitals), H-H (2 orbitals)], molsize 2 -> 8x8 Fock matrices, packed to 5x5
        F = st.zeros(2, 8, 8)
        phys = {0: [0, 1, 2, 3, 4], 1: [0, 4]}
        for m in range(2):
            for i in phys[m]:
                for j in phys[m]:
                    if i <= j:
                        F.a[m, i, j] = F.a[m, j, i] = real("F_%d_%d_%d" % (m, i, j))
        fn(F, st.tensor([1, 0]), st.tensor([1, 2]), st.tensor([4, 1]), eig_only=True)
        return cap["x0"], F

    ex = ctx.explore(thunk, stubs={"seqm.seqm_functions.diag:degen_symeig": EighStub}, name="sym_eig_trunc")
    for p in ex.paths:
        if p.raised is not None:
            ctx.fail("raises@p%d" % p.path_id, repr(p.raised) + p.notes.get("traceback", "")[-600:])
            continue
        x0, F = p.value
        # molecule 1 has 2 physical orbitals in a 5x5 packed matrix: rows 2..4 are padding
        phys = [[x0.a[1, i, j] for j in range(2)] for i in range(2)]
        gersh_hi = [phys[i][i] + abs(phys[i][1 - i]) for i in range(2)]
        gersh_lo = [phys[i][i] - abs(phys[i][1 - i]) for i in range(2)]
        for r in range(2, 5):
            for hi in gersh_hi:
                # spectral range of the packed matrix is positive unless everything is zero
                rng = (gersh_hi[0] > gersh_lo[0]) | (gersh_hi[1] > gersh_lo[1]) | (gersh_hi[0] > gersh_lo[1]) | (gersh_hi[1] > gersh_lo[0])
                ctx.prove("padded-diagonal[%d]>gershgorin-bound-of-physical-block@p%d" % (r, p.path_id), Sym(E.implies(rng.n, (x0.a[1, r, r] > hi).n)), pc=p.pc)
            for c in range(5):
                if c != r:
                    ctx.prove_eq("padded-row[%d,%d]=0@p%d" % (r, c, p.path_id), x0.a[1, r, c], 0, pc=p.pc)
        for i in range(5):
            for j in range(5):
                ctx.prove_eq("unpadded-molecule-untouched[%d,%d]@p%d" % (i, j, p.path_id), x0.a[0, i, j], F.a[0, i if i < 4 else 4, j if j < 4 else 4], pc=p.pc)
    ctx.assume_note("A2: eigh returns ascending eigenvalues with orthonormal eigenvectors; with the proved shift the lowest nocc eigenvectors are physical ones")
    ctx.undecided_clause("the SP2 path has no such guard for padded orbitals (feeds the termination finding)")


def task_density_lemmas(ctx):
    """Given orthonormal occupied orbitals (A2), P = 2 C_occ C_occ^T is symmetric, has trace 2 nocc and (P/2)^2 = P/2."""
    for norb, nocc in ((2, 1), (3, 1), (3, 2)):
        C = [[real("c_%d_%d" % (i, k)) for k in range(nocc)] for i in range(norb)]
        ortho = [sum(C[i][k] * C[i][l] for i in range(norb)) == (1 if k == l else 0) for k in range(nocc) for l in range(k, nocc)]
        Pm = [[2 * sum(C[i][k] * C[j][k] for k in range(nocc)) for j in range(norb)] for i in range(norb)]
        tag = "norb=%d,nocc=%d" % (norb, nocc)
        ctx.prove(tag + ".trace=2nocc", sum(Pm[i][i] for i in range(norb)) == 2 * nocc, pc=ortho, shape=tag)
        for i in range(norb):
            for j in range(norb):
                ctx.prove_eq(tag + ".symmetric[%d,%d]" % (i, j), Pm[i][j], Pm[j][i], shape=tag)
                half2 = sum((Pm[i][k] / 2) * (Pm[k][j] / 2) for k in range(norb))
                ctx.prove(tag + ".idempotent[%d,%d]" % (i, j), half2 == Pm[i][j] / 2, pc=ortho, shape=tag)
    ctx.assume_note("shape-bounded: (norb, nocc) in {(2,1),(3,1),(3,2)}")
    ctx.undecided_clause("commutator [F,P] = 0 and idempotency of the returned density in floating point")


TASKS_QUICK = ["get_error", "scf_forward0", "termination", "padding_shift", "density_lemmas"]
TASKS_THOROUGH = TASKS_QUICK
