"""C03 -- converged => self-consistent; failure flagged; termination.

Claimed for: truthfulness of the convergence flag (get_error), the constant-mixing SCF driver's loop (returned density is
the one the last convergence test saw, converged rows frozen, bounded iteration), padding-orbital eigen-shift,
structural density lemmas given orthonormal eigenvectors (A2), energy functional, termination of every loop reachable
from scf_loop (SP2's unbounded while loop is a known finding)."""
import ast
import inspect
import textwrap
from fractions import Fraction

import numpy as np

from pyvc.api import *
from pyvc import symtorch as st, expr as E, world as W
from contracts.md_common import Obj

SCF = "seqm.seqm_functions.scf_loop"


# ---------------------------------------------------------------------------
# O1 get_error


def replay_get_error(model):
    """real get_error in float64 over a grid of requested thresholds: the energy is unchanged and every density element has
    moved by 45*eps (three times the element threshold, far above the Frobenius one); the molecule must be reported not converged."""
    import torch
    import seqm.seqm_functions.scf_loop as S_

    torch.set_default_dtype(torch.float64)
    rows = []
    for eps in (1e-4, 1e-6, 1e-8, 1e-9, 1e-10, 1e-11, 1e-12):
        n = 3
        Pold = torch.zeros(2, n, n)
        P = Pold + 45.0 * eps
        nc = torch.tensor([True, True])
        flag, *_ = S_.get_error(Pold, P, nc, torch.full((2,), float(n)), torch.zeros(2), torch.zeros(2), torch.zeros(2), torch.zeros(2), torch.zeros(2), eps)
        rows.append({"eps": eps, "max|dP|": 45.0 * eps, "element_threshold": S_.CONVERGENCE_DM_ELEMENT_FACTOR * eps, "reported_not_converged": [bool(x) for x in flag]})
    return {"reproduced": any(not all(r["reported_not_converged"]) for r in rows), "rows": rows}


def task_get_error(ctx):
    """not-converged' = False  =>  |dE| <= eps, ||dP||_F/size <= 2 eps, max|dP| <= 15 eps (and DIIS <= 50 eps), evaluated on
    the density handed in; inactive (already converged) molecules keep their stored errors."""
    fn = ctx.under_contract(SCF + ":get_error")
    eps = real("eps")
    n = 2 if ctx.tier == "quick" else 3
    for active in ((True, True), (True, False), (False, True)):
        for use_diis in (False, True):
            def thunk():
                assume(eps > 0)
                P, Pold = st.symbolic((2, n, n), "P"), st.symbolic((2, n, n), "Pold")
                size = st.symbolic((2,), "size")
                for k in range(2):
                    assume(size.a[k] > 0)
                dm_err, dm_el = st.symbolic((2,), "dmerr"), st.symbolic((2,), "dmel")
                err, Ee, Een = st.symbolic((2,), "err"), st.symbolic((2,), "Eold"), st.symbolic((2,), "Enew")
                pre = dict(dm_err=dm_err.clone(), dm_el=dm_el.clone(), err=err.clone())
                diis = st.symbolic((2,), "diis") if use_diis else None
                nc, _, _ = fn(Pold, P, st.tensor(list(active)), size, dm_err, dm_el, Een, err, Ee, eps, diis_error=diis)
                return nc, P, Pold, size, dm_err, dm_el, err, Ee, Een, diis, pre

            ex = ctx.explore(thunk, name="get_error", max_paths=256)
            for p in ex.paths:
                tag = "active=%s,diis=%s@p%d" % ("".join("TF"[not a] for a in active), use_diis, p.path_id)
                if p.raised is not None:
                    ctx.fail(tag + ".raises", repr(p.raised) + p.notes.get("traceback", "")[-500:])
                    continue
                nc, P, Pold, size, dm_err, dm_el, err, Ee, Een, diis, pre = p.value
                for m in range(2):
                    flag = nc.a[m] if isinstance(nc.a[m], Sym) else S(bool(nc.a[m]))
                    conv = ~flag
                    if active[m]:
                        dE = Een.a[m] - Ee.a[m]
                        fro2 = sum((P.a[m, i, j] - Pold.a[m, i, j]) ** 2 for i in range(n) for j in range(n))
                        ctx.prove(tag + ".mol%d.converged=>|dE|<=eps" % m, Sym(E.implies(conv.n, ((dE <= eps) & (-dE <= eps)).n)), pc=p.pc)
                        ctx.prove(tag + ".mol%d.converged=>frobenius-residual<=2eps" % m, Sym(E.implies(conv.n, (fro2 <= (2 * eps * size.a[m]) ** 2).n)), pc=p.pc, replay=replay_get_error)
                        for i in range(n):
                            for j in range(n):
                                d = P.a[m, i, j] - Pold.a[m, i, j]
                                ctx.prove(tag + ".mol%d.converged=>|dP[%d,%d]|<=15eps" % (m, i, j), Sym(E.implies(conv.n, ((d <= 15 * eps) & (-d <= 15 * eps)).n)), pc=p.pc, replay=replay_get_error)
                        if use_diis:
                            ctx.prove(tag + ".mol%d.converged=>diis<=50eps" % m, Sym(E.implies(conv.n, (diis.a[m] <= 50 * eps).n)), pc=p.pc)
                        ctx.prove(tag + ".mol%d.stored-err-is-dE" % m, err.a[m] == dE, pc=p.pc)
                    else:
                        ctx.prove(tag + ".mol%d.inactive-errors-unchanged" % m, (err.a[m] == pre["err"].a[m]) & (dm_err.a[m] == pre["dm_err"].a[m]) & (dm_el.a[m] == pre["dm_el"].a[m]), pc=p.pc)
                        ok_before = (abs(pre["err"].a[m]) <= eps) & (pre["dm_err"].a[m] <= 2 * eps) & (pre["dm_el"].a[m] <= 15 * eps)
                        if use_diis:
                            ok_before = ok_before & (diis.a[m] <= 50 * eps)
                        ctx.prove(tag + ".mol%d.inactive-within-thresholds-stays-converged" % m, Sym(E.implies(ok_before.n, conv.n)), pc=p.pc)
                        ctx.prove(tag + ".mol%d.inactive-beyond-a-threshold-is-flagged" % m, Sym(E.implies((~ok_before).n, flag.n)), pc=p.pc, replay=replay_get_error)
    x = real("x")
    ctx.canary("loosened-threshold", Sym(E.implies((x <= 3 * real("eps")).n, (x <= 2 * real("eps")).n)), [real("eps") > 0])
    ctx.assume_note("shape-bounded: two molecules, %dx%d densities; thresholds read from the module constants (2, 15, 50)" % (n, n))


# ---------------------------------------------------------------------------
# O2 SCF drivers: one loop contract for the constant-mixing, adaptive-mixing and Pulay drivers

NB = 4  # orbitals per matrix in the fixture (molsize 1)
NFOCK = 10
DIIS_STATES = [(0, -1)] + [(c, c - 1) for c in range(1, NFOCK + 1)] + [(NFOCK, j) for j in range(0, NFOCK - 1)]


def _rows_eq(a, b):
    return E.and_(*[E.eq(E.node_of(x), E.node_of(y)) for x, y in zip(np.asarray(a, dtype=object).reshape(-1), np.asarray(b, dtype=object).reshape(-1))])


def _flat(t, m):
    return tuple(E.node_of(v) for v in t.a[m].reshape(-1))


def fock_of(P):
    """callee contract of fock_restricted used here: row m of the result is a function of row m of the density."""
    out = np.empty(P.a.shape, dtype=object)
    for m in range(P.a.shape[0]):
        flat = _flat(P, m)
        for k, pos in enumerate(np.ndindex(*P.a.shape[1:])):
            out[(m,) + pos] = Sym(E.uf("Fock_%d" % k, flat, E.R))
    return st.T(out, st.float64, True)


def eel_of(P, F, H):
    return st.tensor([Sym(E.uf("Eel", _flat(P, m) + _flat(F, m) + _flat(H, m), E.R)) for m in range(P.a.shape[0])]) if P.a.shape[0] else st.zeros(0)


def dens_row(Frow_nodes, ids):
    return [Sym(E.uf("Dens_%d" % k, tuple(Frow_nodes) + tuple(E.node_of(i) for i in ids), E.R)) for k in range(NB * NB)]


def mix_row(k, Pprev, Pcur, old2):
    args = (E.node_of(k),) + tuple(E.node_of(v) for v in Pprev) + tuple(E.node_of(v) for v in Pcur) + tuple(E.node_of(v) for v in old2)
    return [Sym(E.uf("Mix_%d" % j, args, E.R)) for j in range(NB * NB)]


def _thresholds():
    import seqm.seqm_functions.scf_loop as S_

    return (E.frac_of_float(float(S_.CONVERGENCE_DM_ERROR_FACTOR)), E.frac_of_float(float(S_.CONVERGENCE_DM_ELEMENT_FACTOR)), E.frac_of_float(float(S_.CONVERGENCE_DIIS_FACTOR)))


def within(err, dm, dme, diis, m, eps):
    """the convergence predicate of get_error on the stored error arrays of molecule m (proved for the real function in task get_error)"""
    f_dm, f_el, f_di = _thresholds()
    ok = (abs(err.a[m]) <= eps) & (dm.a[m] <= eps * f_dm) & (dme.a[m] <= eps * f_el)
    if diis is not None:
        ok = ok & (diis.a[m] <= eps * f_di)
    return ok


class DriverLoop(W.LoopContract):
    """Loop head invariant Inv(state):
         I1  F = Fock(P) for every molecule
         I2  notconverged[m] => Eelec[m] = Eel(P[m], F[m], Hcore[m])
         I5  not notconverged[m] => the stored error arrays of m are within the thresholds (so get_error keeps it converged)
         I3  (Pulay) Nnot = number of not-converged molecules, reset_diis is False, (cFock, counter) in the 20 reachable DIIS states
       Back edge / break: converged rows frozen; active rows follow the driver's update rule with THEIR OWN orbital/electron
       counts; the convergence test ran once, saw the current density, the loop-head density as `Pold`, the energies of both and
       (Pulay) the commutator residual of the loop-head state; flags are its result; Inv re-established."""

    #: arrays the callee get_error overwrites in place (its frame), not visible as stores in the loop body
    also_modifies = ("err", "dm_err", "dm_element_err")

    def __init__(self, env, which):
        self.env, self.which = env, which

    # -- invariant ---------------------------------------------------------
    def _inv(self, L, tag):
        e = self.env
        P, F, nc = L["P"], L["F"], L["notconverged"]
        oblige(tag + ".Inv.F=Fock(P)", _rows_eq(F.a, fock_of(P).a))
        want = eel_of(P, F, L["Hcore"])
        for m in range(2):
            oblige(tag + ".Inv.active-molecule-energy-is-that-of-its-density[mol%d]" % m, Sym(E.implies(E.node_of(nc.a[m]), E.eq(E.node_of(L["Eelec"].a[m]), want.a[m].n))))
        for m in range(2):
            ok = within(L["err"], L["dm_err"], L["dm_element_err"], L.get("diis_error") if self.which == 2 else None, m, e["eps"])
            oblige(tag + ".Inv.converged-molecule's-stored-errors-are-within-the-thresholds[mol%d]" % m, Sym(E.implies(E.not_(E.node_of(nc.a[m])), ok.n)))
        if self.which == 2:
            cnt = sum(Sym(E.ite(E.node_of(nc.a[m]), E.const(1), E.const(0))) for m in range(2))
            oblige(tag + ".Inv.Nnot-counts-the-active-molecules", S(L["Nnot"]) == cnt)
            rd = L["reset_diis"]
            rd = rd.a.reshape(())[()] if isinstance(rd, st.T) else rd
            oblige(tag + ".Inv.reset_diis-is-False", E.not_(E.node_of(rd)) if isinstance(rd, Sym) else E.const(not rd))
            oblige(tag + ".Inv.diis-window-state-reachable", E.const((int(L["cFock"]), int(L["counter"])) in DIIS_STATES))

    def enter(self, L, it):
        self._inv(L, "entry")
        self.env["Hcore"] = L["Hcore"]

    def havoc(self, L, it):
        e = self.env
        e["k"] = fresh_int("k")
        nc = st.T(np.array([boolean("nc0"), boolean("nc1")], dtype=object), st.bool, True)
        P = st.symbolic((2, NB, NB), "Phead")
        F = fock_of(P)
        ee = eel_of(P, F, L["Hcore"])
        Eelec = st.T(np.array([Sym(E.ite(E.node_of(nc.a[m]), ee.a[m].n, E.var("Eold_%d" % m, E.R))) for m in range(2)], dtype=object), st.float64, True)
        e.update(nc_head=nc.clone(), P_head=P.clone(), F_head=F.clone(), E_head=Eelec.clone(), calls=[], dens_calls=[], exit_kind=None)
        new = {"notconverged": nc, "P": P, "Pold": st.symbolic((2, NB, NB), "Poldh"), "Pnew": st.symbolic((2, NB, NB), "Pnewh"), "F": F, "Eelec": Eelec,
               "Eelec_new": st.symbolic((2,), "Enh"), "err": st.symbolic((2,), "errh"), "dm_err": st.symbolic((2,), "dmh"), "dm_element_err": st.symbolic((2,), "dmeh"),
               "max_dm_err": S(0.0), "max_dm_element_err": S(0.0),
               "Nnot": sum(Sym(E.ite(E.node_of(nc.a[m]), E.const(1), E.const(0))) for m in range(2))}
        if self.which == 1:
            new["Pold2_diag"] = st.symbolic((2, NB), "Pold2h")
            e["old2_head"] = new["Pold2_diag"].clone()
        if self.which == 2:
            cF, cn = e["diis_state"]
            ntri = NB * (NB + 1) // 2
            new.update(cFock=cF, counter=cn, reset_diis=False, FOCK=st.symbolic((2, NFOCK, NB, NB), "FOCKh"), FPPF_packed=st.symbolic((2, NFOCK, ntri), "FPPFh"),
                       EMAT=st.symbolic((2, NFOCK + 1, NFOCK + 1), "EMATh"), diis_error=st.symbolic((2,), "diish"))
            e["diis_head"] = new["diis_error"].clone()
        for m in range(2):
            ok = within(new["err"], new["dm_err"], new["dm_element_err"], new.get("diis_error"), m, e["eps"])
            assume(Sym(E.implies(E.not_(E.node_of(nc.a[m])), ok.n)))
        return new

    def guard(self, L, it):
        return self.env["k"] < S(len(it))

    def target(self, L, it):
        return self.env["k"]

    # -- one iteration -----------------------------------------------------
    def _step(self, L, tag):
        e = self.env
        ncH, PH, FH = e["nc_head"], e["P_head"], e["F_head"]
        P = L["P"]
        ids = e["ids"]
        for m in range(2):
            oblige("%s.converged-row-frozen[mol%d]" % (tag, m), Sym(E.implies(E.not_(E.node_of(ncH.a[m])), _rows_eq(P.a[m], PH.a[m]))))
        # update rule of the active rows
        for m in range(2):
            own = [ids[q].a[m] for q in ("nsh", "nh", "nhy", "nocc")]
            if self.which == 0:
                alpha = e["alpha"]
                d = dens_row(_flat(FH, m), own)
                want = [alpha * PH.a[m].reshape(-1)[j] + (1 - alpha) * d[j] for j in range(NB * NB)]
            elif self.which == 1:
                d = dens_row(_flat(FH, m), own)
                want = mix_row(e["k"], PH.a[m].reshape(-1), d, e["old2_head"].a[m].reshape(-1))
            else:
                cF = e["diis_state"][0] + 1 if e["diis_state"][0] < NFOCK else NFOCK
                if cF < 2:
                    d = dens_row(_flat(FH, m), own)
                    half = Fraction(1, 2)
                    want = [half * PH.a[m].reshape(-1)[j] + half * d[j] for j in range(NB * NB)]
                else:
                    want = dens_row(tuple(E.node_of(v) for v in e["F_extrap"].a[m].reshape(-1)), own)
            oblige("%s.active-row-update-uses-its-own-molecule's-Fock-matrix-and-electron-count[mol%d]" % (tag, m),
                   Sym(E.implies(E.node_of(ncH.a[m]), _rows_eq(P.a[m], np.array(want, dtype=object)))))
            if self.which == 1:
                diag = [PH.a[m, j, j] for j in range(NB)]
                oblige("%s.two-steps-back-diagonal-is-the-loop-head-diagonal[mol%d]" % (tag, m), Sym(E.implies(E.node_of(ncH.a[m]), _rows_eq(L["Pold2_diag"].a[m], np.array(diag, dtype=object)))))
        if len(e["calls"]) < 1:
            oblige("%s.the-iteration-ends-with-a-convergence-test" % tag, E.FALSE)
            return
        c = e["calls"][-1]  # the test whose result the iteration keeps (an iteration may test more than once)
        oblige("%s.test-saw-the-current-density" % tag, _rows_eq(P.a, c["P"].a))
        oblige("%s.flags-are-the-test-result" % tag, _rows_eq(L["notconverged"].a, c["flags"].a))
        oblige("%s.test-was-told-which-molecules-were-active" % tag, _rows_eq(c["active"].a, ncH.a))
        Fn = fock_of(P)
        een = eel_of(P, Fn, e["Hcore"])
        for m in range(2):
            act = E.node_of(ncH.a[m])
            oblige("%s.test-compared-against-the-loop-head-density[mol%d]" % (tag, m), Sym(E.implies(act, _rows_eq(c["Pold"].a[m], PH.a[m]))))
            oblige("%s.test-new-energy-is-that-of-the-current-density[mol%d]" % (tag, m), Sym(E.implies(act, E.eq(E.node_of(c["Een"].a[m]), een.a[m].n))))
            oblige("%s.test-old-energy-is-that-of-the-loop-head-density[mol%d]" % (tag, m), Sym(E.implies(act, E.eq(E.node_of(c["Ee"].a[m]), E.node_of(e["E_head"].a[m])))))
            if self.which == 2:
                Fm, Pm = FH.a[m], PH.a[m]
                comm = [abs(sum(Fm[i, q] * Pm[q, j] - Pm[i, q] * Fm[q, j] for q in range(NB))) for i in range(NB) for j in range(i, NB)]
                got = c["diis"].a[m]
                oblige("%s.test-residual-bounds-the-commutator-[F(P),P]-of-the-loop-head-state[mol%d]" % (tag, m),
                       Sym(E.implies(act, E.and_(*[(got >= x).n for x in comm]))))
        self._inv(L, tag)

    def back(self, L):
        self._step(L, "iterate")

    def brk(self, L):
        self._step(L, "exit-converged")
        self.env["exit_kind"] = "break"


def builtins_bool(x):
    import builtins

    if isinstance(x, st.T):
        x = x.a.reshape(())[()]
    if isinstance(x, Sym):
        if x.n.op == "const":
            return builtins.bool(x.n.val)
        raise Unmodelled("symbolic reset_diis at a point where the invariant says it is False")
    return builtins.bool(x)


class DiisBlock(W.BlockContract):
    """Contract of the DIIS extrapolation statement `if cFock >= 2:` of scf_forward2: it overwrites the Fock matrices of the
    active molecules by SOME matrices (any linear combination of stored ones) and sets reset_diis to some boolean; nothing
    else that is read afterwards.  What the extrapolated matrix is does not matter for C03: the convergence test that follows
    measures the true commutator of the loop-head state and the density change."""

    def __init__(self, env):
        self.env = env

    def apply(self, L):
        F, nc = L["F"], L["notconverged"]
        fx = st.symbolic((2, NB, NB), "Fextrap")
        self.env["F_extrap"] = fx
        F[nc] = fx[nc]
        return {"reset_diis": st.T(np.array(fresh_bool("reset"), dtype=object).reshape(()), st.bool, True)}


def replay_batch_scf(converger):
    def rp(model):
        """real code: every molecule of a zero-padded heterogeneous batch must get the energy and electron count it gets alone."""
        import torch
        from seqm.seqm_functions.constants import Constants
        from seqm.Molecule import Molecule
        from seqm.ElectronicStructure import Electronic_Structure

        torch.set_default_dtype(torch.float64)
        params = {"method": "AM1", "scf_eps": 1e-8, "scf_converger": converger, "sp2": [False, 1e-5], "elements": [0, 1, 6, 8], "learned": [], "pair_outer_cutoff": 1e10, "eig": True}
        mols = {"H2": ([1, 1], [[0.0, 0, 0], [0.74, 0, 0]]), "H2O": ([8, 1, 1], [[0.0, 0, 0], [0.96, 0, 0], [-0.24, 0.93, 0]]),
                "CH4": ([6, 1, 1, 1, 1], [[0.0, 0, 0], [0.63, 0.63, 0.63], [-0.63, -0.63, 0.63], [-0.63, 0.63, -0.63], [0.63, -0.63, -0.63]])}

        def run(names):
            n = max(len(mols[k][0]) for k in names)
            sp = torch.tensor([mols[k][0] + [0] * (n - len(mols[k][0])) for k in names])
            xyz = torch.tensor([mols[k][1] + [[0.0, 0, 0]] * (n - len(mols[k][1])) for k in names])
            mol = Molecule(Constants(), params, xyz, sp)
            es = Electronic_Structure(params)
            es(mol)
            tr = mol.dm.diagonal(dim1=-2, dim2=-1).sum(-1)
            return [float(v) for v in mol.Etot], [float(v) for v in tr], [bool(v) for v in es.notconverged]

        alone = {k: run([k]) for k in mols}
        rows, bad = [], False
        for batch in (["H2", "H2O"], ["H2O", "H2"], ["H2", "CH4", "H2O"]):
            Et, tr, ncv = run(batch)
            for i, k in enumerate(batch):
                dE, dN = abs(Et[i] - alone[k][0][0]), abs(tr[i] - alone[k][1][0])
                if not ncv[i] and (dE > 1e-5 or dN > 1e-6):
                    bad = True
                    rows.append({"batch": batch, "molecule": k, "Etot_in_batch": Et[i], "Etot_alone": alone[k][0][0], "trace_P_in_batch": tr[i], "trace_P_alone": alone[k][1][0], "reported_converged": True})
        return {"reproduced": bad, "scf_converger": converger, "rows": rows[:6]}
    return rp


def _driver_task(ctx, which, diis_states=None):
    fn_t = SCF + ":scf_forward%d" % which
    loop_text = {0: "range(MAX_ITER + 1)", 1: "range(1, MAX_ITER + 1)", 2: "range(k, MAX_ITER + 1)"}[which]
    loop_ord = {0: 0, 1: 0, 2: 2}[which]
    stubs_named = ["fock_restricted", "elec_energy", "make_Pnew_factory (contract: row-wise function of the Fock matrix and the molecule's own counts; all arguments row-aligned)",
                   "get_error (contract of task get_error)", "reshape_Hcore"]
    if which == 1:
        stubs_named.append("adaptive_mix (row-wise uninterpreted function of (iteration, previous, new, two-steps-back diagonal))")
    ctx.under_contract(fn_t, loops_cut=["for k in " + loop_text] + (["statement contract: if cFock >= 2 (DIIS extrapolation)"] if which == 2 else []), stubs=stubs_named)
    env = {}
    loop = DriverLoop(env, which)
    blocks = {"cFock >= 2": DiisBlock(env)} if which == 2 else None
    fn = W.recompile(fn_t, loops={loop_ord: (loop_text, loop)}, blocks=blocks)
    ids = {"nsh": st.T(np.array([integer("nsh0"), integer("nsh1")], dtype=object), st.int64, True), "nh": st.T(np.array([integer("nh0"), integer("nh1")], dtype=object), st.int64, True),
           "nhy": st.T(np.array([integer("nhy0"), integer("nhy1")], dtype=object), st.int64, True), "nocc": st.T(np.array([integer("nocc0"), integer("nocc1")], dtype=object), st.int64, True)}
    env["ids"] = ids
    env["alpha"] = real("alpha")
    env["eps"] = real("eps")

    def fock_stub(nmol, molsize, P, M, *a):
        return fock_of(P)

    def factory_stub(*a, **k):
        def inner(F, nsh, nh, nhy, nocc):
            n = F.a.shape[0]
            oblige("make_Pnew.precondition.per-molecule-arguments-are-row-aligned", E.const(all(t.a.shape[0] == n for t in (nsh, nh, nhy, nocc))))
            out = np.empty(F.a.shape, dtype=object)
            for m in range(n):
                own = [t.a[m] if m < t.a.shape[0] else t.a[-1] for t in (nsh, nh, nhy, nocc)]
                out[m] = np.array(dens_row(_flat(F, m), own), dtype=object).reshape(NB, NB)
            return st.T(out, st.float64, True)
        return inner

    def mix_stub(scf_iteration, P_prev, P_cur, Pold2_diag, unrestricted):
        n = P_prev.a.shape[0]
        oblige("adaptive_mix.precondition.arguments-are-row-aligned", E.const(P_cur.a.shape[0] == n and Pold2_diag.a.shape[0] == n))
        out = np.empty(P_cur.a.shape, dtype=object)
        for m in range(n):
            out[m] = np.array(mix_row(scf_iteration, P_prev.a[m].reshape(-1), P_cur.a[m].reshape(-1), Pold2_diag.a[min(m, Pold2_diag.a.shape[0] - 1)].reshape(-1)), dtype=object).reshape(NB, NB)
        return st.T(out, st.float64, True), st.diagonal(P_prev, dim1=1, dim2=2)

    def get_error_stub(Pold, P, notconverged, size, dm_err, dm_el, Een, err, Ee, eps, diis_error=None, unrestricted=False):
        """contract of get_error (task get_error): the error arrays of the active molecules are overwritten, those of the others
        kept; the returned flag of EVERY molecule is `stored errors exceed a threshold`."""
        rec = dict(Pold=Pold.clone(), P=P.clone(), active=notconverged.clone(), Een=Een.clone(), Ee=Ee.clone(), diis=None if diis_error is None else diis_error.clone())
        flags = np.empty(2, dtype=object)
        for m in range(2):
            act = E.node_of(notconverged.a[m])
            err.a[m] = Sym(E.ite(act, (Een.a[m] - Ee.a[m]).n, E.node_of(err.a[m])))
            dm_err.a[m] = Sym(E.ite(act, fresh_real("dmerr").n, E.node_of(dm_err.a[m])))
            dm_el.a[m] = Sym(E.ite(act, fresh_real("dmel").n, E.node_of(dm_el.a[m])))
            # the flag is a fresh boolean DEFINED as `a stored error exceeds its threshold`; the definition is a ghost assumption
            # (part of every obligation's hypotheses, not used for path pruning, which keeps the feasibility queries propositional)
            b = fresh_bool("ncnew")
            assume(Sym(E.eq(b.n, (~within(err, dm_err, dm_el, diis_error, m, eps)).n)), ghost=True)
            flags[m] = b
        flags = st.T(flags, st.bool, True)
        rec["flags"] = flags.clone()
        env["calls"].append(rec)
        return flags, S(0.0), S(0.0)

    stubs = {SCF + ":fock_restricted": fock_stub, SCF + ":elec_energy": eel_of, SCF + ":make_Pnew_factory": factory_stub, SCF + ":get_error": get_error_stub,
             SCF + ":adaptive_mix": mix_stub, SCF + ":reshape_Hcore": lambda M, nmol, molsize, method: st.symbolic((2, NB, NB), "Hc")}

    def explore_one(tag):
        def thunk():
            env.update(exit_kind=None, calls=[])
            M = st.symbolic((2, 1, 1), "M")
            P0 = st.symbolic((2, NB, NB), "P0")
            args = (M, None, None, None, None, None, None, None, ids["nhy"], ids["nh"], ids["nsh"], ids["nocc"], 2, 1, None, None, None, None, P0, real("eps"), "AM1",
                    None, None, None, None, None, None)
            if which == 0:
                out = fn(*args, sp2=[False], scf_converger=[0, env["alpha"]], verbose=False)
            elif which == 1:
                out = fn(*args, sp2=[False], scf_converger=[1], verbose=False)
            else:
                out = fn(*args, sp2=[False], verbose=False)
            return out, env["exit_kind"], list(env["calls"]), env.get("P_head"), env.get("nc_head")

        ex = ctx.explore(thunk, stubs=stubs, name="scf_forward%d%s" % (which, tag), max_paths=600)
        kinds = {"back": 0, "break": 0, "head": 0}
        pre = tag + "." if tag else ""
        for p in ex.paths:
            if p.raised is not None:
                ctx.fail("%sraises@p%d" % (pre, p.path_id), repr(p.raised) + p.notes.get("traceback", "")[-900:])
                continue
            if p.ended:
                kinds["back"] += 1
                continue
            (P, nc), exit_kind, calls, P_head, nc_head = p.value
            if exit_kind == "break":
                kinds["break"] += 1
                ctx.prove("%sreturn(converged).density-is-the-one-the-last-test-saw@p%d" % (pre, p.path_id), _rows_eq(P.a, calls[-1]["P"].a), pc=p.pc)
                ctx.prove("%sreturn(converged).every-flag-is-false@p%d" % (pre, p.path_id), E.and_(*[E.not_(E.node_of(f)) for f in nc.a.reshape(-1)]), pc=p.pc)
            else:
                kinds["head"] += 1
                # returned from the loop head (iteration cap, or Pulay's `if Nnot == 0: return`): the state returned is the loop-head
                # state, whose density is the one the last test saw and whose flags are that test's result (back-edge obligations)
                ctx.prove("%sreturn(head).density-and-flags-are-the-loop-state@p%d" % (pre, p.path_id), E.and_(_rows_eq(P.a, P_head.a), _rows_eq(nc.a, nc_head.a)), pc=p.pc)
        ctx.discharge(ex.all_obligations(), prefix=pre, replay=replay_batch_scf([which] if which else [0, 0.3]), classify=lambda m_, r: "batch-row-misalignment" if r and r.get("reproduced") else "other")
        return kinds

    if which == 2:
        tot = {"back": 0, "break": 0, "head": 0}
        for stt in (diis_states or DIIS_STATES):
            env["diis_state"] = stt
            k = explore_one("diis(cFock=%d,counter=%d)" % stt)
            for q in tot:
                tot[q] += k[q]
        if tot["back"] == 0 or tot["head"] == 0:
            ctx.error("paths", "vacuous exploration %r" % tot)
    else:
        kinds = explore_one("")
        if min(kinds.values()) == 0:
            ctx.error("paths", "vacuous exploration %r" % kinds)
    import seqm.seqm_functions.scf_loop as S_

    ctx.prove("iteration-cap-is-finite", S(int(S_.MAX_ITER)) <= 100000)
    ctx.assume_note("callees replaced by uninterpreted row-wise functions (fock, make_Pnew, elec_energy%s) and by the contract of get_error; batch of two molecules with symbolic orbital/electron counts, %dx%d matrices" % (", adaptive_mix" if which == 1 else "", NB, NB))
    ctx.undecided_clause("that the iteration converges")


def task_scf_forward0(ctx):
    """O2: loop contract of the constant-mixing driver (see DriverLoop)."""
    _driver_task(ctx, 0)


def task_scf_forward1(ctx):
    """O2: loop contract of the adaptive-mixing driver (adaptive_mix as a row-wise uninterpreted function; two-steps-back diagonal bookkeeping)."""
    _driver_task(ctx, 1)


def _fw2(ctx, part):
    """the 20 reachable DIIS window states are split over four tasks (run in parallel by the driver)"""
    _driver_task(ctx, 2, DIIS_STATES[part::4])
    ctx.assume_note("DIIS window states of this task: %r (the four tasks scf_forward2_w0..w3 together enumerate all %d reachable (cFock, counter) states; reachability is itself an invariant clause)" % (DIIS_STATES[part::4], len(DIIS_STATES)))
    ctx.assume_note("statement contract (assumed, frame by inspection of the replaced text): the DIIS extrapolation `if cFock >= 2:` writes only F[notconverged], reset_diis and block-local temporaries")


def task_scf_forward2_w0(ctx):
    _fw2(ctx, 0)


def task_scf_forward2_w1(ctx):
    _fw2(ctx, 1)


def task_scf_forward2_w2(ctx):
    _fw2(ctx, 2)


def task_scf_forward2_w3(ctx):
    _fw2(ctx, 3)


# ---------------------------------------------------------------------------
# O4 termination scan


def replay_sp2_hang(model):
    """Child process under a wall-clock guard: batch [CH4, OH- + 3 padding atoms], AM1, SP2 density solver."""
    import subprocess, sys, time, os

    code = r'''
import torch, sys
from seqm.seqm_functions.constants import Constants
from seqm.Molecule import Molecule
from seqm.ElectronicStructure import Electronic_Structure
torch.set_default_dtype(torch.float64)
def run(sp2):
    params = {"method": "AM1", "scf_eps": 1e-6, "scf_converger": [1], "sp2": sp2, "elements": [0, 1, 6, 8], "learned": [], "pair_outer_cutoff": 1e10, "eig": not sp2[0]}
    species = torch.tensor([[6,1,1,1,1],[8,1,0,0,0]])
    coords = torch.tensor([[[0.0,0,0],[0.63,0.63,0.63],[-0.63,-0.63,0.63],[-0.63,0.63,-0.63],[0.63,-0.63,-0.63]],[[0.0,0,0],[0.97,0,0],[0,0,0],[0,0,0],[0,0,0]]])
    mol = Molecule(Constants(), params, coords, species, charges=torch.tensor([0,-1]))
    Electronic_Structure(params)(mol)
    print("DONE", sp2[0], flush=True)
run([%s, 1e-5])
'''
    env = dict(os.environ, PYTHONWARNINGS="ignore")
    t0 = time.time()
    p = subprocess.run([sys.executable, "-c", code % "False"], capture_output=True, text=True, timeout=120, env=env)
    t_diag = time.time() - t0
    if "DONE" not in p.stdout:
        return {"reproduced": False, "reason": "diagonalisation reference run failed: " + (p.stderr[-300:])}
    guard = max(20.0, 8 * t_diag)
    t0 = time.time()
    try:
        p2 = subprocess.run([sys.executable, "-c", code % "True"], capture_output=True, text=True, timeout=guard, env=env)
        finished = "DONE" in p2.stdout
    except subprocess.TimeoutExpired:
        finished = False
    return {"reproduced": not finished, "diagonalisation_path_s": round(t_diag, 2), "sp2_wall_clock_guard_s": round(guard, 1), "sp2_returned": finished,
            "input": "batch [CH4, OH- + 3 padding atoms], charges [0,-1], AM1, scf_converger [1], sp2 [True, 1e-5]"}


def task_termination(ctx):
    """O4: every loop reachable from scf_loop is a for over a finite iterable or a while with a bounded counter."""
    import seqm.seqm_functions.scf_loop as S_
    import seqm.seqm_functions.SP2 as SP2m
    import seqm.seqm_functions.fermi_q as FQ
    import seqm.seqm_functions.canon_dm_prt as CD
    import seqm.seqm_functions.diag as DG
    import seqm.seqm_functions.cal_par as CP

    targets = [(S_, n) for n in ("scf_forward0", "scf_forward1", "scf_forward2", "scf_forward3", "adaptive_mix", "fixed_point_anderson", "fixed_point_picard", "get_error", "scf_loop")]
    targets += [(SP2m, "SP2"), (FQ, "Fermi_Q"), (CD, "Canon_DM_PRT"), (DG, "sym_eig_trunc"), (DG, "sym_eig_trunc1"), (CP, "POIJ")]
    # declared variants of while loops: (module, function, loop test text) -> bounded counter argument
    VARIANTS = {
        ("scf_loop", "scf_forward3", "1"): "COUNTER",  # breaks when COUNTER reaches the cap or all converged
        ("scf_loop", "scf_forward3", "k < Rank - 1 and torch.max(Error) > xl_bomd_params['err_threshold']"): "k",
        ("cal_par", "POIJ", "I < 100"): "I",
        ("SP2", "SP2", "notconverged.any()"): "k",  # counter-guarded raise (loud failure) after SP2_MAX_ITER purification steps
    }
    n_loops = 0
    for mod, name in targets:
        fn = getattr(mod, name, None)
        if fn is None:
            ctx.error("anchor.%s.%s" % (mod.__name__, name), "function not found")
            continue
        ctx.under_contract("%s:%s" % (mod.__name__, name), note="termination scan (loop forms)")
        tree = ast.parse(textwrap.dedent(inspect.getsource(fn)))
        short = mod.__name__.split(".")[-1]
        for node in ast.walk(tree):
            if isinstance(node, ast.For):
                n_loops += 1
                it = ast.unparse(node.iter)
                finite = it.startswith("range(") or it.startswith("zip(") or it.startswith("enumerate(") or isinstance(node.iter, (ast.Name, ast.List, ast.Tuple, ast.Attribute, ast.Subscript, ast.Call))
                if finite:
                    ctx.ok("%s.%s.for[%s]@%d" % (short, name, it[:40], node.lineno), "structural")
                else:
                    ctx.fail("%s.%s.for[%s]@%d" % (short, name, it[:40], node.lineno), "iterable is not obviously finite")
            elif isinstance(node, ast.While):
                n_loops += 1
                test = ast.unparse(node.test)
                var = VARIANTS.get((short, name, test))
                if var is not None and _counter_increases(node, var):
                    # bounded if the loop test itself bounds the counter, or the body leaves the loop (break / return / raise) under a
                    # test on the counter
                    in_test = any(isinstance(n, ast.Name) and n.id == var for n in ast.walk(node.test))
                    if in_test or _has_counter_break(node, var):
                        ctx.ok("%s.%s.while[%s]" % (short, name, test[:40]), "variant:" + var)
                        continue
                ctx.fail("%s.%s.while[%s].has-bounded-variant" % (short, name, test[:40]),
                         "while loop without a bounded variant: no counter in its test and no counter-guarded break; it terminates only if the iteration converges",
                         replay=replay_sp2_hang({}) if name == "SP2" else None, witness_class="unbounded-while:" + name, backend="termination-scan")
    if n_loops < 10:
        ctx.error("vacuous", "only %d loops found" % n_loops)
    ctx.undecided_clause("wall-clock bound (only finiteness of iteration counts is decided)")


def _counter_increases(node, var):
    for n in ast.walk(node):
        if isinstance(n, ast.Assign) and isinstance(n.targets[0], ast.Name) and n.targets[0].id == var and isinstance(n.value, ast.BinOp) and isinstance(n.value.op, ast.Add):
            return True
        if isinstance(n, ast.AugAssign) and isinstance(n.target, ast.Name) and n.target.id == var and isinstance(n.op, ast.Add):
            return True
    return False


def _bounds_counter(test, var):
    """the test is `var >= bound`, `var > bound` or `var == bound` (either orientation), or a disjunction containing one"""
    if isinstance(test, ast.BoolOp) and isinstance(test.op, ast.Or):
        return any(_bounds_counter(v, var) for v in test.values)
    if isinstance(test, ast.Compare) and len(test.ops) == 1:
        l, r, op = test.left, test.comparators[0], test.ops[0]
        if isinstance(l, ast.Name) and l.id == var and isinstance(op, (ast.GtE, ast.Gt, ast.Eq)):
            return True
        if isinstance(r, ast.Name) and r.id == var and isinstance(op, (ast.LtE, ast.Lt, ast.Eq)):
            return True
    return False


def _has_counter_break(node, var):
    """a `break` / `return` / `raise` directly under `if <counter reaches a bound>:` in the loop body (not nested in another loop)"""
    for n in ast.walk(node):
        if isinstance(n, ast.If) and _bounds_counter(n.test, var) and any(isinstance(b, (ast.Break, ast.Return, ast.Raise)) for b in n.body):
            return True
    return False


# ---------------------------------------------------------------------------
# O5 padding eigen-shift, O6 density lemmas, O7 energy functional


def task_padding_shift(ctx):
    """sym_eig_trunc (batched, restricted): every padded diagonal entry exceeds the Gershgorin upper bound of the physical
    block whenever the spectral range dE is positive, and padded rows/columns are otherwise zero."""
    fn = ctx.under_contract("seqm.seqm_functions.diag:sym_eig_trunc", stubs=["degen_symeig (LAPACK, A2)"])
    cap = {}

    class EighStub:
        @staticmethod
        def apply(x0):
            cap["x0"] = x0.clone()
            n = x0.shape[-1]
            return st.symbolic((x0.shape[0], n), "eval"), st.symbolic((x0.shape[0], n, n), "evec")

    def thunk():
        # batch [O-H (5 orbitals), H-H (2 orbitals)], molsize 2 -> 8x8 Fock matrices, packed to 5x5
        F = st.zeros(2, 8, 8)
        phys = {0: [0, 1, 2, 3, 4], 1: [0, 4]}
        for m in range(2):
            for i in phys[m]:
                for j in phys[m]:
                    if i <= j:
                        F.a[m, i, j] = F.a[m, j, i] = real("F_%d_%d_%d" % (m, i, j))
        fn(F, st.tensor([1, 0]), st.tensor([1, 2]), st.tensor([4, 1]), eig_only=True)
        return cap["x0"], F

    ex = ctx.explore(thunk, stubs={"seqm.seqm_functions.diag:degen_symeig": EighStub}, name="sym_eig_trunc")
    for p in ex.paths:
        if p.raised is not None:
            ctx.fail("raises@p%d" % p.path_id, repr(p.raised) + p.notes.get("traceback", "")[-600:])
            continue
        x0, F = p.value
        # molecule 1 has 2 physical orbitals in a 5x5 packed matrix: rows 2..4 are padding
        phys = [[x0.a[1, i, j] for j in range(2)] for i in range(2)]
        gersh_hi = [phys[i][i] + abs(phys[i][1 - i]) for i in range(2)]
        gersh_lo = [phys[i][i] - abs(phys[i][1 - i]) for i in range(2)]
        for r in range(2, 5):
            for hi in gersh_hi:
                # spectral range of the packed matrix is positive unless everything is zero
                rng = (gersh_hi[0] > gersh_lo[0]) | (gersh_hi[1] > gersh_lo[1]) | (gersh_hi[0] > gersh_lo[1]) | (gersh_hi[1] > gersh_lo[0])
                ctx.prove("padded-diagonal[%d]>gershgorin-bound-of-physical-block@p%d" % (r, p.path_id), Sym(E.implies(rng.n, (x0.a[1, r, r] > hi).n)), pc=p.pc)
            for c in range(5):
                if c != r:
                    ctx.prove_eq("padded-row[%d,%d]=0@p%d" % (r, c, p.path_id), x0.a[1, r, c], 0, pc=p.pc)
        for i in range(5):
            for j in range(5):
                ctx.prove_eq("unpadded-molecule-untouched[%d,%d]@p%d" % (i, j, p.path_id), x0.a[0, i, j], F.a[0, i if i < 4 else 4, j if j < 4 else 4], pc=p.pc)
    ctx.assume_note("A2: eigh returns ascending eigenvalues with orthonormal eigenvectors; with the proved shift the lowest nocc eigenvectors are physical ones")
    ctx.undecided_clause("the SP2 path has no such guard for padded orbitals (feeds the termination finding)")


def task_sp2_padding_guard(ctx):
    """SP2 path of make_Pnew_factory: the packed Fock matrix handed to the purification has every zero-padded orbital lifted to
    hN + dE (>= every Gershgorin upper bound of the matrix, > the physical block's bounds when the spectrum has a width), padded
    rows otherwise zero and the physical block untouched -- so the scaled start matrix (hN' - a)/(hN' - h1) is exactly zero on
    the padded orbitals and stays zero under x -> x^2 and x -> 2x - x^2."""
    fn = ctx.under_contract(SCF + ":make_Pnew_factory", stubs=["SP2 (captures its argument)", "unpack"])
    cap = {}

    def sp2_stub(a, nocc, eps=None, factor=2.0):
        cap["a"] = a.clone()
        return a

    def thunk():
        # batch [O-H (5 orbitals), H-H (2 orbitals)], molsize 2 -> 8x8 Fock matrices, packed to 5x5
        F = st.zeros(2, 8, 8)
        phys = {0: [0, 1, 2, 3, 4], 1: [0, 4]}
        for m in range(2):
            for i in phys[m]:
                for j in phys[m]:
                    if i <= j:
                        F.a[m, i, j] = F.a[m, j, i] = real("F_%d_%d_%d" % (m, i, j))
        inner = fn("AM1", [True, real("sp2eps")], 2, False, [1], False)
        inner(F, st.tensor([0, 0]), st.tensor([1, 0]), st.tensor([1, 2]), st.tensor([4, 1]))
        return cap["a"], F

    ex = ctx.explore(thunk, stubs={SCF + ":SP2": sp2_stub, SCF + ":unpack": lambda D, nh, nhy, size: D}, name="sp2-core-step", max_paths=512)
    n_ok = 0
    for p in ex.paths:
        if p.raised is not None:
            ctx.fail("raises@p%d" % p.path_id, repr(p.raised) + p.notes.get("traceback", "")[-600:])
            continue
        n_ok += 1
        a, F = p.value
        phys = [[a.a[1, i, j] for j in range(2)] for i in range(2)]
        hi = [phys[i][i] + abs(phys[i][1 - i]) for i in range(2)]
        lo = [phys[i][i] - abs(phys[i][1 - i]) for i in range(2)]
        width = (hi[0] > lo[0]) | (hi[1] > lo[1]) | (hi[0] > lo[1]) | (hi[1] > lo[0])
        for r in range(2, 5):
            for h in hi:
                ctx.prove("padded-diagonal[%d]>=gershgorin-bound-of-physical-block@p%d" % (r, p.path_id), a.a[1, r, r] >= h, pc=p.pc)
                ctx.prove("padded-diagonal[%d]>bound-when-the-spectrum-has-a-width@p%d" % (r, p.path_id), Sym(E.implies(width.n, (a.a[1, r, r] > h).n)), pc=p.pc)
            for c in range(5):
                if c != r:
                    ctx.prove_eq("padded-row[%d,%d]=0@p%d" % (r, c, p.path_id), a.a[1, r, c], 0, pc=p.pc)
        for i in range(2):
            for j in range(2):
                ctx.prove_eq("physical-block-untouched[%d,%d]@p%d" % (i, j, p.path_id), a.a[1, i, j], F.a[1, 4 * i, 4 * j], pc=p.pc)
        for i in range(5):
            for j in range(5):
                ctx.prove_eq("unpadded-molecule-untouched[%d,%d]@p%d" % (i, j, p.path_id), a.a[0, i, j], F.a[0, i if i < 4 else 4, j if j < 4 else 4], pc=p.pc)
    if n_ok == 0:
        ctx.error("paths", "no path")
    ctx.assume_note("shape: batch [O-H, H-H] (the second molecule has three padded orbitals in the packed 5x5 matrix)")
    ctx.undecided_clause("that the purification converges when there is a gap (SP2 now fails loudly after SP2_MAX_ITER steps instead of looping)")


def replay_ksa_flag(model):
    """real KSA run (AM1 H2CO, scf_eps 1e-8): the molecule is reported converged; its density is then pushed once through the
    SCF map (one direct step of the constant-mixing driver with a huge threshold) and the Frobenius residual per matrix size is
    compared with the bound 2*eps that get_error enforces for the other drivers."""
    import torch
    from seqm.seqm_functions.constants import Constants
    from seqm.Molecule import Molecule
    from seqm.ElectronicStructure import Electronic_Structure

    torch.set_default_dtype(torch.float64)
    species = torch.tensor([[8, 6, 1, 1]])
    coords = torch.tensor([[[0.0, 0, 0], [1.22, 0.03, 0], [1.82, 0.94, 0.05], [1.82, -0.94, 0]]])

    def run(conv, eps, P0=None):
        params = {"method": "AM1", "scf_eps": eps, "scf_converger": conv, "sp2": [False, 1e-5], "elements": [0, 1, 6, 8], "learned": [], "pair_outer_cutoff": 1e10, "eig": True}
        mol = Molecule(Constants(), params, coords.clone(), species)
        es = Electronic_Structure(params)
        es(mol, P0=P0)
        return mol, es

    rows, bad = [], False
    size = 4 * 2 + 2  # sqrt of the number of matrix elements of the physical block (as matrix_size_sqrt in the drivers)
    for eps in (1e-6, 1e-8):
        for name, conv in (("KSA", [3, {"k": 6, "max_rank": 3, "err_threshold": 0.0, "T_el": 1500}]), ("adaptive", [1])):
            mol, es = run(conv, eps)
            P = mol.dm.detach().clone()
            conv_flag = not bool(es.notconverged[0])
            mol1, _ = run([0, 0.0], 1e3, P0=P.clone())
            res = float(torch.linalg.norm(mol1.dm - P)) / size
            rows.append({"solver": name, "eps": eps, "reported_converged": conv_flag, "||D(F(P)) - P||_F / size": res, "bound 2*eps": 2 * eps, "ratio to bound": res / (2 * eps)})
            if name == "KSA" and conv_flag and res > 2 * eps * 5:
                bad = True
    return {"reproduced": bad, "input": "AM1 H2CO, KSA {max_rank 3, T_el 1500 K}", "rows": rows}



def replay_ksa_batch(model):
    """real code: KSA on the zero-padded batch [water, H2] (H2 has ONE independent density direction; the Krylov rank loop is
    batch-wide, so H2's second response vector is a multiple of its first), against the same molecules computed alone."""
    import io, contextlib
    import torch
    from seqm.seqm_functions.constants import Constants
    from seqm.Molecule import Molecule
    from seqm.ElectronicStructure import Electronic_Structure

    torch.set_default_dtype(torch.float64)
    KSA = [3, {"k": 6, "max_rank": 3, "err_threshold": 0.0, "T_el": 1500}]
    w = [[0.0, 0.0, 0.0], [0.96, 0.0, 0.0], [-0.24, 0.93, 0.0]]
    h2 = [[0.0, 0.0, 0.0], [0.74, 0.0, 0.0], [0.0, 0.0, 0.0]]

    def run(species, coords):
        params = {"method": "AM1", "scf_eps": 1e-8, "scf_converger": KSA, "sp2": [False, 1e-5], "elements": [0, 1, 6, 8], "learned": [], "pair_outer_cutoff": 1e10, "eig": True}
        mol = Molecule(Constants(), params, torch.tensor(coords), torch.tensor(species))
        with contextlib.redirect_stdout(io.StringIO()):
            Electronic_Structure(params)(mol)
        return [float(x) for x in mol.Etot]

    out = {}
    for name, sp, xyz in (("water alone", [[8, 1, 1]], [w]), ("H2 alone", [[1, 1]], [h2[:2]]), ("batch [water, H2+padding]", [[8, 1, 1], [1, 1, 0]], [w, h2])):
        try:
            out[name] = run(sp, xyz)
        except Exception as exc:  # noqa
            out[name] = "raised %s: %s" % (type(exc).__name__, str(exc)[:160])
    alone = [out["water alone"], out["H2 alone"]]
    bad = isinstance(out["batch [water, H2+padding]"], str) or any(isinstance(a, str) for a in alone)
    if not bad:
        b = out["batch [water, H2+padding]"]
        bad = any(not (abs(b[i] - alone[i][0]) < 1e-6) for i in range(2))
    return {"reproduced": bool(bad), "Etot": out}


def ksa_subspace_contract(ctx, target, function, replay, site, vectors=False):
    """shared by C03 (scf_forward3) and C09 (EnergyXL.forward, XLESMD.compute_dxi2dt2_rankm): see task_ksa_subspace_solve.
    vectors=True: the response 'vectors' are rows of length n (W has shape (B, n, Rank)) instead of n x n matrices."""
    ctx.under_contract(target, note="subspace solve inside the Krylov loop: statements `Rank_m = k + 1` ... `IdentRes = ...` (extracted on every run)")
    tree = ast.parse(textwrap.dedent(inspect.getsource(function)))
    stmts = None
    for n in ast.walk(tree):
        if isinstance(n, (ast.While, ast.For)):
            names = [t.id for b in n.body if isinstance(b, ast.Assign) for t in b.targets if isinstance(t, ast.Name)]
            if "IdentRes" in names and "Rank_m" in names:
                k0 = next(i for i, b in enumerate(n.body) if isinstance(b, ast.Assign) and isinstance(b.targets[0], ast.Name) and b.targets[0].id == "Rank_m")
                k1 = max(i for i, b in enumerate(n.body) if isinstance(b, ast.Assign) and isinstance(b.targets[0], ast.Name) and b.targets[0].id == "IdentRes")
                stmts = [b for b in n.body[k0:k1 + 1] if not (isinstance(b, ast.Expr) and isinstance(b.value, ast.Constant))]
    if not stmts:
        ctx.error(site + ".anchor", "no Krylov loop assigning Rank_m and IdentRes found in %s" % target)
        return
    code = compile(ast.Module(body=stmts, type_ignores=[]), "<subspace solve of %s>" % target, "exec")
    loads = {x.id for b in stmts for x in ast.walk(b) if isinstance(x, ast.Name) and isinstance(x.ctx, ast.Load)}
    stores = {x.id for b in stmts for x in ast.walk(b) if isinstance(x, ast.Name) and isinstance(x.ctx, ast.Store)}
    rep = []

    def rp(mdl):
        if not rep:
            try:
                rep.append(replay({}))
            except Exception as exc:  # noqa
                rep.append({"reproduced": False, "error": repr(exc)[:300]})
        return rep[0]

    checked = 0
    for nb, rank in ((1, 1), (1, 2), (2, 1)):
        def thunk():
            if vectors:
                Wt = st.symbolic((1, nb * nb, 2), "W").reshape(1, nb, nb, 2) if False else st.symbolic((1, nb, nb, 2), "W")
                d = st.symbolic((1, nb, nb), "dDS")
                Wv = st.T(Wt.a.reshape(1, nb * nb, 2), st.float64, True)
                dv = st.T(d.a.reshape(1, nb * nb), st.float64, True)
                env = {"torch": st, "W": Wv, "k": rank - 1, "dDS": dv, "last_alpha": None}
                missing = (loads - stores) - set(env)
                if missing:
                    raise Unmodelled("the subspace-solve statements read names this contract does not provide: %r" % sorted(missing))
                exec(code, env)
                return st.T(env["IdentRes"].a.reshape(1, nb, nb), st.float64, True), Wt, d
            Wt = st.symbolic((1, nb, nb, 2), "W")
            if nb == 2:  # symmetric matrices
                for r in range(2):
                    Wt.a[0, 1, 0, r] = Wt.a[0, 0, 1, r]
            d = st.symbolic((1, nb, nb), "dDS")
            if nb == 2:
                d.a[0, 1, 0] = d.a[0, 0, 1]
            env = {"torch": st, "W": Wt, "k": rank - 1, "dDS": d, "D": d.clone()}
            missing = (loads - stores) - set(env)
            if missing:
                raise Unmodelled("the subspace-solve statements read names this contract does not provide: %r" % sorted(missing))
            exec(code, env)
            return env["IdentRes"], Wt, d

        ex = ctx.explore(thunk, name="%s ksa-subspace-solve[%dx%d,rank %d]" % (site, nb, nb, rank), max_paths=64)
        for p in ex.paths:
            tag = "%s[%dx%d,rank=%d]@p%d" % (site, nb, nb, rank, p.path_id)
            if p.raised is not None:
                if isinstance(p.raised, Unmodelled):
                    raise p.raised
                ctx.fail(tag + ".returns", repr(p.raised), replay=rp)
                continue
            res, Wt, d = p.value
            for i in range(nb):
                for j in range(nb):
                    ctx.prove(tag + ".IdentRes[%d,%d].is-defined-for-every-set-of-response-vectors" % (i, j), Sym(E.defined(res.a[0, i, j].n)), pc=p.pc, replay=rp,
                              classify=lambda m_, r: "singular-gram-matrix")
                    checked += 1
            for r in range(rank):
                dot = S(0)
                for i in range(nb):
                    for j in range(nb):
                        dot = dot + Wt.a[0, i, j, r] * (res.a[0, i, j] - d.a[0, i, j])
                dfd = [Sym(E.defined(res.a[0, i, j].n)) for i in range(nb) for j in range(nb)]
                ctx.prove_eq(tag + ".residual-of-the-projection-is-orthogonal-to-W[%d]" % r, dot, S(0), pc=list(p.pc) + dfd)
                checked += 1
    if not checked:
        ctx.error(site + ".vacuous", "no obligation generated")
    ctx.assume_note("%s: pseudo-inverse modelled exactly (rank decided by det and trace), its numerical cut-off is not; matrices up to 2x2 and rank up to 2" % site)


def task_ksa_subspace_solve(ctx):
    """O4 for the KSA driver: the statements of scf_forward3 that solve for the update inside the Krylov subspace
    (Rank_m = ... up to IdentRes = ..., extracted from the source on every run) are total and return the orthogonal projection of
    the residual onto the span of the response vectors -- for EVERY set of response vectors, linearly dependent ones included:
    the rank loop is shared by the whole batch, so a molecule with fewer independent density directions than the rank reached
    (H2 has one) meets a singular Gram matrix.  1x1 'matrices', rank 1 and rank 2 (two vectors in a one-dimensional space: always
    dependent), and 2x2 symmetric matrices with rank 1."""
    import seqm.seqm_functions.scf_loop as S_

    ksa_subspace_contract(ctx, SCF + ":scf_forward3", S_.scf_forward3, replay_ksa_batch, "ksa_subspace")


def task_pack_rows(ctx):
    """Every driver diagonalises the PACKED Fock matrix of each active molecule: pack / unpack must pick each molecule's own physical
    orbitals whatever the other members of the (active) batch are -- same orbital COUNT with different heavy/hydrogen splits
    included (CH4 next to CO).  Contract shared with C05's pack_unpack (grid of shell patterns)."""
    from contracts.C05_batching import task_pack_unpack

    task_pack_unpack(ctx)


def task_ksa_flag(ctx):
    """O1 for the KSA driver: the statement that sets its convergence flag must clear the flag only if the energy change AND
    a density residual are within bounds proportional to eps (the bounds get_error enforces for the other three drivers).
    The flag statement of scf_forward3 is extracted from the source and evaluated on symbolic error arrays."""
    from contracts.C07_differentiability import _quiet
    import seqm.seqm_functions.scf_loop as S_

    ctx.under_contract(SCF + ":scf_forward3", note="the statement `notconverged = ...` inside the KSA loop (extracted on every run) and the statements that fill err / dm_err")
    tree = ast.parse(textwrap.dedent(inspect.getsource(S_.scf_forward3)))
    flag_stmt = None
    for n in ast.walk(tree):
        if isinstance(n, ast.While):
            for m in ast.walk(n):
                if isinstance(m, ast.Assign) and isinstance(m.targets[0], ast.Name) and m.targets[0].id == "notconverged":
                    flag_stmt = m
    if flag_stmt is None:
        ctx.error("anchor", "no assignment to `notconverged` inside the KSA loop")
        return
    code = compile(ast.Expression(flag_stmt.value), "<KSA flag statement>", "eval")
    names = {x.id for x in ast.walk(flag_stmt.value) if isinstance(x, ast.Name)}
    eps = real("eps")
    err, dm = st.symbolic((2,), "err"), st.symbolic((2,), "dm_err")
    size = st.symbolic((2,), "size")
    env = {"torch": st, "err": err, "dm_err": dm, "eps": eps, "matrix_size_sqrt": size, "CONVERGENCE_DM_ERROR_FACTOR": S(E.frac_of_float(float(S_.CONVERGENCE_DM_ERROR_FACTOR))),
           "CONVERGENCE_DM_ELEMENT_FACTOR": S(E.frac_of_float(float(S_.CONVERGENCE_DM_ELEMENT_FACTOR))), "nSuperHeavy": st.tensor([0, 0]), "nHeavy": st.tensor([1, 1]), "nHydro": st.tensor([1, 1])}
    missing = names - set(env)
    if missing:
        ctx.error("anchor", "the flag statement reads names this contract does not provide: %r (statement: %s)" % (sorted(missing), ast.unparse(flag_stmt)))
        return

    def thunk():
        assume(eps > 0)
        for m in range(2):
            assume(err.a[m] >= 0)
            assume(dm.a[m] >= 0)
            assume(size.a[m] > 0)
        return eval(code, env)

    ex = ctx.explore(thunk, name="ksa-flag")
    f_dm = E.frac_of_float(float(S_.CONVERGENCE_DM_ERROR_FACTOR))
    rep = []
    for p in ex.paths:
        if p.raised is not None:
            ctx.fail("raises@p%d" % p.path_id, repr(p.raised) + p.notes.get("traceback", "")[-500:])
            continue
        flags = p.value
        for m in range(2):
            fl = flags.a[m] if isinstance(flags.a[m], Sym) else S(bool(flags.a[m]))
            conv = ~fl
            ctx.prove("mol%d.converged=>|dE|<=eps@p%d" % (m, p.path_id), Sym(E.implies(conv.n, (err.a[m] <= eps).n)), pc=p.pc)
            ctx.prove("mol%d.converged=>density-residual<=%s*eps*size@p%d" % (m, f_dm, p.path_id), Sym(E.implies(conv.n, (dm.a[m] <= eps * f_dm * size.a[m]).n)), pc=p.pc,
                      replay=lambda mdl: (rep or rep.append(_quiet(replay_ksa_flag)) or rep)[0], classify=lambda m_, r: "energy-only-convergence-test")
    ctx.notes.append("KSA flag statement: " + ast.unparse(flag_stmt))
    ctx.assume_note("err = |dE| and dm_err = ||D(F(P)) - P||_F as filled by the two statements before the flag (A2: Fermi_Q returns the density of the Fock matrix); size = sqrt of the number of physical matrix elements")


def task_density_lemmas(ctx):
    """Given orthonormal occupied orbitals (A2), P = 2 C_occ C_occ^T is symmetric, has trace 2 nocc and (P/2)^2 = P/2."""
    for norb, nocc in ((2, 1), (3, 1), (3, 2)):
        C = [[real("c_%d_%d" % (i, k)) for k in range(nocc)] for i in range(norb)]
        ortho = [sum(C[i][k] * C[i][l] for i in range(norb)) == (1 if k == l else 0) for k in range(nocc) for l in range(k, nocc)]
        Pm = [[2 * sum(C[i][k] * C[j][k] for k in range(nocc)) for j in range(norb)] for i in range(norb)]
        tag = "norb=%d,nocc=%d" % (norb, nocc)
        ctx.prove(tag + ".trace=2nocc", sum(Pm[i][i] for i in range(norb)) == 2 * nocc, pc=ortho, shape=tag)
        for i in range(norb):
            for j in range(norb):
                ctx.prove_eq(tag + ".symmetric[%d,%d]" % (i, j), Pm[i][j], Pm[j][i], shape=tag)
                half2 = sum((Pm[i][k] / 2) * (Pm[k][j] / 2) for k in range(norb))
                ctx.prove(tag + ".idempotent[%d,%d]" % (i, j), half2 == Pm[i][j] / 2, pc=ortho, shape=tag)
    ctx.assume_note("shape-bounded: (norb, nocc) in {(2,1),(3,1),(3,2)}")
    ctx.undecided_clause("commutator [F,P] = 0 and idempotency of the returned density in floating point")


TASKS_QUICK = ["get_error", "scf_forward0", "scf_forward1", "scf_forward2_w0", "scf_forward2_w1", "scf_forward2_w2", "scf_forward2_w3", "ksa_flag", "ksa_subspace_solve", "termination", "padding_shift", "sp2_padding_guard", "density_lemmas", "pack_rows"]
TASKS_THOROUGH = TASKS_QUICK
