"""C20 -- steepest-descent optimiser: step rule, first-exit stopping logic, truthful report.

Functions under contract: Geometry_Optimization_SD.onestep, Geometry_Optimization_SD.run (loop cut)."""
from fractions import Fraction

import numpy as np

from pyvc.api import *
from pyvc import symtorch as st, expr as E, world as W
from contracts.md_common import *
from contracts.C12_langevin import _mol, _force_of

SD = MD + ":Geometry_Optimization_SD"
STUBS = {MD + ":esdriver": DummyDriver, MD + ":Force": lambda *a, **k: None}


def _make_sd(max_evl):
    import seqm.MolecularDynamics as M

    return M.Geometry_Optimization_SD({"method": "AM1"}, alpha=real("alpha"), force_tol=real("tol"), max_evl=max_evl)


def _per_molecule_force(molecule, *a, **kw):
    """A6 + C05: the force on molecule m is a function of molecule m's coordinates only; zero on padding slots."""
    x = molecule.coordinates
    out = np.empty(x.a.shape, dtype=object)
    for m in range(x.a.shape[0]):
        flat = tuple(v.n for v in x.a[m].reshape(-1))
        for i in range(x.a.shape[1]):
            for c in range(3):
                pad = int(molecule.species.a[m, i]) == 0
                out[m, i, c] = S(0.0) if pad else Sym(E.uf("F_%d_%d_%d" % (m, i, c), flat, E.R))
    molecule.force = st.T(out, st.float64, True)
    molecule.Etot = st.tensor([Sym(E.uf("E_%d" % m, tuple(v.n for v in x.a[m].reshape(-1)), E.R)) for m in range(x.a.shape[0])])


def replay_onestep(model):
    """real onestep on water alone and on the batch [water, H2 squeezed to 0.5 A + padding] (alpha = 2e-2): water's new
    coordinates must be x + alpha*F(x) in both and identical in both."""
    import torch
    from seqm.seqm_functions.constants import Constants
    from seqm.Molecule import Molecule
    from seqm.MolecularDynamics import Geometry_Optimization_SD

    torch.set_default_dtype(torch.float64)
    params = {"method": "AM1", "scf_eps": 1e-9, "scf_converger": [1], "sp2": [False, 1e-5], "elements": [0, 1, 8], "learned": [], "pair_outer_cutoff": 1e10, "eig": True}
    water = [[0.0, 0, 0], [0.99, 0.02, 0], [-0.27, 0.95, 0.03]]
    alpha = 2e-2

    def run(species, coords):
        mol = Molecule(Constants(), params, torch.tensor(coords), torch.tensor(species))
        x0 = mol.coordinates.detach().clone()
        sd = Geometry_Optimization_SD(params, alpha=alpha, force_tol=1e-12, max_evl=3)
        f, _ = sd.onestep(mol)
        return x0, f.detach().clone(), mol.coordinates.detach().clone()

    xa, fa, xa1 = run([[8, 1, 1]], [water])
    xb, fb, xb1 = run([[8, 1, 1], [1, 1, 0]], [water, [[0.0, 0, 0], [0.5, 0, 0], [0, 0, 0]]])
    rule = max(float((xa1 - xa - alpha * fa).abs().max()), float((xb1 - xb - alpha * fb).abs().max()))
    indep = float((xa1[0] - xb1[0]).abs().max())
    pad = float((xb1[1, 2] - xb[1, 2]).abs().max())
    return {"reproduced": bool(rule > 1e-9 or indep > 1e-7 or pad > 0), "input": "AM1 water alone vs batch [water, H2 at 0.5 A + padding], alpha 2e-2",
            "max|x' - x - alpha F|": rule, "max|water' alone - water' in batch|": indep, "padding displacement": pad, "max|F| of the squeezed H2 (eV/A)": float(fb[1].abs().max())}


def task_onestep(ctx):
    """onestep is x' = x + alpha F(x), returns the force and energy of the geometry it evaluated, leaves padding slots in place and couples no two molecules of a batch."""
    from contracts.C07_differentiability import _quiet

    ctx.under_contract(SD + ".onestep", stubs=["esdriver"])

    def thunk():
        sd = _make_sd(5)
        sd.esdriver.behaviour = _per_molecule_force
        mol = _mol(2, pad=True)
        # batch of two molecules: [2 atoms + padding], [3 atoms]
        mol.species = st.tensor([[1, 1, 0], [8, 1, 1]])
        mol.coordinates = st.symbolic((2, 3, 3), "x")
        x0 = mol.coordinates.clone()
        _per_molecule_force(mol)
        F0, E0 = mol.force.clone(), mol.Etot.clone()
        mol.force = None
        f, e = sd.onestep(mol)
        return mol, x0, F0, E0, f, e, sd.esdriver.calls

    ex = ctx.explore(thunk, stubs=STUBS, name="onestep")
    for p in ex.paths:
        if p.raised is not None:
            ctx.fail("raises@p%d" % p.path_id, repr(p.raised) + p.notes.get("traceback", "")[-500:])
            continue
        mol, x0, F0, E0, f, e, calls = p.value
        alpha = real("alpha")
        for pos in np.ndindex(*x0.a.shape):
            ctx.prove_eq("x'=x+alpha*F(x)%s" % (list(pos),), mol.coordinates.a[pos], x0.a[pos] + alpha * F0.a[pos], pc=p.pc, replay=lambda m_: _quiet(replay_onestep),
                         classify=lambda m_, r: "step-rule")
            ctx.prove_eq("returned-force-is-F(x)%s" % (list(pos),), f.a[pos], F0.a[pos], pc=p.pc)
        for c in range(3):
            ctx.prove_eq("padding-slot-does-not-move[%d]" % c, mol.coordinates.a[0, 2, c], x0.a[0, 2, c], pc=p.pc)
        for m in range(2):
            ctx.prove_eq("returned-energy-is-E(x)[%d]" % m, e.a[m], E0.a[m], pc=p.pc)
        # non-interference: the new coordinates of molecule m mention only molecule m's inputs
        from pyvc import poly as P

        for m in range(2):
            names = set()
            for i in range(3):
                for c in range(3):
                    names |= P.free_atoms(P.to_poly(mol.coordinates.a[m, i, c].n))
            foreign = [n for n in names if n.startswith("x_%d_" % (1 - m))]
            if foreign:
                ctx.fail("path-of-molecule-%d-independent-of-batch-mates" % m, "depends on %r" % foreign[:4], replay=_quiet(replay_onestep), witness_class="batch-coupling")
            else:
                ctx.ok("path-of-molecule-%d-independent-of-batch-mates" % m, "free-symbol-containment")
        ctx.notes.append("onestep: electronic-structure driver called %d time(s)" % len(calls))
    ctx.assume_note("A6/C05: force and energy of a molecule are uninterpreted functions of that molecule's coordinates; zero force on padding slots (C01)")


class SDLoop(W.LoopContract):
    """Head of iteration k: k evaluations done, none met the tolerance; Lold = L(k-1) (zeros for k = 0);
    i, force_err, energy_err hold the values of evaluation k-1."""

    def __init__(self, env):
        self.env = env

    def _ferr(self, j):
        return Sym(E.uf("ferr", (E.node_of(j),), E.R))

    def _L(self, j):
        return Sym(E.uf("L", (E.node_of(j),), E.R))

    def _Lold(self, k):
        return Sym(E.ite((S(k) == 0).n, E.const(Fraction(0), E.R), self._L(S(k) - 1).n))

    def enter(self, L, it):
        oblige("entry.Lold=0", L["Lold"].a[0] == self._Lold(0))

    def havoc(self, L, it):
        e = self.env
        k = fresh_int("k")
        e["k"] = k
        assume((k >= 0) & (k <= e["max_evl"]))
        j = e["j"]
        assume(Sym(E.implies(((j >= 0) & (j < k)).n, (self._ferr(j) > e["tol"]).n)))
        assume(Sym(E.implies((k >= 1).n, (self._ferr(k - 1) > e["tol"]).n)))
        e["broke"] = False
        return {
            "converged": False,
            "Lold": st.tensor([self._Lold(k)]),
            "i": k - 1,
            "force_err": st.tensor(self._ferr(k - 1)),
            "energy_err": st.tensor(self._L(k - 1) - self._Lold(k - 1)),
        }

    def guard(self, L, it):
        return self.env["k"] < self.env["max_evl"]

    def target(self, L, it):
        return self.env["k"]

    def back(self, L):
        e = self.env
        k = e["k"]
        oblige("continue.tolerance-not-met", self._ferr(k) > e["tol"])
        oblige("continue.Lold=L(k)", L["Lold"].a[0] == self._L(k))

    def brk(self, L):
        e = self.env
        k = e["k"]
        e["broke"] = True
        oblige("break.tolerance-met", self._ferr(k) <= e["tol"])
        oblige("break.first-exit(skolem j<k not met)", Sym(E.implies(((e["j"] >= 0) & (e["j"] < k)).n, (self._ferr(e["j"]) > e["tol"]).n)))


def replay_report(model):
    """Real torch: tolerance met exactly at the last allowed evaluation (max_evl = 1, huge tolerance) on AM1 H2."""
    import io, contextlib
    import torch
    from seqm.seqm_functions.constants import Constants
    from seqm.Molecule import Molecule
    from seqm.MolecularDynamics import Geometry_Optimization_SD

    torch.set_default_dtype(torch.float64)
    params = {"method": "AM1", "scf_eps": 1e-6, "scf_converger": [2, 0.0], "sp2": [False, 1e-5], "elements": [0, 1], "learned": [], "pair_outer_cutoff": 1e10, "eig": True}
    mol = Molecule(Constants(), params, torch.tensor([[[0.0, 0, 0], [0.74, 0, 0]]]), torch.tensor([[1, 1]]))
    opt = Geometry_Optimization_SD(params, alpha=0.002, force_tol=1.0e3, max_evl=1)
    buf = io.StringIO()
    with contextlib.redirect_stdout(buf):
        ferr, _ = opt.run(mol, log=True)
    text = buf.getvalue()
    said_not = "not converged" in text
    return {"reproduced": bool(said_not and float(ferr) <= 1.0e3), "max_force": float(ferr), "force_tol": 1.0e3, "max_evl": 1, "printed": text.strip().splitlines()[-1]}


def replay_stop_rule(model):
    """Real run() with onestep replaced by a recorder that hands out prescribed forces for a batch of two molecules: molecule 0 is
    within tolerance at the first evaluation and far above it afterwards, molecule 1 meets the tolerance at evaluation 3.  The
    run must not stop (nor report convergence) while the largest force component of the batch is above the tolerance."""
    import io, contextlib
    import torch
    from seqm.MolecularDynamics import Geometry_Optimization_SD

    torch.set_default_dtype(torch.float64)
    opt = object.__new__(Geometry_Optimization_SD)
    torch.nn.Module.__init__(opt)
    opt.__dict__.update(alpha=0.01, force_tol=0.05, max_evl=8, seqm_parameters={})
    seq = [([0.01, 1.0]), ([5.0, 0.5]), ([5.0, 0.01]), ([0.04, 0.01]), ([0.04, 0.01])]
    calls = []

    def onestep(molecule, learned_parameters=dict()):
        k = min(len(calls), len(seq) - 1)
        calls.append(k)
        f = torch.zeros(2, 1, 3)
        f[0, 0, 0], f[1, 0, 0] = seq[k]
        return f, torch.tensor([-1.0 - 0.1 * k, -2.0 - 0.1 * k])

    opt.onestep = onestep
    mol = type("M", (), {})()
    mol.coordinates = torch.zeros(2, 1, 3)
    mol.species = torch.ones(2, 1, dtype=torch.long)
    buf = io.StringIO()
    with contextlib.redirect_stdout(buf):
        out = opt.run(mol, log=True)
    last = seq[min(len(calls), len(seq)) - 1]
    text = buf.getvalue().strip().splitlines()[-1] if buf.getvalue().strip() else ""
    said_converged = ("converged" in text) and ("not converged" not in text)
    bad = (said_converged and max(last) > 0.05) or (len(calls) != 4)
    return {"reproduced": bool(bad), "evaluations_done": len(calls), "first_evaluation_with_batch_max_force_within_tolerance": 4, "max_force_components_at_the_last_evaluation": last, "force_tol": 0.05, "printed": text}


def replay_optimizer_reuse(model):
    """real code: a steepest-descent optimiser object that already ran once (AM1 water, loose tolerance, few evaluations) is used
    for a second run: the second run must make as many evaluations, and return the same residual, as a fresh optimiser does."""
    import io, contextlib
    import torch
    from seqm.seqm_functions.constants import Constants
    from seqm.Molecule import Molecule
    import seqm.MolecularDynamics as M

    torch.set_default_dtype(torch.float64)
    params = {"method": "AM1", "scf_eps": 1e-8, "scf_converger": [1], "sp2": [False, 1e-5], "elements": [0, 1, 8], "learned": [], "pair_outer_cutoff": 1e10, "eig": True}

    def molecule(stretch):
        return Molecule(Constants(), dict(params), torch.tensor([[[0.0, 0, 0], [0.96 + stretch, 0.05, 0], [-0.24, 0.93, 0.02]]]), torch.tensor([[8, 1, 1]]))

    def run(opt, stretch):
        n = [0]
        h = opt.esdriver.register_forward_pre_hook(lambda *a: n.__setitem__(0, n[0] + 1))
        try:
            with contextlib.redirect_stdout(io.StringIO()):
                ferr, _ = opt.run(molecule(stretch), log=False)
        finally:
            h.remove()
        return n[0], float(ferr)

    make = lambda: M.Geometry_Optimization_SD(dict(params), alpha=0.005, force_tol=1e-6, max_evl=4)
    fresh = run(make(), 0.10)
    used = make()
    first = run(used, 0.0)
    try:
        second = run(used, 0.10)
    except Exception as exc:  # noqa
        second = "raised %s: %s" % (type(exc).__name__, str(exc)[:100])
    return {"reproduced": fresh != second, "fresh optimiser (evaluations, max force)": fresh, "first run on the reused optimiser": first, "second run on the reused optimiser": second, "max_evl": 4}


def task_run_reuse(ctx):
    """BOUNDED (max_evl = 3, loops unrolled by execution, not cut): the real run() with the real onestep(); the electronic-structure
    driver hands out a fresh symbolic force field per evaluation.  Two consecutive runs on ONE optimiser object: in each, the
    evaluations stop at the first one whose largest force component meets the tolerance, or after max_evl; the value returned
    is that evaluation's; the second run owes nothing to the first.  Independent of how the loop header is written."""
    from contracts.C07_differentiability import _quiet

    ctx.under_contract(SD + ".run", stubs=["esdriver"], note="bounded: max_evl = 3, two consecutive runs on one object")
    ctx.under_contract(SD + ".onestep", stubs=["esdriver"])
    NE = 3
    tol = real("tol")
    rep = []
    rp = lambda mdl: (rep or rep.append(_quiet(replay_optimizer_reuse)) or rep)[0]

    def thunk():
        calls = {"A": 0, "B": 0}
        which = ["A"]

        def behaviour(molecule, *a, **kw):
            r = which[0]
            k = calls[r]
            calls[r] += 1
            if calls[r] > NE + 2:
                raise RuntimeError("more evaluations than max_evl allows")
            molecule.force = st.symbolic(tuple(molecule.coordinates.a.shape), "F%s%d" % (r, k))
            molecule.Etot = st.symbolic((molecule.coordinates.a.shape[0],), "E%s%d" % (r, k))

        sd = _make_sd(NE)
        sd.esdriver.behaviour = behaviour
        outs = {}
        for r in ("A", "B"):
            which[0] = r
            mol = _mol(1)
            outs[r] = sd.run(mol, log=False)
        return outs, dict(calls)

    ex = ctx.explore(thunk, stubs=dict(STUBS, **{"builtins:print": lambda *a, **k: None}) if False else STUBS, name="run twice on one optimiser", max_paths=64)
    n = 0
    for p in ex.paths:
        if p.raised is not None:
            if isinstance(p.raised, Unmodelled):
                raise p.raised
            ctx.fail("run_reuse.raises@p%d" % p.path_id, repr(p.raised) + p.notes.get("traceback", "")[-500:], replay=rp(None))
            continue
        n += 1
        outs, calls = p.value
        for r in ("A", "B"):
            k = calls[r]
            ferr = lambda j: Sym(E.max_(*[abs(real("F%s%d_0_0_%d" % (r, j, c))).n for c in range(3)])) if False else None
            comps = lambda j: [real("F%s%d_0_0_%d" % (r, j, c)) for c in range(3)]
            above = lambda j: (abs(comps(j)[0]) > tol) | (abs(comps(j)[1]) > tol) | (abs(comps(j)[2]) > tol)
            tag = "run_reuse.run%s@p%d" % (r, p.path_id)
            ctx.prove("%s.at-least-one-and-at-most-max_evl-evaluations" % tag, E.const(1 <= k <= NE), pc=p.pc, replay=rp, classify=lambda m_, r_: "optimiser-object-carries-state-between-runs")
            for j in range(min(k, NE) - 1):
                ctx.prove("%s.evaluation-%d-did-not-meet-the-tolerance-(so-the-run-went-on)" % (tag, j + 1), above(j), pc=p.pc)
            if 1 <= k < NE:
                ctx.prove("%s.stopped-before-max_evl=>last-evaluation-meets-the-tolerance" % tag, ~above(k - 1), pc=p.pc, replay=rp, classify=lambda m_, r_: "optimiser-object-carries-state-between-runs")
            if 1 <= k <= NE:
                got = outs[r][0]
                gv = got.a.reshape(-1)[0] if isinstance(got, st.T) else S(got)
                c0 = comps(k - 1)
                ctx.prove("%s.returned-residual-is-the-largest-force-component-of-the-last-evaluation" % tag, (gv >= abs(c0[0])) & (gv >= abs(c0[1])) & (gv >= abs(c0[2])) & ((gv == abs(c0[0])) | (gv == abs(c0[1])) | (gv == abs(c0[2]))), pc=p.pc)
    if n < 4:
        ctx.error("run_reuse.paths", "expected several returning paths, got %d" % n)
    ctx.bounded.append({"what": "steepest-descent run() executed with its loop unrolled", "bound": "max_evl = 3; two consecutive runs on one optimiser object; one molecule of one atom", "why_not_proved": "stands next to the unbounded loop contract of task run (which is anchored to the loop header and ends in a checker error when the header is rewritten)"})


def task_run(ctx):
    """run (loop cut with ghost history): stops at the first evaluation meeting the tolerance or after max_evl evaluations, returns the residuals of the last evaluation and reports 'not converged' exactly when the tolerance was not met."""
    ctx.under_contract(SD + ".run", loops_cut=["for i in range(self.max_evl)"], stubs=["onestep"])
    max_evl = integer("max_evl")
    env = dict(max_evl=max_evl, tol=real("tol"), j=integer("j"))
    loop = SDLoop(env)
    run = W.recompile(SD + ".run", loops={0: ("range(self.max_evl)", loop)})
    msgs = []

    def stub_onestep(self, molecule, learned_parameters=dict()):
        k = env["k"]
        F = st.tensor([[[Sym(E.uf("Fhist", (E.node_of(k), E.const(c)), E.R)) for c in range(3)]]])
        # ferr(k) is by definition the largest force component of evaluation k
        env["F"] = F
        return F, st.tensor([loop._L(k)])

    def rec_print(*a, **k):
        msgs.append(" ".join(str(x) for x in a))

    def thunk():
        assume(max_evl >= 1)
        msgs.clear()
        sd = _make_sd(max_evl)
        mol = _mol(1)
        ferr, eerr = run(sd, mol, log=False)
        return ferr, eerr, list(msgs), env["broke"], env["k"]

    saved_max = st.max

    def max_hook(x, *a, **k):
        # max|F_k| is the ghost residual ferr(k) (definition), so that the loop contract can talk about it
        if "F" in env and x.a.shape == env["F"].a.shape:
            return st.tensor(loop._ferr(env["k"]))
        return saved_max(x, *a, **k)

    st.max = max_hook
    try:
        ex = ctx.explore(thunk, stubs=dict(STUBS, **{SD + ".onestep": stub_onestep}), extra_globals={MD: {"print": rec_print}}, name="SD.run")
    finally:
        st.max = saved_max
    kinds = {"break": 0, "exit": 0, "back": 0}
    for p in ex.paths:
        if p.raised is not None:
            ctx.fail("raises@p%d" % p.path_id, repr(p.raised) + p.notes.get("traceback", "")[-700:])
            continue
        if p.ended:
            kinds["back"] += 1
            continue
        ferr, eerr, m, broke, k = p.value
        said_not = any(x.startswith("not converged") for x in m)
        if broke:
            kinds["break"] += 1
            ctx.prove("report.converged-run-is-not-reported-as-unconverged@p%d" % p.path_id, E.const(not said_not), pc=p.pc,
                      replay=replay_report, classify=lambda mo, r: "tolerance-met-at-last-allowed-evaluation")
            ctx.prove("returns.force-residual-of-last-evaluation@p%d" % p.path_id, ferr.a.reshape(-1)[0] == loop._ferr(k), pc=p.pc)
            ctx.prove("returns.energy-change-of-last-evaluation@p%d" % p.path_id, eerr.a.reshape(-1)[0] == loop._L(k) - loop._Lold(k), pc=p.pc)
        else:
            kinds["exit"] += 1
            ctx.prove("report.cap-reached-is-reported-as-not-converged@p%d" % p.path_id, E.const(said_not), pc=p.pc)
            ctx.prove("cap.every-evaluation-missed-the-tolerance@p%d" % p.path_id, loop._ferr(k - 1) > env["tol"], pc=p.pc)
            ctx.prove("cap.exactly-max_evl-evaluations@p%d" % p.path_id, k == max_evl, pc=p.pc)
            ctx.prove("returns.force-residual-of-last-evaluation@p%d" % p.path_id, ferr.a.reshape(-1)[0] == loop._ferr(k - 1), pc=p.pc)
    if min(kinds.values()) == 0:
        ctx.error("paths", "vacuous exploration: %r" % kinds)
    ctx.discharge(ex.all_obligations(), replay=replay_stop_rule, classify=lambda m_, r: "stop-rule" if r and r.get("reproduced") else "other")
    ctx.assume_note("onestep replaced by its contract (task onestep); ferr(k) := max|F_k| and L(k) := Etot of evaluation k are ghost history functions")
    ctx.undecided_clause("monotone descent for small alpha (needs a Lipschitz bound on the real energy surface)")


TASKS_QUICK = ["onestep", "run", "run_reuse"]
TASKS_THOROUGH = TASKS_QUICK
