"""Shared harness for the MD-driver contracts (C08, C10, C11, C13, C20).

Ghost history: `hist(field, label)` is an uninterpreted function giving the value a
molecule field had at MD label `label` (label 0 = initial snapshot).  The integrator
stub advances the molecule to `hist(., i+1)`; the loop invariants relate what is on
the ghost disk to `hist`.
"""
from fractions import Fraction

import numpy as np

from pyvc.api import *
from pyvc import symtorch as st, expr as E, ghostfs as G, world as W

MD = "seqm.MolecularDynamics"
FIELDS = {"coordinates": (1, 1, 3), "velocities": (1, 1, 3), "force": (1, 1, 3), "Etot": (1,), "dipole": (1, 3), "e_gap": (1,)}
VEC_FIELD = {"coordinates": "coordinates", "velocities": "velocities", "forces": "force"}


class Obj:
    def __init__(self, **kw):
        self.__dict__.update(kw)


def hist(field, label, shape=None):
    """Tensor of uninterpreted applications hist_field(label, flat_index)."""
    shape = shape or FIELDS[field]
    a = np.empty(shape, dtype=object)
    ln = E.node_of(label)
    for k, pos in enumerate(np.ndindex(*shape)):
        a[pos] = Sym(E.uf("hist_" + field, (ln, E.const(k)), E.R))
    return st.T(a, st.float64, True)


def set_state(mol, label):
    for f, shp in FIELDS.items():
        setattr(mol, f, hist(f, label, shp))


def ghost_molecule(label=0):
    mol = Obj()
    mol.species = st.tensor([[1]])
    mol.nmol = 1
    mol.molsize = 1
    mol.num_atoms = st.tensor([1])
    mol.norb = st.tensor([1])
    mol.nocc = st.tensor([1])
    mol.active_state = 0
    mol.mass = st.tensor([[[real("mass")]]])
    mol.mass_inverse = st.tensor([[[real("massinv")]]])
    mol.dm = st.symbolic((1, 1, 1), "dm")
    mol.cis_amplitudes = None
    mol.old_mos = None
    mol.verbose = True
    mol.const = Obj(do_timing=False, label=["0", "H"], timing={"MD": []})
    mol.Electronic_entropy = st.zeros(1)
    set_state(mol, label)
    mol.acc = st.symbolic((1, 1, 3), "acc0")
    return mol


class DummyDriver:
    """Stand-in for Electronic_Structure: constructing the real one loads parameter tables and is not part of
    the MD bookkeeping under contract.  Calling it is a contract violation unless a test installs a behaviour."""

    def __init__(self, seqm_parameters=None, *a, **k):
        self.seqm_parameters = seqm_parameters
        self.conservative_force = Obj(energy=Obj(md=False, excited_states=None, hamiltonian=Obj(), xlesmd=False))
        self.device = st._CPU
        self.calls = []
        self.behaviour = None

    def __call__(self, molecule, *a, **kw):
        self.calls.append(kw)
        if self.behaviour is None:
            raise Unmodelled("electronic-structure driver called where the contract does not expect it")
        return self.behaviour(molecule, *a, **kw)

    def to(self, *a, **k):
        return self

    def parameters(self):
        return iter(())


# ---------------------------------------------------------------------------
# contracts of the HDF5 / XYZ writers, as effect functions on the (ghost) writer state.
# The same functions are (a) compared with the effect of the real methods, (b) installed as stubs in callers.


def _np_row(t):
    return np.array(t.a, dtype=object)


def vectors_effect(writer, step_idx, molecule):
    """Contract of HDF5Writer.append_vectors: every stream whose own cadence divides step_idx gets one row at its
    cursor (label = step_idx, value = the molecule's current tensor), cursor advances; nothing else changes."""
    step = E.node_of(step_idx)
    for mol in writer.config.molid:
        h5 = writer.handles[mol]
        f = writer.flags[mol]
        S = f["active_slice"]
        for name, stride in writer._cadence.items():
            sn = E.node_of(stride)
            if sn.op == "const" and sn.val <= 0:
                continue
            cur_ = E.node_of(writer.i_vec[mol][name])
            cap = E.node_of(f["Tw_vec"][name])
            due = E.and_(E.gt(sn, E.ZERO), E.eq(E.mod(step, sn), E.ZERO)) if sn.op != "const" else E.eq(E.mod(step, sn), E.ZERO)
            wrote = E.and_(due, E.lt(cur_, cap))
            if wrote.op == "const" and not wrote.val:
                continue
            g = h5[name]
            g["steps"].store(cur_, Sym(step), wrote)
            g["values"].store(cur_, _np_row(getattr(molecule, VEC_FIELD[name])[mol, S, :]), wrote)
            writer.i_vec[mol][name] = Sym(E.ite(wrote, E.add(cur_, E.ONE), cur_))


def data_effect(writer, step_idx, molecule, T, Ek, Ep, e_gap):
    """Contract of HDF5Writer.append_data for ground-state runs (no excited states, write_mo off): one row at the
    data cursor with label, T, Ek, Ep and the ground dipole; cursor advances.  Does not test the cadence (caller's job)."""
    for mol in writer.config.molid:
        i = writer.i_data.get(mol)
        if i is None:
            continue
        tw = E.node_of(writer.flags[mol]["Tw_data"])
        if tw.op == "const" and tw.val == 0:
            continue
        gd = writer.handles[mol]["data"]
        guard = E.ne(tw, E.ZERO)
        gd["steps"].store(i, Sym(E.node_of(step_idx)), guard)
        gd["thermo/T"].store(i, T.a[mol], guard)
        gd["thermo/Ek"].store(i, Ek.a[mol], guard)
        gd["thermo/Ep"].store(i, Ep.a[mol], guard)
        gd["properties/ground_dipole"].store(i, _np_row(molecule.dipole[mol]), guard)
        writer.i_data[mol] = Sym(E.ite(guard, E.add(E.node_of(i), E.ONE), E.node_of(i)))


def stub_append_vectors(self, step_idx, molecule):
    vectors_effect(self, step_idx, molecule)


def stub_append_data(self, step_idx, molecule, T, Ek, Ep, e_gap):
    data_effect(self, step_idx, molecule, T, Ek, Ep, e_gap)


# thermo stubs: uninterpreted functions of the *current* velocities / molecule (contract verified in C08/C13)


EK_MODEL = {"spec": False}


def ek_node(vel_nodes):
    """Kinetic energy of the (one-atom ghost) molecule as a function of its velocities: an uninterpreted function by default;
    with EK_MODEL['spec'] the contract proved for _kinetic_energy in C08.kinetic, KES/2 * m * |v|^2 (KES, m positive symbols)."""
    if not EK_MODEL["spec"]:
        return E.uf("Ek_of", tuple(vel_nodes), E.R)
    v2 = E.add(*[E.mul(x, x) for x in vel_nodes])
    return E.mul(E.var("KES_half", E.R), E.var("mass", E.R), v2)


def stub_kinetic_energy(self, molecule):
    v = molecule.velocities.a.reshape(-1)
    return st.tensor([Sym(ek_node([x.n for x in v]))])


def stub_calc_temperature(self, kinetic_energy):
    return st.tensor([Sym(E.uf("T_of", (kinetic_energy.a[0].n,), E.R))])
