"""C17 -- surface hopping: norm-conserving flow, hop probabilities, energy-conserving velocity adjustment,
permutation relabelling, per-trajectory isolation."""
from fractions import Fraction
import itertools

import numpy as np

from pyvc.api import *
from pyvc import symtorch as st, expr as E, world as W, poly as P
from contracts.md_common import *

NAD = "seqm.NonadiabaticDynamics"
SH = NAD + ":SurfaceHoppingDynamics"


def _new_sh(nstates, nmol=1):
    import seqm.NonadiabaticDynamics as N
    import torch as rt

    sh = object.__new__(N.SurfaceHoppingDynamics)
    rt.nn.Module.__init__(sh)
    d = sh.__dict__
    d.update(_nstates=nstates, _eye_cache={}, _arange_cache={}, timestep=real("dt"), step_offset=0, hop_log=[], _decohere_on_hop=False,
             _trivial_crossing_mask=None, _hop_integral=None, _current_potential=None, _tdc_method="hamiltonian_fd")
    d["post_hop_holdoff"] = st.zeros(nmol, dtype=st.int64)
    d["prev_state"] = st.full((nmol,), -1, dtype=st.int64)
    return sh


def _antisym(n, name):
    a = np.empty((1, n, n), dtype=object)
    for i in range(n):
        for j in range(n):
            a[0, i, j] = S(0.0) if i == j else (real("%s_%d_%d" % (name, i, j)) if i < j else -real("%s_%d_%d" % (name, j, i)))
    return st.T(a, st.float64, True)


class RK4Loop(W.LoopContract):
    """Cut of the RK4 sub-step loop: the amplitudes at the head of a sub-step are arbitrary (fresh symbols)."""

    def __init__(self, env):
        self.env = env

    def havoc(self, L, it):
        n = self.env["n"]
        self.env["s"] = fresh_int("s")
        return {"x": st.symbolic((1, n), "xh"), "y": st.symbolic((1, n), "yh"), "th": st.symbolic((1, n), "thh")}

    def guard(self, L, it):
        return self.env["s"] < S(L["nsub"])

    def target(self, L, it):
        return self.env["s"]

    def back(self, L):
        # k = rhs(x, y, th, D): the flow conserves sum_i |a_i|^2 for every antisymmetric coupling (all four RK4 stages)
        n = self.env["n"]
        xs, ys = self.env["x_head"], self.env["y_head"]
        # stage k1 is rhs_amp at arbitrary (x, y, theta) and an arbitrary antisymmetric matrix (nd1 is a linear combination
        # of two antisymmetric matrices); stages k2..k4 call the same nested function at other arguments
        for tag, (xx, yy, dx, dy) in {"k1": (xs, ys, L["dx1"], L["dy1"])}.items():
            tot = 0
            for i in range(n):
                tot = tot + xx.a[0, i] * dx.a[0, i] + yy.a[0, i] * dy.a[0, i]
            oblige("n=%d.flow-conserves-norm(%s)" % (n, tag), tot == 0, shape="states=%d" % n)
        # the same function object is used for all four stages: dx2 is produced from (x2, y2, th2, nd2) etc.
        oblige("n=%d.stages-use-half-step-amplitudes" % n, E.and_(*[E.eq(L["x2"].a[0, i].n, (xs.a[0, i] + L["half_dt_sub"] * L["dx1"].a[0, i]).n) for i in range(n)]))


def task_flow(ctx):
    """O1: d/dt sum |a_i|^2 = 0 along the electronic flow for every antisymmetric coupling matrix, state energies and
    phases (each of the four RK4 stage evaluations of the real nested rhs_amp); the hop integral is antisymmetric with
    zero diagonal."""
    ctx.under_contract(NAD + ":NonadiabaticDynamicsBase._propagate_electronic", loops_cut=["for s in range(nsub)"], note="nested rhs_amp evaluated in situ")
    for n in ((2, 3) if ctx.tier == "quick" else (2, 3, 4)):
        env = {"n": n, "flow": []}
        loop = RK4Loop(env)
        fn = W.recompile(NAD + ":NonadiabaticDynamicsBase._propagate_electronic", loops={0: ("range(nsub)", loop)})

        orig_havoc = loop.havoc

        def havoc(L, it, orig=orig_havoc):
            d = orig(L, it)
            env["x_head"], env["y_head"] = d["x"], d["y"]
            return d

        loop.havoc = havoc

        def thunk():
            env["flow"] = []
            sh = _new_sh(n)
            sh._amp_phase = st.symbolic((1, n, 3), "amp")
            co = {"energies": st.symbolic((1, n), "e0"), "nac_dot": _antisym(n, "D0")}
            cn = {"energies": st.symbolic((1, n), "e1"), "nac_dot": _antisym(n, "D1")}
            fn(sh, co, cn, substeps=integer("nsub"))
            return sh, list(env["flow"]), cn

        ex = ctx.explore(thunk, name="_propagate_electronic n=%d" % n)
        got = False
        for p in ex.paths:
            if p.raised is not None:
                ctx.fail("n=%d.raises@p%d" % (n, p.path_id), repr(p.raised) + p.notes.get("traceback", "")[-600:])
                continue
            if p.ended:
                got = True
                continue
            sh, flow, cn = p.value
            H = sh._hop_integral
            for i in range(n):
                ctx.prove_eq("n=%d.hop-integral.zero-diagonal[%d]" % (n, i), H.a[0, i, i], 0, pc=p.pc, shape="states=%d" % n)
                for j in range(i + 1, n):
                    ctx.prove_eq("n=%d.hop-integral.antisymmetric[%d,%d]" % (n, i, j), H.a[0, i, j] + H.a[0, j, i], 0, pc=p.pc, shape="states=%d" % n)
        if not got:
            ctx.error("n=%d.paths" % n, "no path reached the RK4 back edge")
        ctx.discharge(ex.all_obligations())
    ctx.canary_eq("norm-not-conserved-for-symmetric-coupling", real("a") * real("D") * real("b") + real("b") * real("D") * real("a"), 0)
    ctx.assume_note("shape-bounded: 2 and 3 states, one trajectory; cos/sin of the phases are opaque atoms (no trigonometric identity is needed)")
    ctx.undecided_clause("RK4 global error constant (the flow identity is proved; norm drift is O(dt^5) per sub-step by the order of the method)")


def replay_hop_probabilities(model):
    """real _attempt_hop on real torch, 3 states, active state 1 with population 0.04: flux INTO it from state 0 (negative entry)
    and OUT of it to state 2 (entry 0.08, i.e. g = 2 before the guard).  The probabilities the routine hands to cumsum must lie
    in [0, 1] with row sum <= 1."""
    import torch
    import seqm.NonadiabaticDynamics as N

    torch.set_default_dtype(torch.float64)
    sh = object.__new__(N.SurfaceHoppingDynamics)
    torch.nn.Module.__init__(sh)
    amp = torch.zeros(1, 3, 3)
    amp[0, :, 0] = torch.tensor([0.9, 0.2, 0.3873])
    sh.__dict__.update(_active_states=torch.tensor([1]), _amp_phase=amp, _hop_integral=torch.tensor([[[0.0, 0.07, 0.0], [-0.07, 0.0, 0.08], [0.0, -0.08, 0.0]]]), _scratch={}, _arange_cache={}, _eye_cache={})
    seen = {}
    real_cumsum = torch.cumsum

    def probe(x, dim):
        seen["g"] = x.detach().clone()
        return real_cumsum(x, dim)

    torch.cumsum = probe
    try:
        tgt = sh._attempt_hop()
    finally:
        torch.cumsum = real_cumsum
    g = seen["g"][0]
    bad = bool((g < 0).any() or (g > 1 + 1e-12).any() or g.sum() > 1 + 1e-12)
    return {"reproduced": bad, "hop_probabilities_used": g.tolist(), "row_sum": float(g.sum()), "active_state": 1, "population_of_active_state": 0.04, "hop_integral_row": [-0.07, 0.0, 0.08]}


def task_attempt_hop(ctx):
    """O2: every g_ij in [0,1], sum_j g_ij <= 1, g_ii = 0, target = first j with cumulative probability >= r, and the
    chosen target has positive probability."""
    fn = ctx.under_contract(SH + "._attempt_hop")
    n = 3 if ctx.tier == "quick" else 4
    rep = []

    def _run_quiet(f):
        try:
            return f({})
        except Exception as exc:  # noqa
            return {"reproduced": False, "error": repr(exc)[:300]}
    for active in range(n):
        cap = {}
        saved_cumsum = st.cumsum

        def probe(x, dim):
            cap["g"] = x.clone()
            return saved_cumsum(x, dim)

        def thunk():
            sh = _new_sh(n)
            sh._active_states = st.tensor([active])
            sh._amp_phase = st.symbolic((1, n, 3), "amp")
            h = st.symbolic((1, n, n), "H")
            for i in range(n):
                h.a[0, i, i] = S(0.0)  # precondition: zero diagonal (proved for _propagate_electronic in task flow)
            sh._hop_integral = h
            st.GHOST["rng_draws"].clear()
            st.cumsum = probe
            try:
                tgt = fn(sh)
            finally:
                st.cumsum = saved_cumsum
            return tgt, cap["g"].clone(), sh, list(st.GHOST["rng_draws"])

        ex = ctx.explore(thunk, name="_attempt_hop active=%d" % active, max_paths=600)
        for p in ex.paths:
            if p.raised is not None:
                ctx.fail("a=%d.raises@p%d" % (active, p.path_id), repr(p.raised) + p.notes.get("traceback", "")[-500:])
                continue
            tgt, g, sh, draws = p.value
            r = real("%s_0" % draws[0][1])
            pc = list(p.pc) + [r >= 0, r < 1]
            tag = "a=%d@p%d" % (active, p.path_id)
            gs = [g.a[0, j] for j in range(n)]
            for j in range(n):
                ctx.prove("%s.g[%d]-in-[0,1]" % (tag, j), (gs[j] >= 0) & (gs[j] <= 1), pc=pc, replay=lambda m_: (rep or rep.append(_run_quiet(replay_hop_probabilities)) or rep)[0])
            ctx.prove("%s.row-sum<=1" % tag, sum(gs) <= 1, pc=pc, replay=lambda m_: (rep or rep.append(_run_quiet(replay_hop_probabilities)) or rep)[0])
            ctx.prove("%s.g[active]=0" % tag, gs[active] == 0, pc=pc)
            t = int(tgt.a[0])
            if t >= 0:
                cum = [sum(gs[: j + 1]) for j in range(n)]
                # the draw lies in the closed cumulative interval of the target (its length is g_t); which end point is
                # included is a measure-zero convention the property does not fix
                ctx.prove("%s.draw-lies-in-the-cumulative-interval-of-the-target" % tag, (cum[t] >= r) & (S(True) if t == 0 else (cum[t - 1] <= r)), pc=pc)
                ctx.prove("%s.chosen-target-has-positive-probability" % tag, gs[t] > 0, pc=pc, replay=replay_zero_draw,
                          classify=lambda m, rp: "uniform-draw-exactly-zero")
            else:
                ctx.prove("%s.no-hop-means-draw-not-below-total" % tag, sum(gs) <= r, pc=pc)
    ctx.assume_note("A4: torch.rand returns a uniform draw in [0,1) (fresh symbol r with 0 <= r < 1); shape: %d states, one trajectory" % n)


def replay_zero_draw(model):
    """Real torch: torch.rand returning exactly 0.0 with all hop probabilities zero."""
    import torch
    import seqm.NonadiabaticDynamics as N

    sh = object.__new__(N.SurfaceHoppingDynamics)
    torch.nn.Module.__init__(sh)
    sh.__dict__.update(_nstates=3, _eye_cache={}, _arange_cache={})
    sh._active_states = torch.tensor([1])
    amp = torch.zeros(1, 3, 3, dtype=torch.float64)
    amp[0, 1, 0] = 1.0
    sh._amp_phase = amp
    sh._hop_integral = torch.zeros(1, 3, 3, dtype=torch.float64)
    saved = torch.rand
    N.torch.rand = lambda *a, **k: torch.zeros(a[0] if a else 1)
    try:
        tgt = sh._attempt_hop()
    finally:
        N.torch.rand = saved
    return {"reproduced": bool(int(tgt[0]) >= 0), "draw": 0.0, "all_hop_probabilities": 0.0, "active_state": 1, "chosen_target": int(tgt[0])}


def replay_rescale(model):
    """Real torch: downward hop (dE < 0) with v.d = 0 (e.g. from rest)."""
    import torch
    import seqm.NonadiabaticDynamics as N
    import seqm.MolecularDynamics as M

    torch.set_default_dtype(torch.float64)
    sh = object.__new__(N.SurfaceHoppingDynamics)
    torch.nn.Module.__init__(sh)
    mol = Obj(velocities=torch.zeros(1, 2, 3), mass_inverse=torch.tensor([[[1.0], [1.0 / 16.0]]]), mass=torch.tensor([[[1.0], [16.0]]]))
    nac = {(0, 1): torch.tensor([[[0.3, 0.1, 0.0], [-0.2, 0.05, 0.1]]])}
    dE = -0.3
    ke = lambda: float(0.5 * (mol.mass * mol.velocities ** 2).sum() * M.CONSTANTS.KINETIC_ENERGY_SCALE)
    k0 = ke()
    ok = sh._rescale_velocity_along_nac(nac, 1, 0, mol, dE, mol_index=0)
    k1 = ke()
    return {"reproduced": bool(ok and abs((k1 - k0) + dE) > 1e-9), "accepted": bool(ok), "dE_eV": dE, "kinetic_energy_change_eV": k1 - k0, "expected_change_eV": -dE, "v_dot_d": 0.0}


def task_rescale(ctx):
    """O3: accepted hop => dv along m^-1 d, kinetic energy changes by exactly -dE, smaller-|alpha| root; rejected => untouched."""
    fn = ctx.under_contract(SH + "._rescale_velocity_along_nac")
    import seqm.MolecularDynamics as M

    KES = Sym(E.const(E.frac_of_float(M.CONSTANTS.KINETIC_ENERGY_SCALE), E.R))
    for nat in (1, 2):
        def thunk():
            sh = _new_sh(2)
            mol = Obj()
            mol.velocities = st.symbolic((1, nat, 3), "v")
            minv = [real("minv%d" % i) for i in range(nat)]
            mol.mass_inverse = st.tensor([[[q] for q in minv]])
            for q in minv:
                assume(q > 0)
            dvec = st.symbolic((1, nat, 3), "d")
            v0 = mol.velocities.clone()
            dE = real("dE")
            ok = fn(sh, {(0, 1): dvec}, 0, 1, mol, dE, mol_index=0)
            return ok, mol, v0, dvec, minv, dE

        ex = ctx.explore(thunk, name="_rescale n=%d" % nat)
        kinds = set()
        for p in ex.paths:
            if p.raised is not None:
                ctx.fail("n=%d.raises@p%d" % (nat, p.path_id), repr(p.raised) + p.notes.get("traceback", "")[-500:])
                continue
            ok, mol, v0, dvec, minv, dE = p.value
            tag = "n=%d@p%d" % (nat, p.path_id)
            kinds.add(bool(ok))
            shape = "atoms=%d" % nat
            if not ok:
                for k, (a, b) in enumerate(zip(mol.velocities.a.reshape(-1), v0.a.reshape(-1))):
                    ctx.prove_eq("%s.rejected.velocities-untouched[%d]" % (tag, k), a, b, pc=p.pc, shape=shape)
                continue
            ke = lambda vel: KES * Fraction(1, 2) * sum((1 / minv[i]) * sum(vel.a[0, i, c] ** 2 for c in range(3)) for i in range(nat))
            ctx.prove("%s.accepted.kinetic-energy-changes-by-minus-dE" % tag, ke(mol.velocities) - ke(v0) == -dE, pc=p.pc, shape=shape,
                      replay=replay_rescale, classify=lambda m, rp: "v.d=0-and-dE<0 (sign(0)=0)" if abs(sum(model_float(m, "v_0_%d_%d" % (i, c)) * model_float(m, "d_0_%d_%d" % (i, c)) for i in range(nat) for c in range(3))) < 1e-12 else "other")
            # direction: dv_i = alpha * d_i / m_i with one common alpha
            dv = [[mol.velocities.a[0, i, c] - v0.a[0, i, c] for c in range(3)] for i in range(nat)]
            for i in range(nat):
                for c in range(3):
                    for i2 in range(nat):
                        for c2 in range(3):
                            if (i2, c2) <= (i, c):
                                continue
                            ctx.prove("%s.accepted.dv-parallel-to-minv*d[%d%d,%d%d]" % (tag, i, c, i2, c2),
                                      dv[i][c] * (dvec.a[0, i2, c2] * minv[i2]) == dv[i2][c2] * (dvec.a[0, i, c] * minv[i]), pc=p.pc, shape=shape)
        if kinds != {True, False}:
            ctx.error("n=%d.paths" % nat, "expected accepted and rejected paths, got %r" % kinds)
    ctx.assume_note("shape-bounded: 1 and 2 atoms; all real velocities, coupling vectors, inverse masses > 0 and energy differences")


def replay_hop_gap(model):
    """real _after_electronic_update, batch of two trajectories, only trajectory 1 draws a hop: the energy gap handed to the
    velocity rescale must be trajectory 1's own."""
    import torch
    import seqm.NonadiabaticDynamics as N

    torch.set_default_dtype(torch.float64)
    sh = object.__new__(N.SurfaceHoppingDynamics)
    torch.nn.Module.__init__(sh)
    sh.__dict__.update(_nstates=3, _eye_cache={}, _arange_cache={}, timestep=0.1, step_offset=0, hop_log=[], _decohere_on_hop=False, _trivial_crossing_mask=None, _hop_integral=None,
                       _current_potential=None, _tdc_method="hamiltonian_fd", post_hop_holdoff=torch.zeros(2, dtype=torch.long), prev_state=torch.full((2,), -1, dtype=torch.long))
    sh._active_states = torch.tensor([1, 2])
    sh._amp_phase = torch.rand(2, 3, 3)
    seen = {}
    sh._attempt_hop = lambda: torch.tensor([-1, 0])
    sh._compute_NACR_for_hop = lambda molecule, pairs: {"pairs": pairs}

    def rescale(nac_vec, i_state, j_state, molecule, dE, mol_index):
        seen["dE"], seen["mol"] = float(dE), int(mol_index)
        return False

    sh._rescale_velocity_along_nac = rescale
    sh._recompute_active_force = lambda molecule: None
    exc = torch.tensor([[0.0, 1.0, 5.0], [0.0, 2.0, 2.5]])
    mol = type("M", (), {})()
    mol.velocities = torch.zeros(2, 1, 3)
    mol.mass_inverse = torch.ones(2, 1, 1)
    mol.Etot = torch.zeros(2)
    mol.force = torch.zeros(2, 1, 3)
    mol.coordinates = torch.zeros(2, 1, 3)
    mol.species = torch.ones(2, 1, dtype=torch.long)
    mol.nmol = 2
    try:
        sh._after_electronic_update(mol, excitation_energies=exc, step=0)
    except Exception as exc_:  # noqa
        return {"reproduced": False, "error": repr(exc_)[:200]}
    want = float(exc[1, 0] - exc[1, 2])
    return {"reproduced": bool(seen and abs(seen.get("dE", want) - want) > 1e-12), "gap_handed_over_eV": seen.get("dE"), "trajectory": seen.get("mol"), "its_own_gap_eV": want,
            "other_trajectory_gap_eV": float(exc[0, 0] - exc[0, 2])}


def task_relabel(ctx):
    """O4: trivial-crossing relabelling is a permutation of amplitudes and active index (for every permutation handed over
    by _detect_crossings); frustrated hops keep state and velocities; potential bookkeeping E' = E - w_old + w_new."""
    fn = ctx.under_contract(SH + "._after_electronic_update", stubs=["_attempt_hop", "_compute_NACR_for_hop", "_rescale_velocity_along_nac", "_recompute_active_force"])
    n = 3 if ctx.tier == "quick" else 4
    for perm in itertools.permutations(range(n)):
        for active in range(n):
            def thunk():
                sh = _new_sh(n)
                sh._active_states = st.tensor([active])
                sh._amp_phase = st.symbolic((1, n, 3), "amp")
                amp0 = sh._amp_phase.clone()
                sh._trivial_crossing_mask = st.tensor([list(perm)])
                mol = ghost_molecule(0)
                mol.Etot = st.symbolic((1,), "Etot")
                E0 = mol.Etot.clone()
                exc = st.symbolic((1, n), "w")
                sh._recomputed = 0
                fn(sh, mol, exc)
                return sh, amp0, mol, E0, exc

            stubs = {SH + "._attempt_hop": lambda self: st.full((1,), -1, dtype=st.int64),
                     SH + "._recompute_active_force": lambda self, molecule: setattr(self, "_recomputed", self._recomputed + 1)}
            ex = ctx.explore(thunk, stubs=stubs, name="relabel")
            for p in ex.paths:
                tag = "perm=%s,active=%d" % ("".join(map(str, perm)), active)
                if p.raised is not None:
                    ctx.fail(tag + ".raises", repr(p.raised) + p.notes.get("traceback", "")[-500:])
                    continue
                sh, amp0, mol, E0, exc = p.value
                goal = []
                for i in range(n):
                    for c in range(3):
                        goal.append(E.eq(sh._amp_phase.a[0, perm[i], c].n, amp0.a[0, i, c].n))
                ctx.prove(tag + ".amplitudes-permuted", E.and_(*goal), pc=p.pc, shape="states=3")
                ctx.prove(tag + ".active-index-permuted", E.const(int(sh._active_states.a[0]) == perm[active]), pc=p.pc)
                ctx.prove_eq(tag + ".potential=E-w_old+w_new", mol.Etot.a[0], E0.a[0] - exc.a[0, active] + exc.a[0, perm[active]], pc=p.pc)
                ctx.prove(tag + ".force-recomputed-iff-active-relabelled", E.const((sh._recomputed == 1) == (perm[active] != active)), pc=p.pc)

    # frustrated / accepted stochastic hop, two trajectories: isolation, and the callee gets the hopping trajectory's own gap
    for hops in ((0, -1), (-1, 0), (0, 1)):
        for accept in (True, False):
            calls = []

            def thunk():
                del calls[:]
                sh = _new_sh(n, nmol=2)
                sh._active_states = st.tensor([1, 2])
                sh._amp_phase = st.symbolic((2, n, 3), "amp")
                amp0 = sh._amp_phase.clone()
                mol = ghost_molecule(0)
                mol.velocities = st.symbolic((2, 1, 3), "v")
                mol.mass_inverse = st.tensor([[[real("mi0")]], [[real("mi1")]]])
                v0 = mol.velocities.clone()
                mol.Etot = st.symbolic((2,), "Etot")
                E0 = mol.Etot.clone()
                mol.force = st.symbolic((2, 1, 3), "F")
                exc = st.symbolic((2, n), "w")
                sh._recomputed = 0
                fn(sh, mol, exc)
                return sh, amp0, mol, v0, E0, exc, list(calls)

            def rescale_stub(self, nac_vec, i_state, j_state, molecule, dE, mol_index):
                calls.append(dict(i=i_state, j=j_state, dE=dE, mol=mol_index))
                if accept:
                    molecule.velocities[mol_index] = molecule.velocities[mol_index] + st.symbolic((1, 3), "dv%d" % int(mol_index))
                return accept

            stubs = {SH + "._attempt_hop": lambda self: st.tensor(list(hops)),
                     SH + "._compute_NACR_for_hop": lambda self, molecule, pairs: {"pairs": pairs},
                     SH + "._rescale_velocity_along_nac": rescale_stub,
                     SH + "._recompute_active_force": lambda self, molecule: setattr(self, "_recomputed", self._recomputed + 1)}
            ex = ctx.explore(thunk, stubs=stubs, name="hop %r accept=%s" % (hops, accept))
            old = [1, 2]
            for p in ex.paths:
                tag = "hop[%s].%s" % (",".join(str(h) for h in hops), "accepted" if accept else "frustrated")
                if p.raised is not None:
                    ctx.fail(tag + ".raises", repr(p.raised) + p.notes.get("traceback", "")[-500:])
                    continue
                sh, amp0, mol, v0, E0, exc, cl = p.value
                new_active = [int(x) for x in sh._active_states.a]
                want_active = [(hops[m] if (accept and hops[m] >= 0) else old[m]) for m in range(2)]
                ctx.prove(tag + ".active-states", E.const(new_active == want_active))
                hopping = [m for m in range(2) if hops[m] >= 0]
                ctx.prove(tag + ".one-rescale-call-per-hopping-trajectory", E.const(sorted(int(c["mol"]) for c in cl) == hopping))
                for c in cl:
                    m = int(c["mol"])
                    ctx.prove(tag + ".traj%d.states-handed-to-the-rescale-are-its-own" % m, E.const(int(c["i"]) == old[m] and int(c["j"]) == hops[m]))
                    ctx.prove_eq(tag + ".traj%d.energy-gap-handed-to-the-rescale-is-its-own" % m, S(c["dE"]), exc.a[m, hops[m]] - exc.a[m, old[m]], pc=p.pc,
                                 replay=replay_hop_gap, classify=lambda m_, r: "gap-of-another-trajectory")
                for m in range(2):
                    if hops[m] < 0:
                        same = E.and_(*[E.eq(a.n, b.n) for a, b in zip(mol.velocities.a[m].reshape(-1), v0.a[m].reshape(-1))],
                                      *[E.eq(a.n, b.n) for a, b in zip(sh._amp_phase.a[m].reshape(-1), amp0.a[m].reshape(-1))])
                        ctx.prove(tag + ".traj%d.not-hopping-trajectory-untouched" % m, same, pc=p.pc, shape="batch=2")
                        ctx.prove_eq(tag + ".traj%d.not-hopping-trajectory-potential" % m, mol.Etot.a[m], E0.a[m], pc=p.pc)
                    elif not accept:
                        same0 = E.and_(*[E.eq(a.n, b.n) for a, b in zip(mol.velocities.a[m].reshape(-1), v0.a[m].reshape(-1))])
                        ctx.prove(tag + ".traj%d.velocities-untouched" % m, same0, pc=p.pc)
                        ctx.prove_eq(tag + ".traj%d.potential-unchanged" % m, mol.Etot.a[m], E0.a[m], pc=p.pc)
                    else:
                        ctx.prove_eq(tag + ".traj%d.potential=E-w_old+w_new" % m, mol.Etot.a[m], E0.a[m] - exc.a[m, old[m]] + exc.a[m, hops[m]], pc=p.pc)
                ctx.prove(tag + ".force-recomputed-iff-accepted", E.const((sh._recomputed >= 1) == (accept and bool(hopping))))
    ctx.assume_note("precondition of the relabel clause: the map handed over by _detect_crossings is a permutation (all 6 permutations of 3 states are checked); that _detect_crossings always returns one (Hungarian assignment, scipy) is not decided")
    ctx.undecided_clause("Hungarian assignment in _detect_crossings (scipy) and the 3-cycle question")


def task_scratch_buffers(ctx):
    """Scratch buffers handed out by _get_tensor carry no state from earlier calls: with a fill value every entry equals it,
    whatever was left in a cached buffer by an earlier trajectory / step (per-trajectory isolation, permutation precondition)."""
    import seqm.NonadiabaticDynamics as N

    fn = ctx.under_contract(NAD + ":NonadiabaticDynamicsBase._get_tensor")
    for fill, dt in ((-1, st.int64), (0, st.float64), (False, st.bool)):
        def thunk():
            cache = {}
            t1 = fn(cache, ("k",), (2, 3), st._CPU, dt, fill_value=fill)
            # an earlier step / another trajectory leaves arbitrary content behind
            if dt == st.float64:
                t1.a[...] = st.symbolic((2, 3), "junk").a
            elif dt == st.int64:
                t1.a[...] = 7
            else:
                t1.a[...] = True
            t2 = fn(cache, ("k",), (2, 3), st._CPU, dt, fill_value=fill)
            t3 = fn(cache, ("k",), (2, 2), st._CPU, dt, fill_value=fill)
            return t2, t3

        ex = ctx.explore(thunk, name="_get_tensor")
        for p in ex.paths:
            if p.raised is not None:
                ctx.fail("fill=%r.raises" % (fill,), repr(p.raised) + p.notes.get("traceback", "")[-400:])
                continue
            t2, t3 = p.value
            for nm, t in (("reused", t2), ("reshaped", t3)):
                vals = [v for v in t.a.reshape(-1)]
                good = all((v.n.op == "const" and v.n.val == fill) if isinstance(v, Sym) else (v == fill) for v in vals)
                if good:
                    ctx.ok("fill=%r.%s-buffer-is-reset" % (fill, nm), "path-exploration")
                else:
                    ctx.fail("fill=%r.%s-buffer-is-reset" % (fill, nm), "a cached scratch buffer is handed out with stale content: %r" % (vals[:3],),
                             replay=replay_stale_buffer({}), witness_class="stale-scratch-buffer")


def replay_stale_buffer(model):
    import torch
    import seqm.NonadiabaticDynamics as N

    cache = {}
    f = N.NonadiabaticDynamicsBase._get_tensor
    t = f(cache, ("k",), (2, 3), torch.device("cpu"), torch.long, fill_value=-1)
    t[0, 1] = 2
    t2 = f(cache, ("k",), (2, 3), torch.device("cpu"), torch.long, fill_value=-1)
    return {"reproduced": bool((t2 != -1).any()), "second_call_returns": t2.tolist()}


def replay_three_cycle(model):
    """Real code, real Hungarian assignment: three states whose CIS vectors are cyclically exchanged in one step."""
    import torch
    import seqm.NonadiabaticDynamics as N

    torch.set_default_dtype(torch.float64)
    sh = object.__new__(N.SurfaceHoppingDynamics)
    torch.nn.Module.__init__(sh)
    sh.__dict__.update(_nstates=3, _eye_cache={}, _arange_cache={}, _detect_crossings_flag=True, _trivial_swap_buffers={}, _trivial_zero_buffers={}, _perm_cost_buffers={},
                       post_hop_holdoff=torch.zeros(1, dtype=torch.long), prev_state=torch.full((1,), -1), _active_states=torch.tensor([0]))
    ref = torch.eye(3).reshape(1, 3, 3)
    tgt = ref[:, [2, 0, 1], :]  # new state j is old state j-1 (cyclic)
    try:
        swap = sh._detect_crossings({"cis_amp": ref, "nac_dot": None}, {"cis_amp": tgt, "nac_dot": None})
    except Exception as exc:  # noqa
        return {"reproduced": False, "error": repr(exc)[:300]}
    if swap is None:
        return {"reproduced": False, "swap_to": None}
    row = swap[0].tolist()
    defined = [i for i in range(3) if row[i] >= 0]
    is_perm = sorted(row[i] for i in defined) == sorted(defined)
    return {"reproduced": not is_perm, "swap_to": row, "note": "rows must be a permutation of the states they mention"}


def task_crossing_detection(ctx):
    """The relabelling map built by _detect_crossings is a permutation (every state in at most one swap pair) for every
    assignment returned by the (stubbed, arbitrary) Hungarian step -- the precondition of the relabel clause."""
    fn = ctx.under_contract(NAD + ":NonadiabaticDynamicsBase._detect_crossings", stubs=["_compute_perm_from_overlap (scipy Hungarian: arbitrary permutation in the window)"])
    n = 3 if ctx.tier == "quick" else 4
    for perm in itertools.permutations(range(n)):
        def thunk():
            sh = _new_sh(n)
            sh.__dict__.update(_detect_crossings_flag=True, _trivial_swap_buffers={}, _trivial_zero_buffers={}, _active_states=st.tensor([0]))
            ov = st.symbolic((1, n, n), "ov")
            for v in ov.a.reshape(-1):
                assume((v >= 0) & (v <= 1))
            saved = (st.einsum, st.abs)
            st.einsum = lambda eq, a, b: ov
            try:
                out = fn(sh, {"cis_amp": st.zeros(1, n, 2), "nac_dot": None}, {"cis_amp": st.zeros(1, n, 2), "nac_dot": None})
            finally:
                st.einsum = saved[0]
            return out

        stubs = {NAD + ":NonadiabaticDynamicsBase._compute_perm_from_overlap": lambda self, ovn, tgt=None: st.tensor([list(perm)] * ovn.shape[0])}
        ex = ctx.explore(thunk, stubs=stubs, name="_detect_crossings", max_paths=2000)
        tag = "perm=%s" % "".join(map(str, perm))
        for p in ex.paths:
            if p.raised is not None:
                ctx.fail(tag + ".raises@p%d" % p.path_id, repr(p.raised) + p.notes.get("traceback", "")[-500:])
                continue
            sw = p.value
            if sw is None:
                continue
            row = [int(v) for v in sw.a[0]]
            defined = [i for i in range(n) if row[i] >= 0]
            is_perm = sorted(row[i] for i in defined) == sorted(defined)
            if is_perm:
                ctx.ok(tag + ".swap-map-is-a-permutation@p%d" % p.path_id, "path-exploration", detail=str(row))
            else:
                # the path condition must be satisfiable by overlaps of an orthogonal transformation to matter physically
                ctx.prove(tag + ".swap-map-is-a-permutation@p%d" % p.path_id, E.FALSE, pc=p.pc, replay=replay_three_cycle, classify=lambda m, r: "three-cycle-assignment")
    ctx.assume_note("the Hungarian assignment is an arbitrary permutation (all 6 of 3 states); overlaps are arbitrary numbers in [0,1]")


def _crossing_rows_grid():
    """real _detect_crossings on real torch: every trajectory of a two-trajectory batch against the same trajectory alone, over a
    grid of (holdoff, previous state, active state, overlap pattern) per trajectory; returns the list of differences."""
    import itertools
    import torch
    import seqm.NonadiabaticDynamics as N

    torch.set_default_dtype(torch.float64)
    n = 3

    def overlap_amp(kind):
        # previous amplitudes = identity rows; current amplitudes: none / states 1<->2 exchanged / states 0<->1 exchanged
        ref = torch.eye(n)
        tgt = torch.eye(n)
        if kind == "swap12":
            tgt = tgt[[0, 2, 1]]
        elif kind == "swap01":
            tgt = tgt[[1, 0, 2]]
        return ref, tgt

    def make(trajs):
        sh = object.__new__(N.SurfaceHoppingDynamics)
        torch.nn.Module.__init__(sh)
        m = len(trajs)
        refs, tgts = zip(*[overlap_amp(t["ov"]) for t in trajs])
        sh.__dict__.update(_nstates=n, _eye_cache={}, _arange_cache={}, _detect_crossings_flag=True, _trivial_swap_buffers={}, _trivial_zero_buffers={}, _perm_cost_buffers={},
                           _active_states=torch.tensor([t["active"] for t in trajs]), post_hop_holdoff=torch.tensor([t["hold"] for t in trajs]), prev_state=torch.tensor([t["prev"] for t in trajs]))
        co = {"cis_amp": torch.stack(refs), "nac_dot": torch.ones(m, n, n)}
        cn = {"cis_amp": torch.stack(tgts), "nac_dot": torch.ones(m, n, n)}
        sw = sh._detect_crossings(co, cn)
        rows = []
        for k in range(m):
            rows.append({"swap": (sw[k].tolist() if sw is not None else [-1] * n), "nac_new": cn["nac_dot"][k].tolist(), "nac_old": co["nac_dot"][k].tolist(), "holdoff": int(sh.post_hop_holdoff[k])})
        return rows

    configs = [dict(hold=h, prev=pv, active=a, ov=o) for h, pv in ((0, -1), (2, 2), (2, 0)) for a in (1,) for o in ("none", "swap12", "swap01")]
    diffs, count = [], 0
    for t0, t1 in itertools.product(configs, configs):
        batch = make([t0, t1])
        alone = [make([t0])[0], make([t1])[0]]
        count += 1
        for k in range(2):
            if batch[k] != alone[k]:
                diffs.append({"trajectory": k, "batch": [t0, t1], "in_batch": batch[k], "alone": alone[k]})
    return count, diffs


def replay_crossing_rows(model):
    count, diffs = _crossing_rows_grid()
    return {"reproduced": bool(diffs), "two-trajectory batches compared": count, "first differences": diffs[:2]}


def task_crossing_rows(ctx):
    """BOUNDED (run-time contract on the real _detect_crossings, real torch and the real assignment step): in a batch of two
    trajectories every trajectory gets the swap table row, the zeroed couplings and the holdoff it gets alone -- over a grid of 81
    batches (holdoff / previous state / overlap pattern per trajectory: no crossing, states 1<->2 exchanged, states 0<->1
    exchanged; in holdoff with and without a matching previous state).  The index lists of the 'probe' and 'detect' groups differ
    exactly when one trajectory is in holdoff and the other is not."""
    ctx.under_contract(NAD + ":NonadiabaticDynamicsBase._detect_crossings", note="run-time contract on a grid of two-trajectory batches (bounded)")
    count, diffs = _crossing_rows_grid()
    if count < 50:
        ctx.error("crossing_rows.grid", "grid too small: %d" % count)
    name = "crossing_rows.every-trajectory-of-a-batch-gets-what-it-gets-alone"
    if diffs:
        ctx.fail(name, "%d of %d batches differ; first: %r" % (len({str(d["batch"]) for d in diffs}), count, diffs[0]), replay={"reproduced": True, "first differences": diffs[:2], "two-trajectory batches compared": count},
                 witness_class="crossing-bookkeeping-applied-to-another-trajectory", backend="bounded:runtime-contract")
    else:
        ctx.ok(name, "bounded:runtime-contract", detail="%d two-trajectory batches, both trajectories compared with their single-trajectory runs" % count)
    ctx.bounded.append({"what": "trivial-crossing bookkeeping per trajectory", "bound": "81 two-trajectory batches of 3 states with exact (0/1) overlaps", "why_not_proved": "the assignment step (scipy) and data-dependent index lists are outside the symbolic shim; the symbolic task crossing_detection covers one trajectory with arbitrary overlaps"})


TASKS_QUICK = ["flow", "attempt_hop", "rescale", "relabel", "scratch_buffers", "crossing_detection", "crossing_rows"]
TASKS_THOROUGH = TASKS_QUICK
