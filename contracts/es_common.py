"""Shared harness for the electronic-structure layer contracts (C03, C05, C06, C14, C18, C19).

A symbolic two-molecule batch  [O-H , H-H]  (molsize 2) or [O-H-H, H-H + one padding slot] with every continuous
quantity symbolic; integer index structure is concrete (it comes from the species, which are concrete)."""
from fractions import Fraction

import numpy as np

from pyvc.api import *
from pyvc import symtorch as st, expr as E
from contracts.md_common import Obj

BAS = "seqm.basics"


def tore_table():
    t = st.zeros(10)
    for z, v in ((1, 1), (6, 4), (7, 5), (8, 6)):
        t.a[z] = real("tore%d" % z)
    return t


def batch_description(padded=False, species=None):
    """Index structure of a batch as Parser.forward would produce it (proved for the real parser in C05/C19 tasks)."""
    if species is not None:
        species = [list(r) for r in species]
    elif not padded:
        species = [[8, 1], [1, 1]]
    else:
        species = [[8, 1, 1], [1, 1, 0]]
    nmol, molsize = len(species), len(species[0])
    flat = [(m, i, z) for m in range(nmol) for i, z in enumerate(species[m]) if z > 0]
    Z = [z for _, _, z in flat]
    atom_molid = [m for m, _, _ in flat]
    pairs = [(a, b) for a in range(len(flat)) for b in range(a + 1, len(flat)) if flat[a][0] == flat[b][0]]
    d = Obj()
    d.species = st.tensor(species)
    d.nmol, d.molsize = nmol, molsize
    d.Z = st.tensor(Z)
    d.atom_molid = st.tensor(atom_molid)
    d.idxi = st.tensor([a for a, _ in pairs])
    d.idxj = st.tensor([b for _, b in pairs])
    d.ni = st.tensor([Z[a] for a, _ in pairs])
    d.nj = st.tensor([Z[b] for _, b in pairs])
    d.pair_molid = st.tensor([flat[a][0] for a, _ in pairs])
    d.flat = flat
    d.pairs = pairs
    # mask / maskd: block indices into the (nmol*molsize*molsize) block list
    d.maskd = st.tensor([m * molsize * molsize + i * molsize + i for m, i, _ in flat])
    d.mask = st.tensor([flat[a][0] * molsize * molsize + flat[a][1] * molsize + flat[b][1] for a, b in pairs])
    d.norb = st.tensor([sum(4 if z > 1 else 1 for z in row if z > 0) for row in species])
    d.nocc = st.tensor([max(1, sum({8: 6, 7: 5, 6: 4, 1: 1}[z] for z in row if z > 0) // 2) for row in species])
    return d


def ghost_es_molecule(padded=False, prefix="", species=None):
    d = batch_description(padded, species)
    mol = Obj()
    for k, v in d.__dict__.items():
        setattr(mol, k, v)
    npairs, natoms = len(d.pairs), len(d.flat)
    mol.coordinates = st.symbolic((d.nmol, d.molsize, 3), prefix + "x")
    mol.rij = st.symbolic((npairs,), prefix + "rij")
    mol.xij = st.symbolic((npairs, 3), prefix + "xij")
    mol.const = Obj(tore=tore_table(), eheat=st.tensor([0.0] + [Sym(E.var("eheat%d" % z, E.R)) for z in range(1, 10)]), do_timing=False,
                    timing={"Force": []})
    mol.active_state = 0
    mol.method = "AM1"
    mol.alp = None
    mol.chi = None
    mol.verbose = False
    names = ["U_ss", "U_pp", "g_ss", "g_pp", "g_sp", "g_p2", "h_sp", "alpha", "zeta_s", "zeta_p", "beta"]
    mol.parameters = {n: st.symbolic((natoms,), prefix + n) for n in names}
    for i in range(1, 5):
        for q in "KLM":
            mol.parameters["Gaussian%d_%s" % (i, q)] = st.symbolic((natoms,), prefix + "G%d%s" % (i, q))
    mol.molecular_orbitals = None
    mol.cis_amplitudes = None
    return mol
