"""C07 -- differentiability in coordinates and parameters: hand-written backward functions and parameter plumbing.

Functions under contract: cal_par.additive_term_rho1.backward, additive_term_rho2.backward (against the implicit-function
derivative of the defining equation that their own forward iterates on), Energy._prepare_molecule_inputs / Molecule.__init__
(learned tensors reach molecule.parameters by identity), Pack_Parameters.forward (never overwrites a learned key)."""
import ast
import inspect
import textwrap
from fractions import Fraction

import numpy as np

from pyvc.api import *
from pyvc import symtorch as st, expr as E, world as W
from contracts.md_common import Obj

CP = "seqm.seqm_functions.cal_par"


def _residual_from_forward(cls, varname, argname, dname):
    """The expression the secant loop of `forward` evaluates (e.g. `hsp1 = 0.5*d1 - ...`), compiled as a function of (d, D)."""
    tree = ast.parse(textwrap.dedent(inspect.getsource(cls.forward)))
    for n in ast.walk(tree):
        if isinstance(n, ast.Assign) and isinstance(n.targets[0], ast.Name) and n.targets[0].id == varname:
            src = ast.unparse(n.value)
            code = compile(ast.Expression(n.value), "<residual of %s.forward>" % cls.__name__, "eval")
            return lambda d, D: eval(code, {"torch": st, argname: d, dname: D}), src
    raise Unmodelled("contract anchor not found: %s = ... in %s.forward" % (varname, cls.__name__))


class _StopAtLoop(Exception):
    pass


def _target_from_forward(ctx, which, cls, varname, constants):
    """The value the secant loop of `forward` solves for, as a function of forward's first input: the real prologue of forward
    (everything before `for i in range(1, 6)`) is executed on a symbolic input and the loop-entry value of the variable that
    the secant formula compares the residual with (`(X - hsp1)`) is captured.  One entry per prologue path."""
    tree = ast.parse(textwrap.dedent(inspect.getsource(cls.forward)))
    target_name = None
    for n in ast.walk(tree):
        if isinstance(n, ast.BinOp) and isinstance(n.op, ast.Sub) and isinstance(n.right, ast.Name) and n.right.id == varname and isinstance(n.left, ast.Name):
            target_name = n.left.id
    if target_name is None:
        raise Unmodelled("contract anchor not found: secant target `X - %s` in %s.forward" % (varname, which))
    env = {}

    class Capture(W.LoopContract):
        def enter(self, L, it):
            env["L"] = L
            raise _StopAtLoop()

    fwd = W.recompile("%s:%s.forward" % (CP, which), loops={0: ("range(1, 6)", Capture())})
    h_in, D = real("h_in"), real("D")

    def thunk():
        assume(D > 0)
        c = Obj(save_for_backward=lambda *a: None)
        try:
            fwd(c, st.tensor([h_in]), st.tensor([D]))
        except _StopAtLoop:
            pass
        return env["L"][target_name].a[0]

    ex = ctx.explore(thunk, constants=constants, name=which + ".forward[prologue]")
    out = []
    for p in ex.paths:
        if p.raised is not None:
            raise Unmodelled("prologue of %s.forward raised %r %s" % (which, p.raised, p.notes.get("traceback", "")[-400:]))
        out.append((p.pc, p.value))
    return target_name, out


def replay_backward(which):
    def rp(model):
        import torch
        import seqm.seqm_functions.cal_par as C

        torch.set_default_dtype(torch.float64)
        fn = getattr(C, which).apply
        rows, bad = [], False
        hs = [3.0, 0.05] if which.endswith("1") else [0.9, 0.05]
        if "h_in" in (model or {}):
            hs.insert(0, model_float(model, "h_in"))
        for h0 in hs:
            h = torch.tensor([h0], requires_grad=True)
            D = torch.tensor([0.8], requires_grad=True)
            rho = fn(h, D)
            g_h, g_D = torch.autograd.grad(rho.sum(), (h, D))
            d = 1e-6
            with torch.no_grad():
                fd_h = float((fn(h + d, D) - fn(h - d, D)) / (2 * d))
                fd_D = float((fn(h, D + d) - fn(h, D - d)) / (2 * d))
            if not all(abs(v) < 1e300 for v in (float(g_h), fd_h, float(g_D), fd_D)):
                continue
            b = abs(float(g_h) - fd_h) > 1e-5 * max(1, abs(fd_h)) or abs(float(g_D) - fd_D) > 1e-5 * max(1, abs(fd_D))
            bad = bad or b
            rows.append({"h_eV": h0, "D": 0.8, "autograd_d_rho/d_h": float(g_h), "central_difference": fd_h, "product (1.0 = reciprocal)": float(g_h) * fd_h,
                         "autograd_d_rho/d_D": float(g_D), "central_difference_D": fd_D, "differs": bool(b)})
        return {"reproduced": bool(bad), "function": which, "rows": rows}
    return rp


def task_additive_term_backward(ctx):
    """O1: backward returns grad * d(rho)/d(h) and grad * d(rho)/d(D), where rho(h, D) is defined implicitly by the equation
    the forward pass solves (residual read from the forward source)."""
    import seqm.seqm_functions.cal_par as C

    ev = real("ev")
    for which, var, arg in (("additive_term_rho1", "hsp1", "d1"), ("additive_term_rho2", "hpp1", "q1")):
        cls = getattr(C, which)
        ctx.under_contract("%s:%s.backward" % (CP, which))
        ctx.under_contract("%s:%s.forward" % (CP, which), note="only the residual expression `%s = ...` of the secant loop is used (extracted from the source on every run)" % var)
        resid, src = _residual_from_forward(cls, var, arg, "D1" if which.endswith("1") else "D2")
        rho, D, g = real("rho"), real("D"), real("g")
        f = resid(st.tensor([1 / (2 * rho)]), st.tensor([D])).a[0]  # residual in atomic units as a function of rho = 1/(2d)
        # defining equation: f(rho, D) = T(h_in), T = the value forward's prologue hands to the secant loop (h_in/ev on this tree)
        #   =>   d rho/d h_in = T'(h_in)/f_rho,  d rho/d D = -f_D/f_rho
        f_rho, f_D = Sym(E.diff(f.n, rho.n)), Sym(E.diff(f.n, D.n))
        tname, targets = _target_from_forward(ctx, which, cls, var, {"ev": ev})
        want_D = -g * f_D / f_rho

        def thunk():
            c = Obj(saved_tensors=(st.tensor([rho]), st.tensor([D])))
            return cls.backward(c, st.tensor([g]))

        ex = ctx.explore(thunk, constants={"ev": ev}, name=which + ".backward")
        if len(ex.paths) != 1 or ex.paths[0].raised is not None:
            ctx.error(which + ".paths", "%r %s" % ([p.raised for p in ex.paths], ex.paths[0].notes.get("traceback", "")[-500:] if ex.paths else ""))
            continue
        gh, gD = ex.paths[0].value
        env = {"_positive": True}
        for k, (pc_t, T) in enumerate(targets):
            dT = Sym(E.diff(E.node_of(T), real("h_in").n))
            ctx.prove_eq(which + ".grad_h = g * d(rho)/d(h) (implicit function theorem)@prologue-path%d" % k, gh.a[0], g * dT / f_rho, pc=list(pc_t) + [ev > 0],
                         replay=replay_backward(which), numeric_env=env, classify=lambda m, r: "backward-is-not-the-derivative-of-forward")
        ctx.notes.append("%s: secant target `%s` at loop entry on %d prologue path(s): %s" % (which, tname, len(targets), "; ".join(E.to_str(E.node_of(T), 80) for _, T in targets)))
        ctx.prove_eq(which + ".grad_D = g * d(rho)/d(D) (implicit function theorem)", gD.a[0], want_D, replay=replay_backward(which), numeric_env=env,
                     classify=lambda m, r: "reciprocal-derivative")
        ctx.notes.append("%s residual: %s" % (which, src))
    ctx.canary_eq("reciprocal-is-not-the-derivative", real("x"), 1 / real("x"))
    ctx.assume_note("the forward secant iteration reaches a root of its residual (not decided); ev as a named symbol")


def replay_aliasing(model):
    import torch
    from seqm.seqm_functions.constants import Constants
    from seqm.Molecule import Molecule
    from seqm.basics import Energy

    torch.set_default_dtype(torch.float64)
    out = {}
    for kind in ("leaf", "non-leaf"):
        params = {"method": "AM1", "scf_eps": 1e-8, "scf_converger": [2, 0.0], "sp2": [False, 1e-5], "elements": [0, 1, 8], "learned": ["U_ss"], "pair_outer_cutoff": 1e10, "eig": True}
        base = torch.tensor([-97.83, -11.396, -11.396], requires_grad=True)
        uss = base if kind == "leaf" else base * 1.0
        try:
            mol = Molecule(Constants(), params, torch.tensor([[[0.0, 0, 0], [0.96, 0.0, 0.0], [-0.24, 0.93, 0.0]]]), torch.tensor([[8, 1, 1]]), learned_parameters={"U_ss": uss})
            res = Energy(params)(mol, learned_parameters={"U_ss": uss}, all_terms=True)
            res[1].sum().backward()
            out[kind] = {"same_object": bool(mol.parameters["U_ss"] is uss), "caller_grad_is_none": base.grad is None}
        except Exception as exc:  # noqa
            out[kind] = {"raised": repr(exc)[:160]}
    bad = any(("raised" in v) or v.get("caller_grad_is_none") for v in out.values())
    return {"reproduced": bool(bad), **out}


def task_parameter_aliasing(ctx):
    """O2/O3: every learned tensor reaches molecule.parameters by identity (so gradients reach the caller's tensor and
    network outputs are accepted); Pack_Parameters.forward never overwrites a learned key."""
    import seqm.basics as B
    import torch as rt

    fn = ctx.under_contract("seqm.basics:Energy._prepare_molecule_inputs", stubs=["parser", "packpar (real forward, table stubbed)"])
    ctx.under_contract("seqm.basics:Pack_Parameters.forward")

    def thunk():
        en = object.__new__(B.Energy)
        rt.nn.Module.__init__(en)
        pk = object.__new__(B.Pack_Parameters)
        rt.nn.Module.__init__(pk)
        required = ["U_pp", "zeta_s", "zeta_p", "beta_s", "beta_p"]
        pk.__dict__.update(required_list=required, nrp=len(required), p=st.symbolic((9, len(required)), "tab"), alpha=st.zeros(1), chi=st.zeros(1))
        en.__dict__.update(md=False, method="AM1", parser=lambda molecule, method, *a, **k: tuple(range(17)), packpar=pk)
        mol = Obj(method="AM1")
        uss = st.symbolic((3,), "Uss_learned")
        learned = {"U_ss": uss}
        try:
            fn(en, mol, learned)
        except Exception as exc:  # the tail of the function builds derived entries from keys this fixture does not provide
            if not hasattr(mol, "parameters"):
                raise
        return mol, uss, learned, required

    ex = ctx.explore(thunk, name="_prepare_molecule_inputs")
    for p in ex.paths:
        if p.raised is not None:
            ctx.fail("raises@p%d" % p.path_id, repr(p.raised) + p.notes.get("traceback", "")[-600:])
            continue
        mol, uss, learned, required = p.value
        same = mol.parameters.get("U_ss") is uss
        if same:
            ctx.ok("learned-tensor-reaches-molecule.parameters-by-identity", "heap-identity")
        else:
            ctx.fail("learned-tensor-reaches-molecule.parameters-by-identity",
                     "molecule.parameters['U_ss'] is a copy of the caller's tensor (copy.deepcopy): reverse-mode gradients stop at the copy and a non-leaf tensor cannot be deep-copied",
                     replay=_quiet(replay_aliasing), witness_class="deepcopy-of-learned-parameters", backend="heap-identity")
        ctx.prove("packpar-never-overwrites-a-learned-key", E.const("U_ss" not in required and all(k in mol.parameters for k in required)))
        ctx.prove("caller-dict-is-not-extended-with-derived-entries", E.const(set(learned) <= {"U_ss"} | set(required)))
    ctx.undecided_clause("the implicit SCF adjoint (SCF.backward), degen_symeig.backward, Hessian symmetry; second-order/unrolled mode is covered only structurally")


def replay_scf_adjoint(model):
    """real code, scf_backward=1: reverse-mode derivative of the HOMO-LUMO gap and an atomic charge of AM1 formaldehyde with
    respect to each learned one-centre two-electron parameter of the oxygen atom, against central differences."""
    import torch
    from seqm.basics import Energy, Pack_Parameters
    from seqm.Molecule import Molecule
    from seqm.seqm_functions.constants import Constants

    torch.set_default_dtype(torch.float64)
    species = torch.tensor([[8, 6, 1, 1]])
    coords = torch.tensor([[[0.0, 0, 0], [1.22, 0.03, 0], [1.82, 0.94, 0.05], [1.82, -0.94, 0]]])

    def outs(learned, mode):
        params = {"method": "AM1", "scf_eps": 1e-11, "scf_converger": [2], "sp2": [False, 1e-5], "learned": list(learned.keys()), "pair_outer_cutoff": 1e10, "eig": True,
                  "scf_backward": mode, "scf_backward_eps": 1e-12}
        mol = Molecule(Constants(), params, coords.clone(), species, learned_parameters=dict(learned))
        mol.verbose = False
        out = Energy(params)(mol, learned_parameters=dict(learned), all_terms=True)
        return {"gap": out[6].reshape(-1)[0], "q(O)": out[9].reshape(-1)[0]}

    Z = species.reshape(-1)
    rows, bad = [], False
    for name in ("g_ss", "g_pp", "g_p2", "h_sp", "g_sp"):
        x0 = Pack_Parameters({"method": "AM1", "elements": [0, 1, 6, 8], "learned": []})(Z, learned_params={})[0][name].clone()
        x = x0.clone().requires_grad_(True)
        o = outs({name: x}, 1)
        for key in ("gap", "q(O)"):
            g, = torch.autograd.grad(o[key], x, retain_graph=True)
            h = 1e-4
            xp, xm = x0.clone(), x0.clone()
            xp[0] += h
            xm[0] -= h
            with torch.no_grad():
                fd = float((outs({name: xp}, 0)[key] - outs({name: xm}, 0)[key]) / (2 * h))
            rel = abs(float(g[0]) - fd) / max(abs(fd), 1e-12)
            if rel > 1e-6:
                bad = True
            rows.append({"parameter": name + "[O]", "output": key, "reverse_mode": float(g[0]), "central_difference": fd, "relative_error": rel})
    return {"reproduced": bad, "input": "AM1 H2CO, scf_backward = 1 (implicit adjoint), scf_eps 1e-11", "rows": [r for r in rows if r["relative_error"] > 1e-6][:8] or rows[:4]}


def task_scf_adjoint_inputs(ctx):
    """O4 (run-time contract, BOUNDED): whenever SCF.backward differentiates its re-evaluated SCF map with respect to several
    variables in one torch.autograd.grad call, no variable's autograd history may contain another of them -- otherwise the
    derivative returned for the upstream one already contains the path through the downstream one, and autograd adds that
    path a second time when it propagates the downstream variable's gradient (M and w are functions of g_ss, h_sp, g_pp, g_p2).
    The real code runs on real torch with a recorder around the module's `agrad`; the property checked is the topology of the
    autograd graph, which does not depend on the numbers."""
    import torch
    import seqm.seqm_functions.scf_loop as S_
    from seqm.basics import Energy, Pack_Parameters
    from seqm.Molecule import Molecule
    from seqm.seqm_functions.constants import Constants

    ctx.under_contract("seqm.seqm_functions.scf_loop:SCF.backward", note="run-time contract on the calls of torch.autograd.grad made inside backward (bounded)")
    ctx.under_contract("seqm.seqm_functions.scf_loop:scf_loop", note="call site of SCF.apply: M and w are computed from the same learned parameters that are passed next to them")
    torch.set_default_dtype(torch.float64)
    names = ["g_ss", "g_pp", "g_sp", "g_p2", "h_sp"]
    species = torch.tensor([[8, 6, 1, 1]])
    coords = torch.tensor([[[0.0, 0, 0], [1.22, 0.03, 0], [1.82, 0.94, 0.05], [1.82, -0.94, 0]]])
    Z = species.reshape(-1)
    tab = Pack_Parameters({"method": "AM1", "elements": [0, 1, 6, 8], "learned": []})(Z, learned_params={})[0]
    learned = {n: tab[n].clone().requires_grad_(True) for n in names}
    calls = []
    real_agrad = S_.agrad

    def history(t):
        """ids of the leaf tensors and grad_fn nodes reachable from t's history (t itself excluded)"""
        seen, leaves, stack = set(), set(), []
        if t.grad_fn is not None:
            stack.extend(fn for fn, _ in t.grad_fn.next_functions if fn is not None)
        while stack:
            fn = stack.pop()
            if id(fn) in seen:
                continue
            seen.add(id(fn))
            if hasattr(fn, "variable"):
                leaves.add(id(fn.variable))
            stack.extend(f for f, _ in fn.next_functions if f is not None)
        return seen, leaves

    def recorder(outputs, inputs, *a, **k):
        ins = list(inputs) if isinstance(inputs, (list, tuple)) else [inputs]
        if len(ins) > 1:
            rec = []
            for b in ins:
                nodes, leaves = history(b)
                for a_ in ins:
                    if a_ is b:
                        continue
                    up = (id(a_) in leaves) if a_.grad_fn is None else (id(a_.grad_fn) in nodes)
                    rec.append((a_, b, up))
            calls.append((ins, rec))
        return real_agrad(outputs, inputs, *a, **k)

    params = {"method": "AM1", "scf_eps": 1e-9, "scf_converger": [2], "sp2": [False, 1e-5], "learned": names, "pair_outer_cutoff": 1e10, "eig": True, "scf_backward": 1, "scf_backward_eps": 1e-9}
    import contextlib, io

    S_.agrad = recorder
    try:
        with contextlib.redirect_stdout(io.StringIO()):
            mol = Molecule(Constants(), params, coords.clone(), species, learned_parameters=dict(learned))
            mol.verbose = False
            out = Energy(params)(mol, learned_parameters=dict(learned), all_terms=True)
            out[6].sum().backward()
    finally:
        S_.agrad = real_agrad
    if not calls:
        ctx.error("vacuous", "SCF.backward made no multi-variable autograd.grad call (is scf_backward=1 still routed through SCF.apply?)")
        return
    label = {id(v): k for k, v in learned.items()}
    ins, rec = calls[-1]
    pos_names = ["M", "w", "W", "g_ss", "g_pp", "g_sp", "g_p2", "h_sp"]

    def nm(t, ins=ins):
        if id(t) in label:
            return label[id(t)]
        k = [i for i, x in enumerate(ins) if x is t][0]
        shape = tuple(t.shape)
        kind = "M" if shape[-1] in (4, 9) else ("w" if shape[-1] in (10, 45) else "input#%d" % k)
        return kind + str(list(shape))

    n_pairs = 0
    rep_cache = []

    def rep():
        if not rep_cache:
            rep_cache.append(_quiet(replay_scf_adjoint))
        return rep_cache[0]

    for a_, b, up in rec:
        n_pairs += 1
        name = "SCF.backward.gradient-variables-are-mutually-independent[%s not in the history of %s]" % (nm(a_), nm(b))
        if up:
            ctx.fail(name, "the autograd history of %s (as unpacked from ctx.saved_tensors) contains %s: the derivative returned for %s already includes the path through %s, "
                     "which autograd adds again when it propagates the gradient returned for %s" % (nm(b), nm(a_), nm(a_), nm(b), nm(b)),
                     replay=rep(), witness_class="double-counted-path-through-derived-input", backend="bounded:runtime-contract")
        else:
            ctx.ok(name, "bounded:runtime-contract")
    ctx.bounded.append({"what": "SCF.backward graph-independence contract", "bound": "one concrete run: AM1 H2CO, learned g_ss/g_pp/g_sp/g_p2/h_sp, scf_backward=1, restricted; %d ordered pairs of gradient variables in the last autograd.grad call" % n_pairs,
                        "why_not_proved": "torch's autograd graph is outside the symbolic shim; the graph topology is the same for every input of this configuration, but other configurations (PM6, UHF) are not covered"})
    ctx.undecided_clause("value of the implicit adjoint solve (fixed point reached, Anderson/Picard), second-order derivatives")



def replay_mixer_tape(model):
    """real adaptive_mix on real torch: reverse-mode derivative of the mixed density with respect to a common shift of the three
    density arguments, against a central finite difference.  At a near-converged point with the extrapolation factor frozen the
    two must agree (the mixer is an affine combination whose weights sum to one)."""
    import torch
    import seqm.seqm_functions.scf_loop as S_

    torch.set_default_dtype(torch.float64)
    rows = []
    for it in (3, 6, 7):
        P1 = torch.tensor([[[1.20, 0.31], [0.31, 0.80]]])
        P0 = torch.tensor([[[1.21, 0.30], [0.30, 0.79]]])
        D2 = torch.tensor([[1.23, 0.77]])
        real_fac = S_.compute_fac
        S_.compute_fac = lambda *a, **k: torch.full((1,), 0.7)
        try:
            s = torch.zeros((), requires_grad=True)
            E2 = torch.eye(2).unsqueeze(0)
            out, _ = S_.adaptive_mix(it, P0 + s * E2, P1 + s * E2, D2 + s, False)
            g = torch.stack([torch.autograd.grad(out[0, i, i], s, retain_graph=True)[0] for i in range(2)])
            h = 1e-5
            with torch.no_grad():
                op, _ = S_.adaptive_mix(it, P0 + h * E2, P1 + h * E2, D2 + h, False)
                om, _ = S_.adaptive_mix(it, P0 - h * E2, P1 - h * E2, D2 - h, False)
            fd = torch.stack([(op[0, i, i] - om[0, i, i]) / (2 * h) for i in range(2)])
        finally:
            S_.compute_fac = real_fac
        rows.append({"scf_iteration": it, "reverse_mode_d(diag)/d(common shift)": g.tolist(), "finite_difference": fd.tolist(), "max_abs_difference": float((g - fd).abs().max())})
    return {"reproduced": any(r["max_abs_difference"] > 1e-6 for r in rows), "rows": rows}


def task_mixer_tape(ctx):
    """O5: the unrolled mode (scf_backward=2) differentiates the SCF iteration itself, so every stop-gradient on the path from the
    densities to the mixed density must be harmless at self-consistency: the derivative of the mixer's result with respect to
    each value that the tape holds constant (x.detach(), x.data, anything built under no_grad) vanishes when previous, new and
    two-steps-back densities coincide.  Then the tape's linearisation maps a common shift of the densities to the same shift and
    the unrolled derivative converges to the derivative of the fixed point.  Real adaptive_mix on symbolic 2x2 densities with
    stop-gradient tracking on; compute_fac replaced by its frame (a value per molecule, computed under no_grad)."""
    import seqm.seqm_functions.scf_loop as S_

    SCFM = "seqm.seqm_functions.scf_loop"
    ctx.under_contract(SCFM + ":adaptive_mix", stubs=["compute_fac"])
    one = E.const(Fraction(1), E.R)
    checked = 0
    for it in (3, 6, 7):
        def thunk():
            st.tape_reset(True)
            P0 = st.symbolic((1, 2, 2), "Pprev")
            P1 = st.symbolic((1, 2, 2), "Pcur")
            D2 = st.symbolic((1, 2), "Dold2")
            ins = (P0.clone(), P1.clone(), D2.clone())  # (when no extrapolation is due the result aliases, and overwrites, the new density)
            out, hist = S_.adaptive_mix(it, P0, P1, D2, False)
            return (out,) + ins + (dict(st.TAPE["origin"]),)

        # the path of a point near self-consistency (concolic: one valuation decides the branches, the decisions are recorded)
        point = {"Pprev_0_0_0": Fraction(121, 100), "Pprev_0_0_1": Fraction(30, 100), "Pprev_0_1_0": Fraction(30, 100), "Pprev_0_1_1": Fraction(79, 100),
                 "Pcur_0_0_0": Fraction(120, 100), "Pcur_0_0_1": Fraction(31, 100), "Pcur_0_1_0": Fraction(31, 100), "Pcur_0_1_1": Fraction(80, 100),
                 "Dold2_0_0": Fraction(123, 100), "Dold2_0_1": Fraction(77, 100), "fac_0": Fraction(7, 10)}

        def guide(n):
            return bool(E.evaluate(st.tape_restore(n), point, mode="frac"))

        try:
            ex = ctx.explore(thunk, stubs={SCFM + ":compute_fac": lambda a, b, c: st.symbolic((a.shape[0],), "fac")}, name="adaptive_mix[it=%d]" % it, max_paths=48, guide=guide)
        finally:
            st.tape_reset(False)
        if not ex.paths:
            ctx.error("mixer_tape.it=%d.paths" % it, "no path")
        for p in ex.paths:
            if p.raised is not None:
                if isinstance(p.raised, Unmodelled):
                    raise p.raised
                continue
            out, P0, P1, D2, origin = p.value
            st.TAPE["origin"] = origin
            # fixed point: previous = new density, two-steps-back diagonal = its diagonal
            fix = {}
            for i in range(2):
                for j in range(2):
                    fix[P0.a[0, i, j].n] = P1.a[0, i, j].n
                fix[D2.a[0, i].n] = P1.a[0, i, i].n
            sgs = sorted(origin)
            for i in range(2):
                for j in range(2):
                    o = out.a[0, i, j].n
                    for sname in sgs:
                        v = E.var(sname, E.R)
                        if v not in E.free_vars(o):
                            continue
                        d = E.diff(o, v)
                        d = E.substitute(st.tape_restore(d), fix)
                        pc = [Sym(E.substitute(st.tape_restore(E.node_of(c)), fix)) for c in p.pc]
                        what = E.to_str(origin[sname], 60)
                        ctx.prove_eq("mixer_tape.it=%d.out[%d,%d].held-constant(%s).has-no-weight-at-self-consistency@p%d" % (it, i, j, what, p.path_id), Sym(d), Sym(E.const(Fraction(0), E.R)), pc=pc,
                                     replay=replay_mixer_tape)
                        checked += 1
                    # and the tape's linearisation maps a common shift to the same shift on the diagonal, to itself off it
                    tot = E.const(Fraction(0), E.R)
                    for src in (P0.a[0, i, j].n, P1.a[0, i, j].n) + ((D2.a[0, i].n,) if i == j else ()):
                        tot = E.add(tot, E.diff(o, src))
                    tot = E.substitute(st.tape_restore(tot), fix)
                    pc = [Sym(E.substitute(st.tape_restore(E.node_of(c)), fix)) for c in p.pc]
                    # restricted to the regular branch: no cap, no clamp, already normalised (|delta| = 0 at the fixed point)
                    ctx.prove_eq("mixer_tape.it=%d.out[%d,%d].tape-maps-a-common-shift-of-its-own-entry-to-the-same-shift@p%d" % (it, i, j, p.path_id), Sym(tot), Sym(one), pc=pc + _regular(P1), replay=replay_mixer_tape)
                    checked += 1
            st.TAPE["origin"] = {}
    if not checked:
        ctx.error("mixer_tape.vacuous", "no obligation generated")
    ctx.assume_note("mixer_tape: ONE path of adaptive_mix per iteration kind (3: first extrapolation, 6: extrapolation with the 0.05 cap armed, 7: no extrapolation) -- the path a point near self-consistency takes (no cap, no clamp, already normalised); the cap/clamp/renormalisation branches are not covered")
    ctx.assume_note("mixer_tape: one molecule, 2x2 density; compute_fac replaced by a fresh value per molecule (its own result is only ever used under no_grad); views taken of tracked tensors inside a no_grad region keep their elements (not tagged)")


def _regular(P1):
    """strictly inside the occupation bounds, so clamp and renormalisation are the identity at the fixed point"""
    out = []
    for i in range(2):
        d = P1.a[0, i, i]
        out += [d > Fraction(1, 100), d < Fraction(199, 100)]
    return out



def replay_driver_tape(model):
    """real scf_forward0 (backward=True, one iteration: MAX_ITER patched to 0) on real torch with the callees replaced by simple
    differentiable maps: d(returned density)/d(common shift of the previous and the new density) must be 1 per element."""
    import torch
    import seqm.seqm_functions.scf_loop as S_

    torch.set_default_dtype(torch.float64)
    saved = {k: getattr(S_, k) for k in ("MAX_ITER", "fock_restricted", "elec_energy", "make_Pnew_factory", "get_error", "reshape_Hcore")}
    s = torch.zeros((), requires_grad=True)
    P0 = torch.tensor([[[1.2, 0.3], [0.3, 0.8]]]) + s
    Pn = torch.tensor([[[1.1, 0.2], [0.2, 0.9]]]) + s
    try:
        S_.MAX_ITER = 0
        S_.fock_restricted = lambda nmol, molsize, P, M, *a: P * 1.0
        S_.elec_energy = lambda P, F, H: (P * F).sum(dim=(1, 2))
        S_.make_Pnew_factory = lambda *a, **k: (lambda F, *c: Pn[: F.shape[0]])
        S_.get_error = lambda Pold, P, nc, *a, **k: (nc, torch.zeros(()), torch.zeros(()))
        S_.reshape_Hcore = lambda M, nmol, molsize, method: torch.zeros(1, 2, 2)
        one = torch.ones(1, dtype=torch.long)
        args = (torch.zeros(1, 1, 1), None, None, None, None, None, None, None, one, one, one * 0, one, 1, 1, None, None, None, None, P0, 1e-6, "AM1", None, None, None, None, None, None)
        P, _ = S_.scf_forward0(*args, sp2=[False], scf_converger=[0, 0.3], backward=True, verbose=False)
        g = torch.stack([torch.autograd.grad(P[0, i, j], s, retain_graph=True, allow_unused=True)[0] if P[0, i, j].requires_grad else torch.zeros(()) for i in range(2) for j in range(2)])
    finally:
        for k, v in saved.items():
            setattr(S_, k, v)
    return {"reproduced": bool((g - 1.0).abs().max() > 1e-12), "reverse_mode_dP/d(common shift)": g.tolist(), "expected": [1.0] * 4}


def task_driver_tape(ctx):
    """O5 for the fixed-mixing driver in unrolled mode: one pass through the real loop body of scf_forward0(backward=True) with
    stop-gradient tracking on, callees replaced by their frames (fresh values): the returned density, as the tape sees it, maps a
    common shift of (previous density, new density) to the same shift, and whatever the tape holds constant has zero weight
    when the two coincide."""
    import seqm.seqm_functions.scf_loop as S_

    SCFM = "seqm.seqm_functions.scf_loop"
    ctx.under_contract(SCFM + ":scf_forward0", stubs=["fock_restricted", "elec_energy", "make_Pnew_factory", "get_error", "reshape_Hcore"], note="backward=True (the unrolled mode), iteration cap 0: one pass through the loop body")
    NBk = 2
    box = {}

    def thunk():
        st.tape_reset(True)
        P0 = st.symbolic((1, NBk, NBk), "Pin")
        box["P0"] = P0.clone()
        one = st.tensor([1])
        args = (st.symbolic((1, 1, 1), "M"), None, None, None, None, None, None, None, one, one, st.tensor([0]), one, 1, 1, None, None, None, None, P0, real("eps"), "AM1", None, None, None, None, None, None)
        P, _ = S_.scf_forward0(*args, sp2=[False], scf_converger=[0, real("alpha")], backward=True, verbose=False)
        return P, dict(st.TAPE["origin"])

    def new_density(*a, **k):
        def inner(F, *c):
            box["Pn"] = st.symbolic((F.a.shape[0], NBk, NBk), "Pnew")
            return box["Pn"].clone()
        return inner

    stubs = {SCFM + ":fock_restricted": lambda nmol, molsize, P, M, *a: st.symbolic((1, NBk, NBk), "F"), SCFM + ":elec_energy": lambda P, F, H: st.symbolic((P.a.shape[0],), "Eel"),
             SCFM + ":make_Pnew_factory": new_density, SCFM + ":get_error": lambda Pold, P, nc, *a, **k: (nc, S(0.0), S(0.0)),
             SCFM + ":reshape_Hcore": lambda M, nmol, molsize, method: st.symbolic((1, NBk, NBk), "Hc")}
    try:
        ex = ctx.explore(thunk, stubs=stubs, name="scf_forward0[backward=True, one pass]", constants={"MAX_ITER": 0}, max_paths=16)
    finally:
        st.tape_reset(False)
    checked = 0
    for p in ex.paths:
        if p.raised is not None:
            if isinstance(p.raised, Unmodelled):
                raise p.raised
            ctx.fail("driver_tape.scf_forward0.raises@p%d" % p.path_id, repr(p.raised) + p.notes.get("traceback", "")[-600:])
            continue
        P, origin = p.value
        st.TAPE["origin"] = origin
        P0, Pn = box["P0"], box["Pn"]
        fix = {P0.a[0, i, j].n: Pn.a[0, i, j].n for i in range(NBk) for j in range(NBk)}
        for i in range(NBk):
            for j in range(NBk):
                o = P.a[0, i, j].n
                for sname in sorted(origin):
                    v = E.var(sname, E.R)
                    if v not in E.free_vars(o):
                        continue
                    d = E.substitute(st.tape_restore(E.diff(o, v)), fix)
                    ctx.prove_eq("driver_tape.scf_forward0.P[%d,%d].held-constant(%s).has-no-weight-at-self-consistency@p%d" % (i, j, E.to_str(origin[sname], 50), p.path_id), Sym(d), S(0), pc=p.pc, replay=replay_driver_tape)
                    checked += 1
                tot = E.add(E.diff(o, P0.a[0, i, j].n), E.diff(o, Pn.a[0, i, j].n))
                ctx.prove_eq("driver_tape.scf_forward0.P[%d,%d].tape-maps-a-common-shift-to-the-same-shift@p%d" % (i, j, p.path_id), Sym(st.tape_restore(tot)), S(1), pc=p.pc, replay=replay_driver_tape)
                checked += 1
        st.TAPE["origin"] = {}
    if not checked:
        ctx.error("driver_tape.vacuous", "no obligation generated")
    ctx.assume_note("driver_tape: one molecule, 2x2 density, one pass of the loop body (the body does not depend on the iteration number); callees replaced by fresh values")


def task_backward_slots(ctx):
    """O4b (name flow, from the AST of the real SCF.forward / SCF.backward): autograd hands the k-th value returned by backward to
    the k-th argument of forward.  The chain  forward argument -> position in ctx.save_for_backward -> local name in backward's
    unpacking of ctx.saved_tensors -> slot number in the list backward enumerates -> position of grads[slot] in the returned
    tuple  must be the identity on the eight differentiable arguments, every one of them must have a slot, and backward must
    return as many values as forward has arguments.  A rebinding of several names at once must keep their order."""
    import seqm.seqm_functions.scf_loop as S_

    ctx.under_contract("seqm.seqm_functions.scf_loop:SCF.forward", note="argument order and ctx.save_for_backward (AST)")
    ctx.under_contract("seqm.seqm_functions.scf_loop:SCF.backward", note="slot order of the returned gradients (AST name flow)")
    rep = []

    def rp():
        if not rep:
            rep.append(_quiet(replay_scf_adjoint))
        return rep[0]

    ftree = ast.parse(textwrap.dedent(inspect.getsource(S_.SCF.forward))).body[0]
    btree = ast.parse(textwrap.dedent(inspect.getsource(S_.SCF.backward))).body[0]
    fargs = [a.arg for a in ftree.args.args][1:]  # without ctx
    saved = None
    for n in ast.walk(ftree):
        if isinstance(n, ast.Call) and isinstance(n.func, ast.Attribute) and n.func.attr == "save_for_backward":
            saved = [a.id if isinstance(a, ast.Name) else None for a in n.args]
    unpack = None
    rebinds = []
    enum_list = None
    ret = None
    for n in ast.walk(btree):
        if isinstance(n, ast.Assign) and isinstance(n.value, ast.Attribute) and n.value.attr == "saved_tensors" and isinstance(n.targets[0], ast.Tuple):
            unpack = [e.id if isinstance(e, ast.Name) else None for e in n.targets[0].elts]
        if isinstance(n, ast.Assign) and isinstance(n.targets[0], ast.Tuple) and isinstance(n.value, ast.GeneratorExp) and isinstance(n.value.generators[0].iter, ast.Tuple):
            rebinds.append(([e.id for e in n.targets[0].elts if isinstance(e, ast.Name)], [e.id for e in n.value.generators[0].iter.elts if isinstance(e, ast.Name)]))
        if isinstance(n, ast.For) and isinstance(n.iter, ast.Call) and getattr(n.iter.func, "id", None) == "enumerate" and isinstance(n.iter.args[0], (ast.List, ast.Tuple)) and enum_list is None:
            enum_list = [e.id if isinstance(e, ast.Name) else None for e in n.iter.args[0].elts]
            # the slot number used for element i: grads[i + c] / gvind.append(i + c)
            offs = {c.right.value for c in ast.walk(n) if isinstance(c, ast.BinOp) and isinstance(c.op, ast.Add) and isinstance(c.left, ast.Name) and c.left.id == n.target.elts[0].id and isinstance(c.right, ast.Constant)}
            enum_off = offs.pop() if len(offs) == 1 else None
    for n in btree.body[::-1]:
        if isinstance(n, ast.Return) and isinstance(n.value, ast.Tuple):
            ret = n.value.elts
            break
    if None in (saved, unpack, enum_list, ret) or enum_off is None:
        ctx.error("backward_slots.anchor", "could not find save_for_backward / saved_tensors unpacking / the enumerated list / the returned tuple (found: %r)" % ([x is not None for x in (saved, unpack, enum_list, ret)],))
        return
    ctx.prove("backward_slots.backward-returns-one-value-per-forward-argument", E.const(len(ret) == len(fargs)))
    ctx.prove("backward_slots.saved-tensors-are-unpacked-in-the-order-they-were-saved", E.const(len(saved) == len(unpack)))
    for tg, src in rebinds:
        (ctx.ok if tg == src else ctx.fail)("backward_slots.rebinding(%s)-keeps-the-order" % ",".join(tg), "ast" if tg == src else "targets %r <- sources %r" % (tg, src), **({} if tg == src else {"replay": rp()}))
    # which forward tensor a backward local name denotes
    def forward_name(local):
        if local not in unpack:
            return None
        nm = saved[unpack.index(local)]
        return nm
    slots = {}
    for i, nm in enumerate(enum_list):
        slots[i + enum_off] = forward_name(nm)
    differentiable = [forward_name(nm) for nm in enum_list]
    covered = set()
    for k, e in enumerate(ret):
        if isinstance(e, ast.Subscript) and isinstance(e.value, ast.Name) and e.value.id == "grads" and isinstance(e.slice, ast.Constant):
            j = e.slice.value
            want = fargs[k] if k < len(fargs) else None
            got = slots.get(j)
            covered.add(got)
            name = "backward_slots.returned[%d]=grads[%d]-is-the-gradient-of-forward-argument-%s" % (k, j, want)
            if got == want:
                ctx.ok(name, "ast-name-flow")
            else:
                ctx.fail(name, "slot %d of the enumerated list denotes forward's %r, but position %d of the returned tuple is received by forward's %r" % (j, got, k, want), replay=rp(), witness_class="gradient-slots-permuted")
        elif isinstance(e, ast.Constant) and e.value is None:
            continue
        else:
            ctx.error("backward_slots.returned[%d]" % k, "unrecognised expression %s" % ast.unparse(e))
    missing = [d for d in differentiable if d not in covered]
    (ctx.ok if not missing else ctx.fail)("backward_slots.every-differentiated-input-has-a-slot", "ast-name-flow" if not missing else "no returned slot for %r" % missing)
    first = fargs[: len(enum_list)]
    (ctx.ok if sorted(first) == sorted(d for d in differentiable if d) else ctx.fail)("backward_slots.the-enumerated-inputs-are-forward's-leading-arguments", "ast-name-flow" if sorted(first) == sorted(d for d in differentiable if d) else "%r vs %r" % (first, differentiable))
    ctx.assume_note("backward_slots: name flow only (which tensor sits in which slot); the VALUES placed in grads[...] are covered by additive_term_backward / scf_adjoint_inputs and, for the SCF adjoint itself, not at all")


def task_backward_density_rows(ctx):
    """the SCF map that SCF.backward differentiates is built with sym_eig_trunc1: the density it returns for molecule m uses molecule
    m's own eigenvectors and its OWN number of occupied orbitals (equal layouts with different charges included).  Contract
    shared with C05's density_rows."""
    from contracts.C05_batching import _density_rows

    _density_rows(ctx, "sym_eig_trunc1")


def _quiet(fn):
    import contextlib, io

    with contextlib.redirect_stdout(io.StringIO()):
        try:
            return fn({})
        except Exception as exc:  # noqa
            return {"reproduced": False, "error": repr(exc)[:300]}


TASKS_QUICK = ["additive_term_backward", "parameter_aliasing", "scf_adjoint_inputs", "backward_slots", "backward_density_rows", "mixer_tape", "driver_tape"]
TASKS_THOROUGH = TASKS_QUICK
