"""C18 -- invalid requests are rejected loudly: every documented bad input reaches a `raise` before a result is bound."""
import ast
import inspect
import textwrap
from fractions import Fraction

import numpy as np

from pyvc.api import *
from pyvc import symtorch as st, expr as E
from contracts.md_common import Obj
from contracts import C19_additivity_cutoff as C19

BAS = "seqm.basics"


def task_species_order(ctx):
    """check_input accepts a species row iff it is sorted in non-increasing atomic number (symbolic row next to a sorted one)."""
    fn = ctx.under_contract("seqm.Molecule:check_input")
    z = [integer("z%d" % i) for i in range(3)]

    def thunk():
        for v in z:
            assume(v >= 0)
        sp = st.T(np.array([[v for v in z], [S(8), S(1), S(1)]], dtype=object), st.int64, True)
        fn(sp)
        return "accepted"

    ex = ctx.explore(thunk, name="check_input")
    srt = (z[0] >= z[1]) & (z[1] >= z[2])
    kinds = set()
    for p in ex.paths:
        if p.raised is None:
            kinds.add("ok")
            ctx.prove("accepted=>row-sorted@p%d" % p.path_id, srt, pc=p.pc)
        elif isinstance(p.raised, ValueError):
            kinds.add("raise")
            ctx.prove("rejected=>row-unsorted@p%d" % p.path_id, ~srt, pc=p.pc)
        else:
            ctx.fail("unexpected-exception@p%d" % p.path_id, repr(p.raised) + p.notes.get("traceback", "")[-400:])
    if kinds != {"ok", "raise"}:
        ctx.error("paths", "expected accepting and rejecting paths: %r" % kinds)
    ctx.assume_note("generic row of three symbolic atomic numbers next to a sorted row")


def replay_electron_count(uhf):
    def rp(model):
        """real Molecule(...) on the batch [H2O, OH + padding] with the model's charges (and multiplicities)."""
        import torch
        from seqm.seqm_functions.constants import Constants
        from seqm.Molecule import Molecule

        torch.set_default_dtype(torch.float64)
        q = [int(round(model_float(model, "charge%d" % m, 0.0))) for m in range(2)]
        mu = [int(round(model_float(model, "mult%d" % m, 1.0))) for m in range(2)]
        params = {"method": "AM1", "scf_eps": 1e-7, "scf_converger": [1], "sp2": [False, 1e-5], "elements": [0, 1, 8], "learned": [], "pair_outer_cutoff": 1e10, "eig": True}
        if uhf:
            params["UHF"] = True
        species = torch.tensor([[8, 1, 1], [8, 1, 0]])
        coords = torch.tensor([[[0.0, 0, 0], [0.96, 0, 0], [-0.24, 0.93, 0]], [[0.0, 0, 0], [0.97, 0, 0], [0, 0, 0]]])
        n_el = [8 - q[0], 7 - q[1]]
        valid = all((n + (m - 1 if uhf else 0)) % 2 == 0 for n, m in zip(n_el, mu))
        try:
            kw = dict(charges=torch.tensor(q))
            if uhf:
                kw["mult"] = torch.tensor(mu)
            Molecule(Constants(), params, coords, species, **kw)
            accepted, err = True, None
        except Exception as exc:  # noqa
            accepted, err = False, repr(exc)[:160]
        return {"reproduced": bool(accepted != valid), "charges": q, "multiplicities": mu if uhf else None, "valence_electrons": n_el, "request_is_valid": valid, "accepted": accepted, "exception": err}
    return rp


def task_electron_count(ctx):
    """Parser.forward on a two-molecule batch [H2O, OH + padding] with symbolic per-molecule charges (and multiplicities):
    RHF accepts iff EVERY molecule has an even electron count; UHF accepts iff every molecule's charge/multiplicity pair
    gives integer occupations."""
    fn = ctx.under_contract(BAS + ":Parser.forward")
    q = [integer("charge0"), integer("charge1")]
    mult = [integer("mult0"), integer("mult1")]
    species = [[8, 1, 1], [8, 1, 0]]

    def run(uhf):
        def thunk():
            for v in q:
                assume((v >= -2) & (v <= 2))
            ps = C19.make_parser(Fraction(10) ** 10)
            ps.__dict__["uhf"] = uhf
            mol = C19.parser_molecule(species)
            mol.tot_charge = st.T(np.array(q, dtype=object), st.int64, True)
            if uhf:
                for v in mult:
                    assume((v >= 1) & (v <= 4))
                mol.mult = st.T(np.array(mult, dtype=object), st.int64, True)
            fn(ps, mol, "AM1")
            return "accepted"
        return ctx.explore(thunk, name="Parser uhf=%s" % uhf, max_paths=1024)

    n_el = [8 - q[0], 7 - q[1]]  # valence electrons minus the charge
    ex = run(False)
    kinds = set()
    all_even = (n_el[0] % 2 == 0) & (n_el[1] % 2 == 0)
    for p in ex.paths:
        if p.raised is None:
            kinds.add("ok")
            ctx.prove("RHF.accepted=>every-molecule-has-an-even-electron-count@p%d" % p.path_id, all_even, pc=p.pc, replay=replay_electron_count(False), classify=lambda m_, r: "odd-electron-molecule-accepted")
        elif isinstance(p.raised, ValueError):
            kinds.add("raise")
            ctx.prove("RHF.rejected=>some-molecule-has-an-odd-electron-count@p%d" % p.path_id, ~all_even, pc=p.pc, replay=replay_electron_count(False), classify=lambda m_, r: "valid-request-rejected")
        else:
            ctx.fail("RHF.unexpected@p%d" % p.path_id, repr(p.raised) + p.notes.get("traceback", "")[-500:])
    if kinds != {"ok", "raise"}:
        ctx.error("RHF.paths", repr(kinds))
    ex = run(True)
    kinds = set()
    # possible iff n_el and (mult-1) have the same parity (then both occupations are integers)
    possible = ((n_el[0] + mult[0] - 1) % 2 == 0) & ((n_el[1] + mult[1] - 1) % 2 == 0)
    for p in ex.paths:
        if p.raised is None:
            kinds.add("ok")
            ctx.prove("UHF.accepted=>integer-occupations-in-every-molecule@p%d" % p.path_id, possible, pc=p.pc, replay=replay_electron_count(True), classify=lambda m_, r: "impossible-multiplicity-accepted")
        elif isinstance(p.raised, ValueError):
            kinds.add("raise")
            ctx.prove("UHF.rejected=>impossible-charge/multiplicity-in-some-molecule@p%d" % p.path_id, ~possible, pc=p.pc, replay=replay_electron_count(True), classify=lambda m_, r: "valid-request-rejected")
        else:
            ctx.fail("UHF.unexpected@p%d" % p.path_id, repr(p.raised) + p.notes.get("traceback", "")[-500:])
    if kinds != {"ok", "raise"}:
        ctx.error("UHF.paths", repr(kinds))
    ctx.assume_note("batch [H2O, OH + padding]; charges in [-2, 2], multiplicities in [1, 4], both per molecule and symbolic")


def task_solver_combinations(ctx):
    """make_Pnew_factory: open shell + PM6 and open shell + SP2 are rejected (all 8 flag combinations enumerated)."""
    import seqm.seqm_functions.scf_loop as S_

    fn = ctx.under_contract("seqm.seqm_functions.scf_loop:make_Pnew_factory")
    for method in ("AM1", "PM6"):
        for sp2 in (False, True):
            for openshell in (False, True):
                def thunk():
                    fn(method, [sp2, 1e-5], 2, False, [1], openshell)
                    return "accepted"
                ex = ctx.explore(thunk, name="factory")
                p = ex.paths[0]
                bad = openshell and (method == "PM6" or sp2)
                tag = "%s,sp2=%s,open=%s" % (method, sp2, openshell)
                if bad:
                    if isinstance(p.raised, ValueError):
                        ctx.ok(tag + ".rejected", "path-exploration")
                    else:
                        ctx.fail(tag + ".rejected", "accepted an unsupported combination")
                else:
                    if p.raised is None:
                        ctx.ok(tag + ".accepted", "path-exploration")
                    else:
                        ctx.fail(tag + ".accepted", "raised %r for a supported combination" % (p.raised,))
    # UHF + Pulay / KSA: the guard is the first statement of the corresponding branch, before the driver call
    for target, fnobj in (("scf_loop", S_.scf_loop), ("SCF.forward", S_.SCF.forward)):
        ctx.under_contract("seqm.seqm_functions.scf_loop:" + target, note="guard dominance (AST)")
        tree = ast.parse(textwrap.dedent(inspect.getsource(fnobj)))
        found = {}
        for n in ast.walk(tree):
            if isinstance(n, ast.If):
                t = ast.unparse(n.test)
                for conv in (2, 3):
                    if t.endswith("[0] == %d" % conv) and n.body:
                        first = n.body[0]
                        guarded = isinstance(first, ast.If) and "unrestricted" in ast.unparse(first.test) and first.body and isinstance(first.body[0], ast.Raise)
                        calls_driver = any(isinstance(c, ast.Call) and getattr(c.func, "id", "") == "scf_forward%d" % conv for c in ast.walk(n))
                        if calls_driver:
                            found[conv] = found.get(conv, True) and guarded
        for conv, nm in ((2, "Pulay"), (3, "KSA")):
            if conv not in found:
                if target == "scf_loop" and conv == 3:
                    continue
                ctx.error("%s.UHF+%s.anchor" % (target, nm), "branch not found")
            elif found[conv]:
                ctx.ok("%s.UHF+%s.rejected-before-the-solver-runs" % (target, nm), "ast-dominance")
            else:
                ctx.fail("%s.UHF+%s.rejected-before-the-solver-runs" % (target, nm), "the unrestricted guard is not the first statement of the branch that calls scf_forward%d" % conv)


def replay_mixed_active_states(model):
    """real code: a batch of two waters with per-molecule active states [0, 1] (and [1, 0]) and NO excited-state settings must be
    rejected, like active_state = 1 is."""
    import io, contextlib
    import torch
    from seqm.seqm_functions.constants import Constants
    from seqm.Molecule import Molecule
    from seqm.ElectronicStructure import Electronic_Structure

    torch.set_default_dtype(torch.float64)
    w = [[0.0, 0.0, 0.0], [0.96, 0.0, 0.0], [-0.24, 0.93, 0.0]]
    out = {}
    for act in ([0, 1], [1, 0]):
        params = {"method": "AM1", "scf_eps": 1e-7, "scf_converger": [1], "sp2": [False, 1e-5], "elements": [0, 1, 8], "learned": [], "pair_outer_cutoff": 1e10, "eig": True}
        mol = Molecule(Constants(), params, torch.tensor([w, w]), torch.tensor([[8, 1, 1], [8, 1, 1]]))
        mol.active_state = torch.tensor(act)
        try:
            with contextlib.redirect_stdout(io.StringIO()):
                Electronic_Structure(params)(mol)
            out[str(act)] = "accepted: Etot = %s" % [round(float(x), 6) for x in mol.Etot]
        except Exception as exc:  # noqa
            out[str(act)] = "rejected: %s" % str(exc)[:80]
    return {"reproduced": any(v.startswith("accepted") for v in out.values()), "requests": out}


def task_excited_state_guards(ctx):
    """an excited active state without excited-state settings, out-of-range initial states and UHF + excited states reach a raise before any result."""
    import seqm.basics as B

    # Energy.forward: excited active state without excited-state settings
    from contracts import C14_observables as C14
    from contracts.es_common import ghost_es_molecule

    fn = ctx.under_contract(BAS + ":Energy.forward", stubs=["hamiltonian", "pair_nuclear_energy", "elec_energy", "calc_ground_dipole"])
    rec = {}

    def thunk():
        mol = ghost_es_molecule()
        C14._const_tables(mol)
        mol.active_state = 1
        en = C14._make_energy(C14._ham_out(mol, nconv=st.tensor([False, False])))
        return fn(en, mol, {}, all_terms=True)

    ex = ctx.explore(thunk, stubs=C14.energy_stubs(rec), name="Energy.forward active=1")
    for p in ex.paths:
        if p.raised is not None and not isinstance(p.raised, (AttributeError, TypeError, KeyError)):
            ctx.ok("excited-active-state-without-settings.rejected@p%d" % p.path_id, "path-exploration", detail=repr(p.raised)[:120])
        else:
            ctx.fail("excited-active-state-without-settings.rejected@p%d" % p.path_id, "returned %r / %r" % (type(p.value).__name__, p.raised))
    # per-molecule request: a batch is accepted only if NO molecule asks for an excited state (symbolic active states 0..2)
    a0, a1 = integer("active0"), integer("active1")
    rep = []

    def rp(m_):
        if not rep:
            try:
                rep.append(replay_mixed_active_states({}))
            except Exception as exc:  # noqa
                rep.append({"reproduced": False, "error": repr(exc)[:300]})
        return rep[0]

    def thunk_b():
        assume((a0 >= 0) & (a0 <= 2) & (a1 >= 0) & (a1 <= 2))
        mol = ghost_es_molecule()
        C14._const_tables(mol)
        mol.active_state = st.T(np.array([a0, a1], dtype=object), st.int64, True)
        en = C14._make_energy(C14._ham_out(mol, nconv=st.tensor([False, False])))
        return fn(en, mol, {}, all_terms=True)

    ex = ctx.explore(thunk_b, stubs=C14.energy_stubs(rec), name="Energy.forward per-molecule active states", max_paths=64)
    kinds = set()
    for p in ex.paths:
        if p.raised is not None and isinstance(p.raised, Unmodelled):
            raise p.raised
        if p.raised is None:
            kinds.add("accepted")
            ctx.prove("excited-active-state-without-settings.accepted=>every-molecule-asks-for-the-ground-state@p%d" % p.path_id, (a0 == 0) & (a1 == 0), pc=p.pc, replay=rp,
                      classify=lambda m_, r: "mixed-ground-and-excited-request-accepted")
        else:
            kinds.add("rejected")
            ctx.prove("excited-active-state-without-settings.rejected=>some-molecule-asks-for-an-excited-state@p%d" % p.path_id, (a0 > 0) | (a1 > 0), pc=p.pc)
    if kinds != {"accepted", "rejected"}:
        ctx.error("excited-active-state-without-settings.paths", "expected accepting and rejecting paths, got %r" % (kinds,))
    # static guards
    src = inspect.getsource(B.Energy.__init__)
    ctx.under_contract(BAS + ":Energy.__init__", note="guard presence (AST)")
    tree = ast.parse(textwrap.dedent(src))
    ok = False
    for n in ast.walk(tree):
        if isinstance(n, ast.If) and "self.uhf" in ast.unparse(n.test) and "excited_states" in ast.unparse(n.test) and isinstance(n.body[0], ast.Raise):
            ok = True
    (ctx.ok if ok else ctx.fail)("UHF+excited-states.rejected-in-constructor", "ast" if ok else "guard `if self.uhf and self.excited_states is not None: raise` not found")
    fsrc = inspect.getsource(B.Energy.forward)
    ok = "RPA for non-uniform batch not yet available" in fsrc and "raise NotImplementedError" in fsrc
    (ctx.ok if ok else ctx.fail)("heterogeneous-batch+RPA.rejected", "ast" if ok else "guard not found")
    # NAD initial state
    import seqm.NonadiabaticDynamics as N

    fn2 = ctx.under_contract("seqm.NonadiabaticDynamics:NonadiabaticDynamicsBase._normalize_initial_state")
    s0 = integer("init")

    def thunk2():
        obj = object.__new__(N.SurfaceHoppingDynamics)
        obj.__dict__.update(initial_state=s0, _nstates=3)
        return fn2(obj, 2, st._CPU)

    ex = ctx.explore(thunk2, name="_normalize_initial_state")
    valid = (s0 >= 1) & (s0 <= 3)
    kinds = set()
    for p in ex.paths:
        if p.raised is None:
            kinds.add("ok")
            ctx.prove("initial_state.accepted=>1<=s<=nstates@p%d" % p.path_id, valid, pc=p.pc)
        elif isinstance(p.raised, ValueError):
            kinds.add("raise")
            ctx.prove("initial_state.rejected=>out-of-range@p%d" % p.path_id, ~valid, pc=p.pc)
        else:
            ctx.fail("initial_state.unexpected@p%d" % p.path_id, repr(p.raised))
    if kinds != {"ok", "raise"}:
        ctx.error("initial_state.paths", repr(kinds))


def task_com_mode_and_elements(ctx):
    """unknown centre-of-mass removal modes and unsupported principal quantum numbers are rejected; accepted modes are exactly the documented ones."""
    from contracts import C13_initial_conditions as C13

    C13.task_dof(ctx)
    # unsupported principal quantum numbers in the overlap code
    import seqm.seqm_functions.diat_overlap_PM6_SP as D

    fn = ctx.under_contract("seqm.seqm_functions.diat_overlap_PM6_SP:diatom_overlap_matrix_PM6_SP")
    qn_int = st.tensor([0, 1, 1, 2, 2, 2, 2, 2, 2, 2, 2, 3, 3, 3, 3, 3, 3, 3, 3, 4, 4])

    def thunk():
        fn(st.tensor([19]), st.tensor([1]), st.symbolic((1, 3), "x"), st.symbolic((1,), "r"), st.symbolic((1, 2), "za"), st.symbolic((1, 2), "zb"), qn_int)
        return "accepted"

    ex = ctx.explore(thunk, name="diat_overlap jcall")
    p = ex.paths[0]
    if isinstance(p.raised, ValueError) and "not supported" in str(p.raised):
        ctx.ok("unsupported-principal-quantum-number.rejected", "path-exploration")
    else:
        ctx.fail("unsupported-principal-quantum-number.rejected", "K-H pair (n = 4) was not rejected: %r" % (p.raised,))
    ctx.undecided_clause("absence of NaN/inf in floating point for accepted inputs; division-by-zero / sqrt-of-negative safety conditions on valid inputs")


def task_definedness(ctx):
    """Finite-result clause, closed-form layers: on valid inputs (interatomic distance > 0, additive terms > 0, real charge
    separations, positive (ss|ss)) every division has a non-zero divisor and every square root a non-negative radicand in
    (a) the 22/4/1 local-frame two-centre integrals and the core-electron attraction integrals, (b) the core-core repulsion of
    MNDO/AM1/PM3, (c) the pair geometry of Parser.forward (unit vectors).  Definedness condition = pyvc.expr.defined of the
    expression the real routine returns."""
    from contracts import C06_nddo_model as C06
    from contracts import C19_additivity_cutoff as C19

    fn = ctx.under_contract(C06.TGT_LF)
    ni, nj, a, tore = C06._lf_inputs()
    ex = ctx.explore(lambda: fn(ni, nj, a["r0"], tore, a["da0"], a["db0"], a["qa0"], a["qb0"], a["rho0a"], a["rho0b"], a["rho1a"], a["rho1b"], a["rho2a"], a["rho2b"], "AM1"), name="local_frame")
    if len(ex.paths) != 1 or ex.paths[0].raised is not None:
        ctx.error("local_frame.paths", "%r" % ([p.raised for p in ex.paths],))
    else:
        outs = ex.paths[0].value
        n_nontrivial = 0
        for p_, kind in enumerate(("XX", "XH", "HH")):
            pre = [a["r0"].a[p_] > 0] + [a[k].a[p_] > 0 for k in ("rho0a", "rho0b", "rho1a", "rho1b", "rho2a", "rho2b")]
            group = {"XX": (outs[2], outs[5]), "XH": (outs[1], outs[4]), "HH": (outs[0], outs[3])}[kind]
            for gname, t in zip(("ri", "core"), group):
                flat = t.a[0].reshape(-1) if t.a.ndim > 1 else t.a.reshape(-1)[:1]
                for k, v in enumerate(flat):
                    if not isinstance(v, Sym):
                        continue
                    d = E.defined(v.n)
                    if d is not E.TRUE:
                        n_nontrivial += 1
                    ctx.prove("local-frame.%s.%s[%d]-is-defined-for-r>0-and-positive-additive-terms" % (kind, gname, k), d, pc=pre)
        if n_nontrivial < 20:
            ctx.error("local_frame.vacuous", "only %d non-trivial definedness conditions" % n_nontrivial)
    # (b) core-core
    fnp = ctx.under_contract("seqm.seqm_functions.energy:pair_nuclear_energy")
    for method, ng in (("MNDO", 0), ("AM1", 4), ("PM3", 2)):
        Z, idxi, idxj, ni2, nj2, const, alpha, K, L, M, rij, gam = C06._pair_setup(max(ng, 1))
        pars = (alpha,) if method == "MNDO" else (alpha, K, L, M)
        ex = ctx.explore(lambda: fnp(None, const, 1, ni2, nj2, st.tensor(idxi), st.tensor(idxj), rij, None, None, None, None, gam=gam, method=method, parameters=pars),
                         constants={"a0": real("a0"), "ev": real("ev")}, name="pair_nuclear_energy " + method)
        if len(ex.paths) != 1 or ex.paths[0].raised is not None:
            ctx.error(method + ".paths", "%r" % ([p.raised for p in ex.paths],))
            continue
        En = ex.paths[0].value
        for k in range(5):
            ctx.prove("core-core.%s.pair%d-is-defined-for-r>0" % (method, k), E.defined(En.a[k].n), pc=[rij.a[k] > 0, real("a0") > 0, real("ev") > 0])
    # (c) Parser geometry
    fnq = ctx.under_contract(BAS + ":Parser.forward")
    species = [[8, 1, 1], [1, 1, 0]]

    def thunk():
        ps = C19.make_parser(Fraction(10) ** 10)
        mol = C19.parser_molecule(species)
        return mol, fnq(ps, mol, "AM1")

    ex = ctx.explore(thunk, name="Parser.forward", max_paths=64)
    for p in ex.paths:
        if p.raised is not None:
            continue
        mol, out = p.value
        xij, rij = out[15], out[16]
        idxi, idxj = [int(v) for v in out[13].a], [int(v) for v in out[14].a]
        flat = [(m, i) for m in range(2) for i in range(3) if species[m][i] > 0]
        x = mol.coordinates
        for k in range(len(idxi)):
            (m, i), (_, j) = flat[idxi[k]], flat[idxj[k]]
            d2 = sum((x.a[m, j, c] - x.a[m, i, c]) ** 2 for c in range(3))
            pre = list(p.pc) + [d2 > 0, real("lcf") > 0]
            for c in range(3):
                ctx.prove("parser@p%d.unit-vector[%d,%d]-is-defined-for-distinct-atoms" % (p.path_id, k, c), E.defined(xij.a[k, c].n), pc=pre)
            ctx.prove("parser@p%d.distance[%d]-is-defined" % (p.path_id, k), E.defined(rij.a[k].n), pc=pre)
    ctx.canary("definedness-needs-the-precondition", E.defined((1 / real("r")).n))
    ctx.assume_note("A1: finite = defined (no overflow); valid input: distinct atoms (r > 0), positive additive terms rho0/rho1/rho2 (their own computation, cal_par, is not covered), positive unit constants")
    ctx.undecided_clause("definedness of the additive-term solvers (cal_par), of the overlap integrals and of the SCF iteration; NaN produced by LAPACK")


TASKS_QUICK = ["species_order", "electron_count", "solver_combinations", "excited_state_guards", "com_mode_and_elements", "definedness"]
TASKS_THOROUGH = TASKS_QUICK
