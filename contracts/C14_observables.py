"""C14 -- reported observables are mutually consistent.

Functions under contract: seqm.basics:Energy.forward (ground-state path, heavy callees replaced by contract stubs),
energy.total_energy, energy.heat_formation, energy.elec_energy_isolated_atom, Electronic_Structure.forward,
Electronic_Structure.atomic_charges, dipole.calc_ground_dipole / calc_dipole_matrix, basics:Force.forward (analytical path)."""
from fractions import Fraction

import numpy as np

from pyvc.api import *
from pyvc import symtorch as st, expr as E, poly as P
from contracts.md_common import Obj
from contracts.es_common import *

EN = "seqm.seqm_functions.energy"


def _const_tables(mol):
    for nm in ("ussc", "uppc", "gssc", "gppc", "gspc", "gp2c", "hspc"):
        setattr(mol.const, nm, st.tensor([0.0] + [Sym(E.var("%s%d" % (nm, z), E.R)) for z in range(1, 10)]))


def _make_energy(hamiltonian_out, extra=None):
    import seqm.basics as B
    import torch as rt

    en = object.__new__(B.Energy)
    rt.nn.Module.__init__(en)
    en.__dict__.update(seqm_parameters={"method": "AM1", "scf_eps": 1e-6}, method="AM1", eig=True, uhf=False, excited_states=None, xlesmd=False, Hf_flag=True, md=False, namd=False)
    en.__dict__.update(extra or {})
    en.__dict__["hamiltonian"] = lambda molecule, method, P0=None: hamiltonian_out
    return en


def energy_stubs(rec):
    def pne(Z, const, nmol, ni, nj, idxi, idxj, rij, rho0xi, rho0xj, alp, chi, gam=None, method="AM1", parameters=None):
        rec["EnucAB"] = st.symbolic((len(ni),), "EnucAB")
        return rec["EnucAB"]

    def ee(Pm, F, Hcore, doTriu=True):
        rec["Eelec"] = st.symbolic((Pm.shape[0],), "Eelec")
        return rec["Eelec"]

    return {
        BAS + ":Energy._prepare_molecule_inputs": lambda self, molecule, lp, *a, **k: None,
        BAS + ":Energy._crossing_match_molecular_orbitals": staticmethod(lambda new, prev, nocc, e, verbose=False: (new, e)),
        BAS + ":Energy._crossing_match_molecular_orbitals_grouped": staticmethod(lambda new, prev, nocc, norb, e, verbose=False: (new, e)),
        BAS + ":pair_nuclear_energy": pne,
        BAS + ":elec_energy": ee,
        BAS + ":calc_ground_dipole": lambda molecule, Pm: setattr(molecule, "dipole", st.symbolic((2, 3), "dip")),
    }


def _ham_out(mol, nconv=None):
    n = 4 * mol.molsize
    F = st.symbolic((mol.nmol, n, n), "F")
    e = st.symbolic((mol.nmol, n), "e")
    Pm = st.symbolic((mol.nmol, n, n), "P")
    Hc = st.symbolic((mol.nmol, n, n), "Hc")
    w = st.symbolic((len(mol.pairs), 10, 10), "w")
    charge = st.symbolic((mol.nmol, mol.molsize), "chg")
    notconv = nconv if nconv is not None else st.T(np.array([boolean("nc%d" % m) for m in range(mol.nmol)], dtype=object), st.bool, True)
    C = st.symbolic((mol.nmol, n, n), "C")
    return (F, e, Pm, Hc, w, charge, st.symbolic((len(mol.pairs),), "rho0xi"), st.symbolic((len(mol.pairs),), "rho0xj"), None, None, notconv, C)


BATCH_SHAPES = {
    "OH+HH": [[8, 1], [1, 1]],                       # equal sizes
    "OHH+HH.": [[8, 1, 1], [1, 1, 0]],               # padded, 5 atoms / 2 molecules
    "OHH+H..": [[8, 1, 1], [1, 0, 0]],               # padded, atom total divisible by the number of molecules (4 / 2)
    "H..+OHH+HH.": [[1, 0, 0], [8, 1, 1], [1, 1, 0]],  # three molecules, 6 atoms / 3, shortest first
}


def replay_batch_totals(model):
    """real code: Hf / Etot / Enuc / charges of each molecule in padded batches whose atom total is a multiple of the number of
    molecules, against the same molecule computed alone."""
    import torch
    from seqm.seqm_functions.constants import Constants
    from seqm.Molecule import Molecule
    from seqm.ElectronicStructure import Electronic_Structure

    torch.set_default_dtype(torch.float64)
    params = {"method": "AM1", "scf_eps": 1e-9, "scf_converger": [1], "sp2": [False, 1e-5], "elements": [0, 1, 6, 8], "learned": [], "pair_outer_cutoff": 1e10, "eig": True}
    mols = {"CH4": ([6, 1, 1, 1, 1], [[0.0, 0, 0], [0.63, 0.63, 0.63], [-0.63, -0.63, 0.63], [-0.63, 0.63, -0.63], [0.63, -0.63, -0.63]]),
            "H2O": ([8, 1, 1], [[0.0, 0, 0], [0.96, 0, 0], [-0.24, 0.93, 0]]), "H2": ([1, 1], [[0.0, 0, 0], [0.74, 0, 0]]),
            "H2CO": ([8, 6, 1, 1], [[0.0, 0, 0], [1.22, 0, 0], [1.82, 0.94, 0], [1.82, -0.94, 0]])}

    def run(names):
        n = max(len(mols[k][0]) for k in names)
        sp = torch.tensor([mols[k][0] + [0] * (n - len(mols[k][0])) for k in names])
        xyz = torch.tensor([mols[k][1] + [[0.0, 0, 0]] * (n - len(mols[k][1])) for k in names])
        mol = Molecule(Constants(), params, xyz, sp)
        Electronic_Structure(params)(mol)
        return {"Hf": mol.Hf.tolist(), "Etot": mol.Etot.tolist(), "Enuc": mol.Enuc.tolist(), "Eiso": mol.Eiso.tolist(), "qsum": mol.q.sum(1).tolist()}

    alone = {k: run([k]) for k in mols}
    rows, bad = [], False
    for batch in (["CH4", "H2O"], ["H2O", "H2CO", "CH4"], ["H2CO", "H2"], ["CH4", "H2O", "H2"]):
        r = run(batch)
        for i, k in enumerate(batch):
            for key in ("Hf", "Etot", "Enuc", "Eiso"):
                d = abs(r[key][i] - alone[k][key][0])
                if d > 1e-6:
                    bad = True
                    rows.append({"batch": batch, "molecule": k, "quantity": key, "in_batch": r[key][i], "alone": alone[k][key][0]})
    return {"reproduced": bad, "rows": rows[:8]}


def task_energy_totals(ctx):
    """Etot = Eelec + sum of the molecule's pair terms, Enuc likewise, Hf = Etot - sum Eiso + sum eheat, gap = LUMO - HOMO,
    flag / charge / density pass through unchanged -- for four batch layouts (equal sizes; padded; padded with an atom total
    divisible by the number of molecules; three molecules with the shortest first)."""
    from contracts.C07_differentiability import _quiet

    fn = ctx.under_contract(BAS + ":Energy.forward", stubs=["hamiltonian", "_prepare_molecule_inputs", "pair_nuclear_energy", "elec_energy", "calc_ground_dipole", "MO matching"])
    for t in (":total_energy", ":heat_formation", ":elec_energy_isolated_atom"):
        ctx.under_contract(EN + t)
    rep = []
    rp = lambda mdl: (rep or rep.append(_quiet(replay_batch_totals)) or rep)[0]
    for tag, species in BATCH_SHAPES.items():
        rec = {}

        def thunk():
            mol = ghost_es_molecule(species=species)
            _const_tables(mol)
            ho = _ham_out(mol)
            en = _make_energy(ho)
            out = fn(en, mol, {}, all_terms=True)
            return mol, ho, out

        stubs = energy_stubs(rec)
        stubs[BAS + ":calc_ground_dipole"] = lambda molecule, Pm: (rec.__setitem__("dipole_density", Pm), setattr(molecule, "dipole", st.symbolic((molecule.nmol, 3), "dip")))[1]
        rec.pop("dipole_density", None)
        ex = ctx.explore(thunk, stubs=stubs, name="Energy.forward[%s]" % tag)
        if len(ex.paths) != 1 or ex.paths[0].raised is not None:
            ctx.error(tag + ".paths", "expected one path: %r %s" % ([p.raised for p in ex.paths], ex.paths[0].notes.get("traceback", "")[-800:] if ex.paths else ""))
            continue
        mol, ho, out = ex.paths[0].value
        Hf, Etot, Eelec, Enuc, Eiso_sum, EnucAB, e_gap, e, Pm, charge, notconv = out
        pm = [int(x) for x in mol.pair_molid.a]
        am = [int(x) for x in mol.atom_molid.a]
        Zs = [int(x) for x in mol.Z.a]
        par = mol.parameters
        for m in range(mol.nmol):
            nuc = sum((rec["EnucAB"].a[k] for k in range(len(pm)) if pm[k] == m), S(0))
            ctx.prove_eq("%s.Enuc[%d]=sum-of-own-pairs" % (tag, m), Enuc.a[m], nuc, replay=rp, classify=lambda m_, r: "batch-scatter")
            ctx.prove_eq("%s.Etot[%d]=Eelec+Enuc" % (tag, m), Etot.a[m], rec["Eelec"].a[m] + nuc, replay=rp, classify=lambda m_, r: "batch-scatter")
            ctx.prove_eq("%s.Eelec[%d]-is-the-functional-value" % (tag, m), Eelec.a[m], rec["Eelec"].a[m])
            iso = 0
            heat = 0
            for a in range(len(am)):
                if am[a] != m:
                    continue
                z = Zs[a]
                iso = iso + (par["U_ss"].a[a] * Sym(E.var("ussc%d" % z, E.R)) + par["U_pp"].a[a] * Sym(E.var("uppc%d" % z, E.R)) + par["g_ss"].a[a] * Sym(E.var("gssc%d" % z, E.R))
                             + par["g_pp"].a[a] * Sym(E.var("gppc%d" % z, E.R)) + par["g_sp"].a[a] * Sym(E.var("gspc%d" % z, E.R)) + par["g_p2"].a[a] * Sym(E.var("gp2c%d" % z, E.R))
                             + par["h_sp"].a[a] * Sym(E.var("hspc%d" % z, E.R)))
                heat = heat + Sym(E.var("eheat%d" % z, E.R))
            ctx.prove_eq("%s.Eiso_sum[%d]" % (tag, m), Eiso_sum.a[m], iso, replay=rp, classify=lambda m_, r: "batch-scatter")
            ctx.prove_eq("%s.Hf[%d]=Etot-Eiso+eheat" % (tag, m), Hf.a[m], Etot.a[m] - iso + heat, replay=rp, classify=lambda m_, r: "batch-scatter")
            nocc = int(mol.nocc.a[m])
            ctx.prove_eq("%s.gap[%d]=e[LUMO]-e[HOMO]" % (tag, m), e_gap.a[m], ho[1].a[m, nocc] - ho[1].a[m, nocc - 1])
            ctx.prove("%s.notconverged[%d]-is-the-SCF-flag" % (tag, m), notconv.a[m] == ho[10].a[m])
        ctx.prove(tag + ".density-returned-is-the-SCF-density", E.and_(*[E.eq(a.n, b.n) for a, b in zip(Pm.a.reshape(-1), ho[2].a.reshape(-1))]))
        ctx.prove(tag + ".orbital-energies-returned-are-the-SCF-ones", E.and_(*[E.eq(a.n, b.n) for a, b in zip(e.a.reshape(-1), ho[1].a.reshape(-1))]))
        dd = rec.get("dipole_density")
        if dd is None:
            ctx.fail(tag + ".dipole-is-computed-from-the-returned-density", "calc_ground_dipole was not called")
        else:
            ctx.prove(tag + ".dipole-is-computed-from-the-returned-density", E.and_(*[E.eq(a.n, b.n) for a, b in zip(dd.a.reshape(-1), Pm.a.reshape(-1))]))
        if tag == "OH+HH":
            ctx.canary_eq("Etot-mixes-molecules", Etot.a[0], rec["Eelec"].a[0] + rec["EnucAB"].a[0] + rec["EnucAB"].a[1])
    ctx.assume_note("callee contracts (proved or assumed elsewhere): hamiltonian returns (F,e,P,Hcore,w,charge,...,notconverged,C) [C03], pair_nuclear_energy [C06], elec_energy [C03/C09]; batch layouts: %s" % ", ".join(BATCH_SHAPES))
    ctx.undecided_clause("orbital energies are eigenvalues of the reported Fock matrix (LAPACK, A2); excited-state branch of Energy.forward")



def replay_xl_dipole(model):
    """real code: one XL-BOMD-mode evaluation (dm_prop='XL-BOMD') of AM1 water with the auxiliary density taken from a displaced
    geometry; the dipole published must be the one implied by the published density (calc_ground_dipole of molecule.dm)."""
    import io, contextlib, copy
    import torch
    from seqm.seqm_functions.constants import Constants
    from seqm.Molecule import Molecule
    from seqm.ElectronicStructure import Electronic_Structure
    from seqm.seqm_functions.dipole import calc_ground_dipole

    torch.set_default_dtype(torch.float64)
    params = {"method": "AM1", "scf_eps": 1e-9, "scf_converger": [1], "sp2": [False, 1e-5], "elements": [0, 1, 8], "learned": [], "pair_outer_cutoff": 1e10, "eig": True}
    sp = torch.tensor([[8, 1, 1]])
    x0 = torch.tensor([[[0.0, 0.0, 0.0], [0.96, 0.0, 0.0], [-0.24, 0.93, 0.0]]])
    with contextlib.redirect_stdout(io.StringIO()):
        m0 = Molecule(Constants(), params, x0 + torch.tensor([[[0.0, 0, 0], [0.05, 0, 0], [0.0, 0, 0]]]), sp)
        Electronic_Structure(params)(m0)
        P0 = m0.dm.detach().clone()
        mol = Molecule(Constants(), params, x0, sp)
        Electronic_Structure(params)(mol, P0=P0, dm_prop="XL-BOMD", xl_bomd_params={"k": 5})
        got = mol.dipole.detach().clone() if hasattr(mol, "dipole") else mol.d.detach().clone()
        calc_ground_dipole(mol, mol.dm.detach())
        want = mol.dipole.detach().clone() if hasattr(mol, "dipole") else mol.d.detach().clone()
    dev = float((got - want).abs().max())
    return {"reproduced": dev > 1e-10, "dipole_published": got.reshape(-1).tolist(), "dipole_of_the_published_density": want.reshape(-1).tolist(), "max_abs_difference": dev}


def task_energy_xl_observables(ctx):
    """EnergyXL.forward (the energy routine of the XL-BOMD engines; non-Krylov branch, all_terms=True): the density D it returns is
    the one sym_eig_trunc built from F(P); the dipole routine receives that D (not the auxiliary field P); the energy functional
    receives (D, P, F, Hcore) in that order; Etot = Eelec + own pair terms; Hf = Etot - Eiso + eheat.  Callees replaced by recorders."""
    import seqm.dynamics.xlbomd as XL
    import torch as rt

    XLM = "seqm.dynamics.xlbomd"
    fn = ctx.under_contract(XLM + ":EnergyXL.forward", stubs=["Parser", "Pack_Parameters", "hcore", "fock", "sym_eig_trunc", "pair_nuclear_energy", "elec_energy_xl", "calc_ground_dipole"])
    rep = []

    def rp(mdl):
        if not rep:
            try:
                rep.append(replay_xl_dipole({}))
            except Exception as exc:  # noqa
                rep.append({"reproduced": False, "error": repr(exc)[:300]})
        return rep[0]

    for tag, species in (("OH+HH", None), ("OHH+HH.", [[8, 1, 1], [1, 1, 0]])):
        rec = {}

        def thunk():
            mol = ghost_es_molecule(species=species)
            _const_tables(mol)
            n = 4 * mol.molsize
            en = object.__new__(XL.EnergyXL)
            rt.nn.Module.__init__(en)
            fields = ("nmol", "molsize", "nSuperHeavy", "nHeavy", "nHydro", "nocc", "Z", "maskd", "atom_molid", "mask", "pair_molid", "ni", "nj", "idxi", "idxj", "xij", "rij")
            mol.nSuperHeavy = st.zeros(mol.nmol, dtype=st.int64)
            mol.nHeavy = st.tensor([sum(1 for z in row if z > 1) for row in mol.species.a.tolist()])
            mol.nHydro = st.tensor([sum(1 for z in row if z == 1) for row in mol.species.a.tolist()])
            pars = dict(mol.parameters)
            en.__dict__.update(seqm_parameters={"method": "AM1", "scf_eps": 1e-6}, method="AM1", excited_states=None, Hf_flag=True,
                               parser=lambda molecule, method, *a, **k: tuple(getattr(molecule, f) for f in fields),
                               packpar=lambda Z, learned_params=None: (dict(pars, beta_s=st.symbolic((len(mol.flat),), "bs"), beta_p=st.symbolic((len(mol.flat),), "bp")), None, None))
            Paux = st.symbolic((mol.nmol, n, n), "Paux")
            rec["Paux"] = Paux
            out = fn(en, mol, Paux, None, {}, xl_bomd_params={"k": 5}, all_terms=True)
            return mol, out

        def hcore_stub(molecule):
            npair, nat = len(molecule.pairs), molecule.nmol * molecule.molsize * molecule.molsize
            rec["M"] = st.symbolic((nat, 4, 4), "M")
            return rec["M"], st.symbolic((npair, 10, 10), "w"), st.symbolic((npair,), "rho0xi"), st.symbolic((npair,), "rho0xj"), None, None

        def fock_stub(nmol, molsize, Pm, M, *a):
            rec["fock_density"] = Pm
            rec["F"] = st.symbolic((nmol, 4 * molsize, 4 * molsize), "F")
            return rec["F"]

        def eig_stub(F, nHeavy, nHydro, nocc):
            rec["eig_F"] = F
            n = F.a.shape[-1]
            rec["e"], rec["D"], rec["C"] = st.symbolic((F.a.shape[0], n), "e"), st.symbolic((F.a.shape[0], n, n), "D"), st.symbolic((F.a.shape[0], n, n), "C")
            return rec["e"], rec["D"], rec["C"]

        def pne(Z, const, nmol, ni, nj, idxi, idxj, rij, rho0xi, rho0xj, alp, chi, gam=None, method="AM1", parameters=None):
            rec["EnucAB"] = st.symbolic((len(ni),), "EnucAB")
            return rec["EnucAB"]

        def eexl(D, Pm, F, Hcore):
            rec["eexl_args"] = (D, Pm, F, Hcore)
            rec["Eelec"] = st.symbolic((D.a.shape[0],), "Eelec")
            return rec["Eelec"]

        stubs = {XLM + ":hcore": hcore_stub, XLM + ":fock": fock_stub, XLM + ":sym_eig_trunc": eig_stub, XLM + ":pair_nuclear_energy": pne, XLM + ":elec_energy_xl": eexl,
                 XLM + ":calc_ground_dipole": lambda molecule, Pm: (rec.__setitem__("dipole_density", Pm), setattr(molecule, "dipole", st.symbolic((molecule.nmol, 3), "dip")))[1]}
        ex = ctx.explore(thunk, stubs=stubs, name="EnergyXL.forward[%s]" % tag)
        if len(ex.paths) != 1 or ex.paths[0].raised is not None:
            ctx.error(tag + ".paths", "expected one path: %r %s" % ([p.raised for p in ex.paths], ex.paths[0].notes.get("traceback", "")[-900:] if ex.paths else ""))
            continue
        mol, out = ex.paths[0].value
        Hf, Etot, Eelec, EEnt, Enuc, Eiso_sum, EnucAB, D, dP2dt2, Error, e_gap, e, Fe_occ = out
        same = lambda a, b: E.and_(*[E.eq(x.n, y.n) for x, y in zip(a.a.reshape(-1), b.a.reshape(-1))]) if a.a.shape == b.a.shape else E.const(False)
        ctx.prove(tag + ".fock-is-built-from-the-auxiliary-density", same(rec["fock_density"], rec["Paux"]))
        ctx.prove(tag + ".density-returned-is-the-one-diagonalisation-built-from-F(P)", E.and_(same(D, rec["D"]), same(rec["eig_F"], rec["F"])))
        dd = rec.get("dipole_density")
        if dd is None:
            ctx.fail(tag + ".dipole-is-computed-from-the-returned-density", "calc_ground_dipole was not called", replay=rp)
        else:
            ctx.prove(tag + ".dipole-is-computed-from-the-returned-density", same(dd, D), replay=rp, classify=lambda m_, r: "dipole-of-another-density")
        a0, a1, a2, a3 = rec["eexl_args"]
        Hc = rec["M"].reshape(mol.nmol, mol.molsize, mol.molsize, 4, 4).transpose(2, 3).reshape(mol.nmol, 4 * mol.molsize, 4 * mol.molsize)
        ctx.prove(tag + ".energy-functional-receives-(D, P, F, Hcore)", E.and_(same(a0, D), same(a1, rec["Paux"]), same(a2, rec["F"]), same(a3, Hc)))
        pm = [int(x) for x in mol.pair_molid.a]
        for m in range(mol.nmol):
            nuc = sum((rec["EnucAB"].a[k] for k in range(len(pm)) if pm[k] == m), S(0))
            ctx.prove_eq("%s.Etot[%d]=Eelec+Enuc" % (tag, m), Etot.a[m], rec["Eelec"].a[m] + nuc)
            nocc = int(mol.nocc.a[m])
            ctx.prove_eq("%s.gap[%d]=e[LUMO]-e[HOMO]" % (tag, m), e_gap.a[m], rec["e"].a[m, nocc] - rec["e"].a[m, nocc - 1])
        ctx.prove(tag + ".orbital-energies-returned-are-the-diagonalisation's", same(e, rec["e"]))
    ctx.assume_note("EnergyXL.forward: non-Krylov branch (no max_rank), ground state, AM1; batch layouts OH+HH and OHH+HH with padding")
    ctx.undecided_clause("Krylov branch of EnergyXL.forward (Fermi operator expansion, rank-m kernel): observables of that branch are not under this contract")


def replay_uhf_gap(model):
    """real UHF batches: the reported gap of every molecule and spin channel equals LUMO-HOMO of the reported orbital energies."""
    import torch
    from seqm.seqm_functions.constants import Constants
    from seqm.Molecule import Molecule
    from seqm.ElectronicStructure import Electronic_Structure

    torch.set_default_dtype(torch.float64)
    params = {"method": "AM1", "scf_eps": 1e-7, "scf_converger": [1], "sp2": [False, 1e-5], "elements": [0, 1, 6, 8], "learned": [], "pair_outer_cutoff": 1e10, "eig": True, "UHF": True}
    species = torch.tensor([[8, 6, 1, 1], [8, 1, 1, 0]])
    coords = torch.tensor([[[0.0, 0, 0], [1.22, 0, 0], [1.82, 0.94, 0], [1.82, -0.94, 0]], [[0.0, 0, 0], [0.96, 0, 0], [-0.24, 0.93, 0], [0, 0, 0]]])
    mol = Molecule(Constants(), params, coords, species, charges=torch.tensor([0, 1]), mult=torch.tensor([1, 2]))
    Electronic_Structure(params)(mol)
    worst, rows = 0.0, []
    for m in range(2):
        for s in range(2):
            n = int(mol.nocc[m, s])
            want = float(mol.e_mo[m, s, n] - mol.e_mo[m, s, n - 1])
            got = float(mol.e_gap[m, s])
            rows.append({"molecule": m, "spin": s, "nocc": n, "reported_gap": got, "lumo-homo": want})
            worst = max(worst, abs(got - want))
    return {"reproduced": bool(worst > 1e-8), "input": "UHF AM1 batch [CH2O singlet, H2O+ doublet + padding]", "max_abs_gap_error_eV": worst, "rows": rows}


def task_energy_totals_uhf(ctx):
    """unrestricted reference: gap[m, s] = e[m, s, nocc[m, s]] - e[m, s, nocc[m, s] - 1] for each molecule m and spin channel s
    (occupations differ between molecules and between channels), totals and pass-through as in the restricted case."""
    from contracts.C07_differentiability import _quiet

    fn = ctx.under_contract(BAS + ":Energy.forward", stubs=["hamiltonian", "_prepare_molecule_inputs", "pair_nuclear_energy", "elec_energy", "calc_ground_dipole"])
    rec = {}
    occs = ([[4, 3], [1, 1]], [[3, 4], [1, 1]], [[4, 4], [2, 1]])

    for occ in occs:
        def thunk():
            mol = ghost_es_molecule()
            _const_tables(mol)
            n = 4 * mol.molsize
            mol.nocc = st.tensor(occ)
            F = st.symbolic((mol.nmol, 2, n, n), "F")
            e = st.symbolic((mol.nmol, 2, n), "e")
            Pm = st.symbolic((mol.nmol, 2, n, n), "P")
            ho = (F, e, Pm, st.symbolic((mol.nmol, n, n), "Hc"), st.symbolic((len(mol.pairs), 10, 10), "w"), st.symbolic((mol.nmol, mol.molsize), "chg"),
                  st.symbolic((len(mol.pairs),), "rho0xi"), st.symbolic((len(mol.pairs),), "rho0xj"), None, None,
                  st.T(np.array([boolean("nc0"), boolean("nc1")], dtype=object), st.bool, True), st.symbolic((mol.nmol, 2, n, n), "C"))
            en = _make_energy(ho, extra={"uhf": True})
            out = fn(en, mol, {}, all_terms=True)
            return mol, ho, out

        ex = ctx.explore(thunk, stubs=energy_stubs(rec), name="Energy.forward[UHF]")
        tag = "nocc=%s" % ("/".join("%d,%d" % tuple(o) for o in occ))
        if len(ex.paths) != 1 or ex.paths[0].raised is not None:
            ctx.error(tag + ".paths", "expected one path: %r %s" % ([p.raised for p in ex.paths], ex.paths[0].notes.get("traceback", "")[-800:] if ex.paths else ""))
            continue
        mol, ho, out = ex.paths[0].value
        Hf, Etot, Eelec, Enuc, Eiso_sum, EnucAB, e_gap, e, Pm, charge, notconv = out
        pm = [int(x) for x in mol.pair_molid.a]
        for m in range(mol.nmol):
            for s in range(2):
                no = occ[m][s]
                ctx.prove_eq("%s.gap[%d,%s]=e[LUMO]-e[HOMO]" % (tag, m, "ab"[s]), e_gap.a[m, s], ho[1].a[m, s, no] - ho[1].a[m, s, no - 1],
                             replay=lambda model: _quiet(replay_uhf_gap), classify=lambda m_, r: "uhf-gap")
            nuc = sum(rec["EnucAB"].a[k] for k in range(len(pm)) if pm[k] == m)
            ctx.prove_eq("%s.Etot[%d]=Eelec+Enuc" % (tag, m), Etot.a[m], rec["Eelec"].a[m] + nuc)
            ctx.prove("%s.notconverged[%d]-is-the-SCF-flag" % (tag, m), notconv.a[m] == ho[10].a[m])
        ctx.prove(tag + ".density-returned-is-the-SCF-density", E.and_(*[E.eq(a.n, b.n) for a, b in zip(Pm.a.reshape(-1), ho[2].a.reshape(-1))]))
        ctx.prove(tag + ".orbital-energies-returned-are-the-SCF-ones", E.and_(*[E.eq(a.n, b.n) for a, b in zip(e.a.reshape(-1), ho[1].a.reshape(-1))]))
        ctx.prove(tag + ".orbitals-published-are-the-SCF-ones", E.const(mol.molecular_orbitals is ho[11]))
    ctx.assume_note("shape: batch [OH, HH] with (alpha, beta) occupations (4,3)/(1,1), (3,4)/(1,1), (4,4)/(2,1)")


def task_binding(ctx):
    """Electronic_Structure.forward binds each published attribute to the right slot of the force evaluator's tuple and derives
    atomic charges from the density it publishes."""
    import seqm.ElectronicStructure as ES
    import torch as rt

    fn = ctx.under_contract("seqm.ElectronicStructure:Electronic_Structure.forward", stubs=["conservative_force"])
    ctx.under_contract("seqm.ElectronicStructure:Electronic_Structure.atomic_charges")
    names = ["force", "P", "Hf", "Etot", "Eelec", "Enuc", "Eiso", "e_mo", "e_gap", "charge", "notconverged"]

    def thunk():
        mol = ghost_es_molecule()
        es = object.__new__(ES.Electronic_Structure)
        rt.nn.Module.__init__(es)
        n = 4 * mol.molsize
        vals = {k: st.symbolic((2,), "slot_" + k) for k in names}
        vals["P"] = st.symbolic((2, n, n), "P")
        es.__dict__["conservative_force"] = lambda molecule, **kw: tuple(vals[k] for k in names)
        fn(es, mol, P0=None)
        return es, mol, vals

    ex = ctx.explore(thunk, name="Electronic_Structure.forward")
    if len(ex.paths) != 1 or ex.paths[0].raised is not None:
        ctx.error("paths", "%r %s" % ([p.raised for p in ex.paths], ex.paths[0].notes.get("traceback", "")[-800:] if ex.paths else ""))
        return
    es, mol, vals = ex.paths[0].value
    for attr, slot, holder in (("force", "force", mol), ("Hf", "Hf", mol), ("Etot", "Etot", mol), ("Eelec", "Eelec", mol), ("Enuc", "Enuc", mol), ("Eiso", "Eiso", mol),
                               ("e_mo", "e_mo", mol), ("e_gap", "e_gap", mol), ("charge", "charge", es), ("notconverged", "notconverged", es), ("dm", "P", mol)):
        got = getattr(holder, attr)
        ctx.prove("binds.%s<-%s" % (attr, slot), E.and_(*[E.eq(a.n, b.n) for a, b in zip(got.a.reshape(-1), vals[slot].a.reshape(-1))]))
    # charges: q_A = Z_A(valence) - sum of the diagonal of A's block; sum q = sum Z - tr P
    sp = [[8, 1], [1, 1]]
    for m in range(2):
        tot = 0
        for i in range(2):
            want = Sym(E.var("tore%d" % sp[m][i], E.R)) - sum(vals["P"].a[m, 4 * i + k, 4 * i + k] for k in range(4))
            ctx.prove_eq("q[%d,%d]=Z-diag-block" % (m, i), mol.q.a[m, i], want)
            tot = tot + mol.q.a[m, i]
        ctx.prove_eq("sum-q[%d]=sum-Z-trP" % m, tot, sum(Sym(E.var("tore%d" % z, E.R)) for z in sp[m]) - sum(vals["P"].a[m, k, k] for k in range(8)))


def replay_dipole_padding(model):
    """real code: the dipole of OH- (total charge -1) computed alone and zero-padded next to methane, with two different sets of
    padding coordinates: the three must agree (C05) and equal sum q_A r_A + hybridisation built from the published charges."""
    import io, contextlib
    import torch
    from seqm.seqm_functions.constants import Constants
    from seqm.Molecule import Molecule
    from seqm.ElectronicStructure import Electronic_Structure

    torch.set_default_dtype(torch.float64)
    params = {"method": "AM1", "scf_eps": 1e-9, "scf_converger": [1], "sp2": [False, 1e-5], "elements": [0, 1, 6, 8], "learned": [], "pair_outer_cutoff": 1e10, "eig": True}
    oh = [[0.3, 0.2, -0.1], [1.25, 0.35, 0.05]]
    ch4 = [[5.0, 5.0, 5.0], [5.63, 5.63, 5.63], [4.37, 4.37, 5.63], [4.37, 5.63, 4.37], [5.63, 4.37, 4.37]]

    def dip(species, xyz, charges):
        mol = Molecule(Constants(), dict(params), torch.tensor(xyz), torch.tensor(species), charges=torch.tensor(charges))
        with contextlib.redirect_stdout(io.StringIO()):
            Electronic_Structure(dict(params))(mol)
        return mol.dipole.detach().clone()

    alone = dip([[8, 1]], [oh], [-1])[0]
    pad0 = [[0.0, 0.0, 0.0]] * 3
    pad1 = [[9.0, -7.0, 3.0]] * 3
    b0 = dip([[6, 1, 1, 1, 1], [8, 1, 0, 0, 0]], [ch4, oh + pad0], [0, -1])[1]
    b1 = dip([[6, 1, 1, 1, 1], [8, 1, 0, 0, 0]], [ch4, oh + pad1], [0, -1])[1]
    dev = max(float((alone - b0).abs().max()), float((alone - b1).abs().max()))
    return {"reproduced": dev > 1e-7, "dipole_alone": alone.tolist(), "in_batch_padding_at_origin": b0.tolist(), "in_batch_other_padding_coordinates": b1.tolist(), "max_abs_difference": dev}


def dipole_contract(ctx):
    """calc_ground_dipole = sum over the molecule's REAL atoms of q_A r_A + hybridisation term -- for a dense and a zero-padded batch
    (symbolic padding coordinates, symbolic total charges): it mentions no padding coordinate and no other molecule; translating
    the molecule by t shifts it by (sum Z - tr P) t."""
    fn = ctx.under_contract("seqm.seqm_functions.dipole:calc_ground_dipole")
    ctx.under_contract("seqm.seqm_functions.dipole:calc_dipole_matrix", stubs=["dd_qq"])
    rep = []

    def rp(m_):
        if not rep:
            try:
                rep.append(replay_dipole_padding({}))
            except Exception as exc:  # noqa
                rep.append({"reproduced": False, "error": repr(exc)[:300]})
        return rep[0]

    def dd_stub(qn, zs, zp):
        return st.symbolic((len(qn),), "dd"), st.symbolic((len(qn),), "qq")

    for tagl, species in (("dense", [[8, 1], [1, 1]]), ("padded", [[8, 1, 1], [1, 1, 0]])):
        nmol, molsize = len(species), len(species[0])
        n = 4 * molsize

        def run(shift):
            def thunk():
                mol = ghost_es_molecule(species=species)
                mol.const.qn = st.tensor([0.0, 1, 1, 2, 2, 2, 2, 2, 2, 2])
                mol.tot_charge = st.symbolic((nmol,), "Qtot")
                mol.charges = mol.tot_charge
                if shift:
                    t = st.symbolic((3,), "t")
                    mol.coordinates = mol.coordinates + t
                Pm = st.symbolic((nmol, n, n), "P")
                # precondition (packing invariant, C05): the density vanishes on the p slots of hydrogen atoms and on padding slots
                for m in range(nmol):
                    for i, z in enumerate(species[m]):
                        ks = range(1, 4) if z == 1 else (range(0, 4) if z == 0 else ())
                        for k in ks:
                            Pm.a[m, 4 * i + k, :] = S(0.0)
                            Pm.a[m, :, 4 * i + k] = S(0.0)
                fn(mol, Pm)
                return mol, Pm
            return ctx.explore(thunk, stubs={"seqm.seqm_functions.dipole:dd_qq": dd_stub}, constants={"a0": real("a0"), "to_debye": real("to_debye"), "debye_to_AU": real("debye_to_AU")}, name="dipole " + tagl)

        ex0, ex1 = run(False), run(True)
        bad_paths = False
        for ex in (ex0, ex1):
            if len(ex.paths) != 1 or ex.paths[0].raised is not None:
                p0 = ex.paths[0] if ex.paths else None
                if p0 is not None and isinstance(p0.raised, Unmodelled):
                    raise p0.raised
                ctx.fail(tagl + ".returns", "%r %s" % ([p.raised for p in ex.paths], p0.notes.get("traceback", "")[-600:] if p0 else ""), replay=rp(None))
                bad_paths = True
        if bad_paths:
            continue
        mol0, Pm = ex0.paths[0].value
        mol1, _ = ex1.paths[0].value
        unit = real("to_debye") * real("debye_to_AU")
        x = st.symbolic((nmol, molsize, 3), "x")
        heavy_index = 0
        for m in range(nmol):
            ntot = sum(Sym(E.var("tore%d" % z, E.R)) for z in species[m] if z > 0) - sum(Pm.a[m, k, k] for k in range(n))
            for c in range(3):
                q_r = sum(((Sym(E.var("tore%d" % z, E.R)) - sum(Pm.a[m, 4 * i + k, 4 * i + k] for k in range(4))) * x.a[m, i, c] for i, z in enumerate(species[m]) if z > 0), S(0))
                hyb = S(0)
                hi = heavy_index
                for i, z in enumerate(species[m]):
                    if z > 1:
                        hyb = hyb - (real("dd_%d" % hi) * real("a0")) * (Pm.a[m, 4 * i, 4 * i + c + 1] + Pm.a[m, 4 * i + c + 1, 4 * i])
                        hi += 1
                ctx.prove_eq("%s.dipole[%d,%d]=sum q r over its real atoms + hybridisation" % (tagl, m, c), mol0.dipole.a[m, c], (q_r + hyb) * unit, replay=rp, classify=lambda m_, r: "dipole-depends-on-padding-or-batch")
                ctx.prove_eq("%s.translation-shifts-dipole-by-net-charge[%d,%d]" % (tagl, m, c), mol1.dipole.a[m, c] - mol0.dipole.a[m, c], ntot * real("t_%d" % c) * unit, replay=rp)
                foreign = set()
                for v in E.free_vars(mol0.dipole.a[m, c].n):
                    nm = v.val
                    if nm.startswith("x_"):
                        mm, ii = int(nm.split("_")[1]), int(nm.split("_")[2])
                        if mm != m or species[mm][ii] == 0:
                            foreign.add(nm)
                    if nm.startswith("Qtot_") and int(nm.split("_")[1]) != m:
                        foreign.add(nm)
                (ctx.ok if not foreign else ctx.fail)("%s.dipole[%d,%d].mentions-only-its-own-real-atoms" % (tagl, m, c), "frame" if not foreign else "mentions %s" % sorted(foreign), **({} if not foreign else {"replay": rp(None)}))
            heavy_index += sum(1 for z in species[m] if z > 1)
    ctx.assume_note("dd_qq (hybridisation arm) replaced by an uninterpreted stub; unit factors as named symbols; batches [OH, HH] and [OHH, HH+padding]; the molecule carries symbolic total charges")


def task_dipole(ctx):
    """calc_ground_dipole = sum_A q_A r_A + hybridisation term over the molecule's real atoms (dense and zero-padded batch); translating the molecule by t shifts it by (sum Z - tr P) t."""
    dipole_contract(ctx)


def replay_orbital_pairs(model):
    """real _crossing_match_molecular_orbitals on real torch: previous orbitals = identity, new orbitals = its columns in another
    order (every permutation of three occupied and three virtual columns, with sign flips); after matching, column i and energy i
    must still be a pair: F C_i = e_i C_i for F = sum_k e_k c_k c_k^T."""
    import itertools
    import torch
    from seqm.basics import Energy

    torch.set_default_dtype(torch.float64)
    e = torch.tensor([[-3.0, -2.0, -1.0, 1.0, 2.5, 4.0]])
    prev = torch.eye(6).unsqueeze(0)
    worst, where = 0.0, None
    for po in itertools.permutations(range(3)):
        for pv in itertools.permutations(range(3)):
            cols = list(po) + [3 + k for k in pv]
            new = prev[:, :, cols].clone()
            new[:, :, 1] *= -1.0
            F = (new * e[:, None, :]) @ new.transpose(1, 2)
            C, em = Energy._crossing_match_molecular_orbitals(new.clone(), prev.clone(), 3, e.clone())
            res = float((F @ C - C * em[:, None, :]).abs().max())
            if res > worst:
                worst, where = res, (po, pv)
    return {"reproduced": worst > 1e-12, "max |F C_i - e_i C_i| over all 36 column orders": worst, "worst order (occupied, virtual)": str(where)}


def task_orbital_pairs(ctx):
    """Energy._crossing_match_molecular_orbitals (orbital tracking between two calls on one molecule): what it returns is a
    re-ordering of the (orbital, orbital energy) PAIRS within the occupied and within the virtual block: for every returned
    column i that is +-(new column k), the returned energy i is the energy of new column k.  Real function on the shim; previous
    orbitals = identity columns, new orbitals = the same columns in every order (36 orders of 3 + 3, one column with its sign
    flipped), orbital energies symbolic."""
    import itertools
    import seqm.basics as B

    ctx.under_contract(BAS + ":Energy._crossing_match_molecular_orbitals")
    fn = B.Energy._crossing_match_molecular_orbitals
    rep = []

    def rp(m_):
        if not rep:
            try:
                rep.append(replay_orbital_pairs({}))
            except Exception as exc:  # noqa
                rep.append({"reproduced": False, "error": repr(exc)[:300]})
        return rep[0]

    n_checked = 0
    for po in itertools.permutations(range(3)):
        for pv in itertools.permutations(range(3)):
            cols = list(po) + [3 + k for k in pv]

            def thunk():
                prev = st.tensor(np.eye(6).reshape(1, 6, 6))
                newa = np.eye(6)[:, cols].copy()
                newa[:, 1] *= -1.0
                new = st.tensor(newa.reshape(1, 6, 6))
                e = st.symbolic((1, 6), "emo")
                C, em = fn(new.clone(), prev.clone(), 3, e.clone())
                return C, em, new, e

            ex = ctx.explore(thunk, name="orbital matching %r" % (cols,), max_paths=8)
            for p in ex.paths:
                if p.raised is not None:
                    raise p.raised if isinstance(p.raised, Unmodelled) else Unmodelled("orbital matching raised %r" % (p.raised,))
                C, em, new, e = p.value
                for i in range(6):
                    col = [C.a[0, r, i] for r in range(6)]
                    k = None
                    for kk in range(6):
                        nc = [new.a[0, r, kk] for r in range(6)]
                        same = all(E.node_of(a) is E.node_of(b) or (E.node_of(a).op == "const" and E.node_of(b).op == "const" and abs(E.node_of(a).val) == abs(E.node_of(b).val)) for a, b in zip(col, nc))
                        if same:
                            k = kk
                    if k is None:
                        ctx.fail("orbital_pairs.order=%s.column[%d]-is-a-new-column" % ("".join(map(str, cols)), i), "returned column is not +- a column of the new orbitals", replay=rp(None))
                        continue
                    ctx.prove_eq("orbital_pairs.order=%s.energy[%d]-belongs-to-column[%d]" % ("".join(map(str, cols)), i, i), em.a[0, i], e.a[0, k], pc=p.pc, replay=rp, classify=lambda m_, r: "orbital-energies-permuted-against-orbitals")
                    n_checked += 1
    if not n_checked:
        ctx.error("orbital_pairs.vacuous", "no obligation generated")
    ctx.assume_note("orbital_pairs: overlaps between previous and new orbitals are exactly 0 or 1 (re-ordered identity columns); the greedy repair for ambiguous overlaps is reached only through its bijectivity test, not with competing candidates")


def task_force_plumbing(ctx):
    """Force.forward (analytical evaluator): returned force = -analytical gradient, tuple slots, flag passed through."""
    import seqm.basics as B
    import torch as rt

    fn = ctx.under_contract(BAS + ":Force.forward", stubs=["energy"])
    names = ["Hf", "Etot", "Eelec", "Enuc", "Eiso", "EnucAB", "e_gap", "e", "D", "charge", "notconverged"]

    def thunk():
        mol = ghost_es_molecule()
        fo = object.__new__(B.Force)
        rt.nn.Module.__init__(fo)
        fo.__dict__.update(create_graph=False, uhf=False, eig=True, seqm_parameters={"analytical_gradient": [True]})
        vals = {k: st.symbolic((2,), "slot_" + k) for k in names}
        g = st.symbolic((2, 2, 3), "grad")

        def en(molecule, **kw):
            molecule.analytical_gradient = g
            return tuple(vals[k] for k in names)

        fo.__dict__["energy"] = en
        return fn(fo, mol), vals, g

    ex = ctx.explore(thunk, name="Force.forward")
    if len(ex.paths) != 1 or ex.paths[0].raised is not None:
        ctx.error("paths", "%r %s" % ([p.raised for p in ex.paths], ex.paths[0].notes.get("traceback", "")[-800:] if ex.paths else ""))
        return
    out, vals, g = ex.paths[0].value
    ctx.prove("force=-analytical_gradient", E.and_(*[E.eq(a.n, (-b).n) for a, b in zip(out[0].a.reshape(-1), g.a.reshape(-1))]))
    for pos, slot in enumerate(["D", "Hf", "Etot", "Eelec", "Enuc", "Eiso", "e", "e_gap", "charge", "notconverged"], start=1):
        ctx.prove("tuple[%d]<-%s" % (pos, slot), E.and_(*[E.eq(a.n, b.n) for a, b in zip(out[pos].a.reshape(-1), vals[slot].a.reshape(-1))]))


TASKS_QUICK = ["energy_totals", "energy_xl_observables", "energy_totals_uhf", "binding", "dipole", "orbital_pairs", "force_plumbing"]
TASKS_THOROUGH = TASKS_QUICK
