"""C02 -- invariance / covariance under rigid motions: frame-rotation layer.

Functions under contract (real code, /repo working tree):
  seqm.seqm_functions.two_elec_two_center_int:rotate_with_quaternion
  seqm.seqm_functions.two_elec_two_center_int:w_withquaternion
"""
from fractions import Fraction

import numpy as np

from pyvc.api import *
from pyvc import symtorch as st, expr as E, poly as P

TGT_ROT = "seqm.seqm_functions.two_elec_two_center_int:rotate_with_quaternion"
TGT_W = "seqm.seqm_functions.two_elec_two_center_int:w_withquaternion"

EPS = {st.float64: Fraction("1e-7"), st.float32: Fraction("5e-4")}


def _unit_v(dt):
    vx, vy, vz = real("vx"), real("vy"), real("vz")
    v = st.tensor([[vx, vy, vz]], dtype=dt)
    unit = (vx * vx + vy * vy + vz * vz == 1)
    return (vx, vy, vz), v, unit


# ----------------------------------------------------------------------------
# replay helpers (real torch)


def _real_v(model, dt):
    import torch

    v = np.array([model_float(model, k) for k in ("vx", "vy", "vz")], dtype=np.float64)
    nrm = np.linalg.norm(v)
    if nrm == 0:
        return None
    v = v / nrm
    return torch.tensor(v[None, :], dtype=torch.float64 if dt == st.float64 else torch.float32)


def replay_row0(model, dt=st.float64):
    """rot[0,:] == v on the real function at the model's unit vector."""
    import torch
    from seqm.seqm_functions.two_elec_two_center_int import rotate_with_quaternion

    v = _real_v(model, dt)
    if v is None:
        return {"reproduced": False, "reason": "degenerate model"}
    rot = rotate_with_quaternion(v)
    err = float((rot[0, 0, :] - v[0]).abs().max())
    tol = 1e-9 if dt == st.float64 else 1e-5
    # the same clause on a rotated bond: the first row of R must be the bond direction, so R v = e_x
    rv = float((rot[0] @ v[0] - torch.tensor([1.0, 0, 0], dtype=v.dtype)).abs().max())
    return {"reproduced": bool(err > tol), "input_v": v[0].tolist(), "rot_row0": rot[0, 0].tolist(), "max_abs_err": err, "|R v - e_x|": rv, "tolerance": tol}


def replay_tangent(model, dt=st.float64):
    """sum_k delta_k dRdv[k,0,j] == delta_j for tangent delta on the real function (central difference cross-check)."""
    import torch
    from seqm.seqm_functions.two_elec_two_center_int import rotate_with_quaternion

    v = _real_v(model, dt)
    if v is None:
        return {"reproduced": False}
    rot, dRdv = rotate_with_quaternion(v, True)
    # build two tangent vectors
    vv = v[0]
    a = torch.tensor([0.0, 1.0, 0.0], dtype=vv.dtype) if abs(float(vv[1])) < 0.9 else torch.tensor([0.0, 0.0, 1.0], dtype=vv.dtype)
    t1 = a - (a @ vv) * vv
    t1 = t1 / t1.norm()
    t2 = torch.linalg.cross(vv, t1)
    worst = 0.0
    for d in (t1, t2):
        got = torch.einsum("k,kj->j", d, dRdv[0, :, 0, :])
        worst = max(worst, float((got - d).abs().max()))
    tol = 1e-7 if dt == st.float64 else 1e-3
    return {"reproduced": bool(worst > tol), "input_v": vv.tolist(), "max_abs_err_row0_tangent": worst, "dRdv[:,0,:]": dRdv[0, :, 0, :].tolist()}


def replay_jacobian(model, dt=st.float64):
    """hand-coded dRdv and the reverse-mode Jacobian of rot, both against a central difference of the real function at the
    model's vector (v free in R^3, as in clause O3(a))."""
    import torch
    from seqm.seqm_functions.two_elec_two_center_int import rotate_with_quaternion

    tdt = torch.float64 if dt == st.float64 else torch.float32
    v = torch.tensor([[model_float(model, k) for k in ("vx", "vy", "vz")]], dtype=tdt)
    if float(v.norm()) == 0:
        return {"reproduced": False, "reason": "degenerate model"}
    rot, dRdv = rotate_with_quaternion(v, True)
    auto = torch.autograd.functional.jacobian(lambda x: rotate_with_quaternion(x)[0], v)[:, :, 0, :]  # [i,j,k]
    h = 1e-6 if dt == st.float64 else 1e-3
    fd = torch.zeros(3, 3, 3, dtype=tdt)
    for k in range(3):
        e = torch.zeros_like(v)
        e[0, k] = h
        fd[:, :, k] = (rotate_with_quaternion(v + e)[0] - rotate_with_quaternion(v - e)[0]) / (2 * h)
    hand = dRdv[0].permute(1, 2, 0)
    tol = 1e-5 if dt == st.float64 else 2e-2
    e_hand, e_auto = float((hand - fd).abs().max()), float((auto - fd).abs().max())
    return {"reproduced": bool(e_hand > tol or e_auto > tol), "input_v": v[0].tolist(), "max|hand-coded dRdv - central difference|": e_hand,
            "max|reverse-mode Jacobian - central difference|": e_auto, "tolerance": tol}


def classify_branch(model, rep):
    vx = model_float(model, "vx")
    return "antipodal-branch" if abs(1.0 + vx) < 1e-3 else "generic-orientation"


# ----------------------------------------------------------------------------
# O1: orthogonality, determinant, row 0 = v


def task_rotq(ctx):
    fn = ctx.under_contract(TGT_ROT)
    for dt in (st.float64, st.float32):
        tag = "f64" if dt == st.float64 else "f32"
        (vx, vy, vz), v, unit = _unit_v(dt)
        eps = EPS[dt]

        def thunk():
            assume(unit)
            rot = fn(v)
            # branch label: which side of the code's own case split the path is on (the eps test of the quaternion
            # construction and, since the repair, the half-space chart v_x < 0)
            inside = bool(abs(1 + vx) < Sym(E.const(eps, E.R)))
            br = "antipodal" if inside else ("generic" if bool(vx >= 0) else "generic-flipped-chart")
            R = rot.a[0]
            for i in range(3):
                for j in range(i, 3):
                    dot = R[i, 0] * R[j, 0] + R[i, 1] * R[j, 1] + R[i, 2] * R[j, 2]
                    oblige("%s.%s.orthogonal[%d,%d]" % (tag, br, i, j), dot == (1 if i == j else 0))
            det = (R[0, 0] * (R[1, 1] * R[2, 2] - R[1, 2] * R[2, 1]) - R[0, 1] * (R[1, 0] * R[2, 2] - R[1, 2] * R[2, 0])
                   + R[0, 2] * (R[1, 0] * R[2, 1] - R[1, 1] * R[2, 0]))
            oblige("%s.%s.det" % (tag, br), det == 1)
            for j, c in enumerate((vx, vy, vz)):
                oblige("%s.%s.row0[%d]" % (tag, br, j), R[0, j] == c, replay=lambda m, dt=dt: replay_row0(m, dt), classify=classify_branch)
            return br

        ex = ctx.explore(thunk, name="rotq-" + tag)
        branches = sorted(set(p.value for p in ex.paths))
        if "generic" not in branches or len(branches) < 2:
            ctx.error("%s.paths" % tag, "expected at least two branches of the construction, got %r" % (branches,))
        for p in ex.paths:
            ctx.cover("%s.%s.reachable" % (tag, p.value), p.pc)
        ctx.discharge(ex.all_obligations())
    ctx.canary("row1-is-not-v", real("vx") == real("vy"), [real("vx") * real("vx") + real("vy") * real("vy") == 1])
    ctx.assume_note("shape: generic pair (batch axis of length 1 with fully symbolic unit vector); the function acts pointwise on that axis")


# ----------------------------------------------------------------------------
# O3: Jacobian of the frame rotation


def task_rotq_jacobian(ctx):
    fn = ctx.under_contract(TGT_ROT)
    for dt in (st.float64, st.float32):
        tag = "f64" if dt == st.float64 else "f32"
        (vx, vy, vz), v, unit = _unit_v(dt)
        eps = EPS[dt]
        d = [real("dx"), real("dy"), real("dz")]
        tangent = (d[0] * vx + d[1] * vy + d[2] * vz == 0)

        def thunk():
            # (a) implementation-level: dRdv is the Jacobian of the implemented map, v free in R^3 minus {N = 0}
            rot, dRdv = fn(v, True)
            inside = bool(abs(1 + vx) < Sym(E.const(eps, E.R)))
            br = "antipodal" if inside else ("generic" if bool(vx >= 0) else "generic-flipped-chart")
            R, J = rot.a[0], dRdv.a[0]
            out = {"br": br, "impl": [], "tan": []}
            for k, vk in enumerate((vx, vy, vz)):
                for i in range(3):
                    for j in range(3):
                        out["impl"].append(("%s.%s.dRdv=d(rot)[%d,%d,%d]" % (tag, br, k, i, j), J[k, i, j], Sym(E.diff(R[i, j].n, vk.n))))
            # (b) property-level, tangent space of the unit sphere: row 0 follows the bond direction
            for j in range(3):
                lhs = d[0] * J[0, 0, j] + d[1] * J[1, 0, j] + d[2] * J[2, 0, j]
                out["tan"].append(("%s.%s.row0-tangent[%d]" % (tag, br, j), lhs, d[j]))
            return out

        ex = ctx.explore(thunk, name="rotq-jac-" + tag)
        brs = set(p.value["br"] for p in ex.paths)
        if "generic" not in brs or len(brs) < 2:
            ctx.error("%s.paths" % tag, "expected at least two branches, got %r" % sorted(brs))
        for p in ex.paths:
            for name, a, b in p.value["impl"]:
                ctx.prove_eq(name, a, b, pc=p.pc, replay=lambda m, dt=dt: replay_jacobian(m, dt), classify=classify_branch)
            for name, a, b in p.value["tan"]:
                ctx.prove(name, a == b, pc=list(p.pc) + [unit, tangent], replay=lambda m, dt=dt: replay_tangent(m, dt), classify=classify_branch)
    ctx.assume_note("O3(a) treats v as a free vector of R^3 (the Jacobian the caller composes with the unit-vector projector)")


# ----------------------------------------------------------------------------
# O2: rotation of the local-frame integrals = 4-index tensor transformation


def _pairs_setup():
    """three pairs: X-X (O,C), X-H (O,H), H-H; fully symbolic unit vectors, integrals and core charges."""
    ni = st.tensor([8, 8, 1])
    nj = st.tensor([6, 1, 1])
    xij = st.symbolic((3, 3), "x")
    ri = st.symbolic((1, 22), "ri")
    riXH = st.symbolic((1, 4), "rh")
    wHH = st.symbolic((1,), "whh")
    tore = st.zeros(10)
    for z in (1, 6, 8):
        tore.a[z] = real("tore%d" % z)
    return ni, nj, xij, ri, riXH, wHH, tore


def task_w_rotation(ctx):
    from spec import nddo

    fn = ctx.under_contract(TGT_W, stubs=[TGT_ROT])
    ni, nj, xij, ri, riXH, wHH, tore = _pairs_setup()
    Rsym = st.symbolic((3, 3, 3), "R")
    seen = {}

    def rot_stub(v, calculate_gradient=False):
        # callee contract: rot is *some* matrix field of v (O2 needs no more; orthogonality / row 0 are O1)
        seen["v"] = v
        assert not calculate_gradient
        return Rsym

    def thunk():
        return fn(None, tore, ni, nj, xij, riXH, ri, wHH)

    ex = ctx.explore(thunk, stubs={TGT_ROT: rot_stub}, name="w_withquaternion")
    if len(ex.paths) != 1 or ex.paths[0].raised is not None:
        ctx.error("paths", "expected one straight-line path, got %d (%r)" % (len(ex.paths), ex.paths[0].raised if ex.paths else None))
        return
    e1b, e2a, wXH, w = ex.paths[0].value
    # the callee is applied to -xij: row 0 of the frame is the direction from atom j to atom i
    vv = seen["v"]
    for p in range(3):
        for c in range(3):
            ctx.prove_eq("frame-argument[%d,%d]" % (p, c), vv.a[p, c], -xij.a[p, c])
    order = nddo.pair_order()
    # X-X pair is pair 0 -> rot row Rsym[0]; X-H pair is pair 1 -> Rsym[1]
    T_XX = nddo.ao_transform(Rsym.a[0])
    L = nddo.local_tensor(list(ri.a[0]))
    for a, (kk, ll) in enumerate(order):
        for b, (mm, nn) in enumerate(order):
            ctx.prove_eq("XX.w[(%d%d|%d%d)]" % (kk, ll, mm, nn), w.a[0, a * 10 + b], nddo.rotated_integral(L, T_XX, kk, ll, mm, nn))
    T_XH = nddo.ao_transform(Rsym.a[1])
    LH = nddo.local_tensor_XH(list(riXH.a[0]))
    for a, (kk, ll) in enumerate(order):
        ctx.prove_eq("XH.w[(%d%d|ss)]" % (kk, ll), wXH.a[0, a], nddo.rotated_integral(LH, T_XH, kk, ll, 0, 0))
    # core-electron attraction blocks: e1b[mu,nu] = -Z_B (mu nu|ss), e2a[mu,nu] = -Z_A (ss|mu nu), upper triangle
    z = {0: (real("tore8"), real("tore6")), 1: (real("tore8"), real("tore1")), 2: (real("tore1"), real("tore1"))}
    for p, label in ((0, "XX"), (1, "XH"), (2, "HH")):
        ZA, ZB = z[p]
        for mu in range(4):
            for nu in range(4):
                if label == "XX":
                    e1 = -ZB * nddo.rotated_integral(L, T_XX, nu, mu, 0, 0) if mu <= nu else 0
                    e2 = -ZA * nddo.rotated_integral(L, T_XX, 0, 0, nu, mu) if mu <= nu else 0
                elif label == "XH":
                    e1 = -ZB * nddo.rotated_integral(LH, T_XH, nu, mu, 0, 0) if mu <= nu else 0
                    e2 = -ZA * riXH.a[0, 0] if (mu, nu) == (0, 0) else 0
                else:
                    e1 = -ZB * wHH.a[0] if (mu, nu) == (0, 0) else 0
                    e2 = -ZA * wHH.a[0] if (mu, nu) == (0, 0) else 0
                ctx.prove_eq("%s.e1b[%d,%d]" % (label, mu, nu), e1b.a[p, mu, nu], e1)
                ctx.prove_eq("%s.e2a[%d,%d]" % (label, mu, nu), e2a.a[p, mu, nu], e2)
    ctx.canary_eq("w-entry-swapped", w.a[0, 1 * 10 + 0], nddo.rotated_integral(L, T_XX, 2, 0, 0, 0))
    ctx.assume_note("shape: one pair of each kind (X-X, X-H, H-H); the routine is pointwise in the pair axis (indexing by the pair-kind masks only)")


TASKS_QUICK = ["rotq", "rotq_jacobian", "w_rotation"]
TASKS_THOROUGH = TASKS_QUICK
