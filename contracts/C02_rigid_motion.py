"""C02 -- invariance / covariance under rigid motions: frame-rotation layer.

Functions under contract (real code, /repo working tree):
  seqm.seqm_functions.two_elec_two_center_int:rotate_with_quaternion
  seqm.seqm_functions.two_elec_two_center_int:w_withquaternion
"""
from fractions import Fraction

import numpy as np

from pyvc.api import *
from pyvc import symtorch as st, expr as E, poly as P

TGT_ROT = "seqm.seqm_functions.two_elec_two_center_int:rotate_with_quaternion"
TGT_W = "seqm.seqm_functions.two_elec_two_center_int:w_withquaternion"

EPS = {st.float64: Fraction("1e-7"), st.float32: Fraction("5e-4")}


def _unit_v(dt):
    vx, vy, vz = real("vx"), real("vy"), real("vz")
    v = st.tensor([[vx, vy, vz]], dtype=dt)
    unit = (vx * vx + vy * vy + vz * vz == 1)
    return (vx, vy, vz), v, unit


# ----------------------------------------------------------------------------
# replay helpers (real torch)


def _real_v(model, dt):
    import torch

    v = np.array([model_float(model, k) for k in ("vx", "vy", "vz")], dtype=np.float64)
    nrm = np.linalg.norm(v)
    if nrm == 0:
        return None
    v = v / nrm
    return torch.tensor(v[None, :], dtype=torch.float64 if dt == st.float64 else torch.float32)


def replay_row0(model, dt=st.float64):
    """rot[0,:] == v on the real function at the model's unit vector."""
    import torch
    from seqm.seqm_functions.two_elec_two_center_int import rotate_with_quaternion

    v = _real_v(model, dt)
    if v is None:
        return {"reproduced": False, "reason": "degenerate model"}
    rot = rotate_with_quaternion(v)
    err = float((rot[0, 0, :] - v[0]).abs().max())
    tol = 1e-9 if dt == st.float64 else 1e-5
    # the same clause on a rotated bond: the first row of R must be the bond direction, so R v = e_x
    rv = float((rot[0] @ v[0] - torch.tensor([1.0, 0, 0], dtype=v.dtype)).abs().max())
    return {"reproduced": bool(err > tol), "input_v": v[0].tolist(), "rot_row0": rot[0, 0].tolist(), "max_abs_err": err, "|R v - e_x|": rv, "tolerance": tol}


def replay_tangent(model, dt=st.float64):
    """sum_k delta_k dRdv[k,0,j] == delta_j for tangent delta on the real function (central difference cross-check)."""
    import torch
    from seqm.seqm_functions.two_elec_two_center_int import rotate_with_quaternion

    v = _real_v(model, dt)
    if v is None:
        return {"reproduced": False}
    rot, dRdv = rotate_with_quaternion(v, True)
    # build two tangent vectors
    vv = v[0]
    a = torch.tensor([0.0, 1.0, 0.0], dtype=vv.dtype) if abs(float(vv[1])) < 0.9 else torch.tensor([0.0, 0.0, 1.0], dtype=vv.dtype)
    t1 = a - (a @ vv) * vv
    t1 = t1 / t1.norm()
    t2 = torch.linalg.cross(vv, t1)
    worst = 0.0
    for d in (t1, t2):
        got = torch.einsum("k,kj->j", d, dRdv[0, :, 0, :])
        worst = max(worst, float((got - d).abs().max()))
    tol = 1e-7 if dt == st.float64 else 1e-3
    return {"reproduced": bool(worst > tol), "input_v": vv.tolist(), "max_abs_err_row0_tangent": worst, "dRdv[:,0,:]": dRdv[0, :, 0, :].tolist()}


def replay_jacobian(model, dt=st.float64):
    """hand-coded dRdv and the reverse-mode Jacobian of rot, both against a central difference of the real function at the
    model's vector (v free in R^3, as in clause O3(a))."""
    import torch
    from seqm.seqm_functions.two_elec_two_center_int import rotate_with_quaternion

    tdt = torch.float64 if dt == st.float64 else torch.float32
    v = torch.tensor([[model_float(model, k) for k in ("vx", "vy", "vz")]], dtype=tdt)
    if float(v.norm()) == 0:
        return {"reproduced": False, "reason": "degenerate model"}
    rot, dRdv = rotate_with_quaternion(v, True)
    auto = torch.autograd.functional.jacobian(lambda x: rotate_with_quaternion(x)[0], v)[:, :, 0, :]  # [i,j,k]
    h = 1e-6 if dt == st.float64 else 1e-3
    fd = torch.zeros(3, 3, 3, dtype=tdt)
    for k in range(3):
        e = torch.zeros_like(v)
        e[0, k] = h
        fd[:, :, k] = (rotate_with_quaternion(v + e)[0] - rotate_with_quaternion(v - e)[0]) / (2 * h)
    hand = dRdv[0].permute(1, 2, 0)
    tol = 1e-5 if dt == st.float64 else 2e-2
    e_hand, e_auto = float((hand - fd).abs().max()), float((auto - fd).abs().max())
    return {"reproduced": bool(e_hand > tol or e_auto > tol), "input_v": v[0].tolist(), "max|hand-coded dRdv - central difference|": e_hand,
            "max|reverse-mode Jacobian - central difference|": e_auto, "tolerance": tol}


def classify_branch(model, rep):
    vx = model_float(model, "vx")
    return "antipodal-branch" if abs(1.0 + vx) < 1e-3 else "generic-orientation"


# ----------------------------------------------------------------------------
# O1: orthogonality, determinant, row 0 = v


def task_rotq(ctx):
    """O1: rotate_with_quaternion returns an orthogonal matrix of determinant +1 whose row 0 is the bond direction, on every branch of its case split and for both dtypes (the antipodal-cone branch is the known finding)."""
    fn = ctx.under_contract(TGT_ROT)
    for dt in (st.float64, st.float32):
        tag = "f64" if dt == st.float64 else "f32"
        (vx, vy, vz), v, unit = _unit_v(dt)
        eps = EPS[dt]

        def thunk():
            assume(unit)
            rot = fn(v)
            # branch label: which side of the code's own case split the path is on (the eps test of the quaternion
            # construction and, since the repair, the half-space chart v_x < 0)
            inside = bool(abs(1 + vx) < Sym(E.const(eps, E.R)))
            br = "antipodal" if inside else ("generic" if bool(vx >= 0) else "generic-flipped-chart")
            R = rot.a[0]
            for i in range(3):
                for j in range(i, 3):
                    dot = R[i, 0] * R[j, 0] + R[i, 1] * R[j, 1] + R[i, 2] * R[j, 2]
                    oblige("%s.%s.orthogonal[%d,%d]" % (tag, br, i, j), dot == (1 if i == j else 0))
            det = (R[0, 0] * (R[1, 1] * R[2, 2] - R[1, 2] * R[2, 1]) - R[0, 1] * (R[1, 0] * R[2, 2] - R[1, 2] * R[2, 0])
                   + R[0, 2] * (R[1, 0] * R[2, 1] - R[1, 1] * R[2, 0]))
            oblige("%s.%s.det" % (tag, br), det == 1)
            for j, c in enumerate((vx, vy, vz)):
                oblige("%s.%s.row0[%d]" % (tag, br, j), R[0, j] == c, replay=lambda m, dt=dt: replay_row0(m, dt), classify=classify_branch)
            return br

        ex = ctx.explore(thunk, name="rotq-" + tag)
        branches = sorted(set(p.value for p in ex.paths))
        if "generic" not in branches or len(branches) < 2:
            ctx.error("%s.paths" % tag, "expected at least two branches of the construction, got %r" % (branches,))
        for p in ex.paths:
            ctx.cover("%s.%s.reachable" % (tag, p.value), p.pc)
        ctx.discharge(ex.all_obligations())
    ctx.canary("row1-is-not-v", real("vx") == real("vy"), [real("vx") * real("vx") + real("vy") * real("vy") == 1])
    ctx.assume_note("shape: generic pair (batch axis of length 1 with fully symbolic unit vector); the function acts pointwise on that axis")


# ----------------------------------------------------------------------------
# O3: Jacobian of the frame rotation


def task_rotq_jacobian(ctx):
    """O3: the hand-coded dRdv is the Jacobian of the implemented map and, on the tangent space of the unit sphere, row 0 follows the bond direction."""
    fn = ctx.under_contract(TGT_ROT)
    for dt in (st.float64, st.float32):
        tag = "f64" if dt == st.float64 else "f32"
        (vx, vy, vz), v, unit = _unit_v(dt)
        eps = EPS[dt]
        d = [real("dx"), real("dy"), real("dz")]
        tangent = (d[0] * vx + d[1] * vy + d[2] * vz == 0)

        def thunk():
            # (a) implementation-level: dRdv is the Jacobian of the implemented map, v free in R^3 minus {N = 0}
            rot, dRdv = fn(v, True)
            inside = bool(abs(1 + vx) < Sym(E.const(eps, E.R)))
            br = "antipodal" if inside else ("generic" if bool(vx >= 0) else "generic-flipped-chart")
            R, J = rot.a[0], dRdv.a[0]
            out = {"br": br, "impl": [], "tan": []}
            for k, vk in enumerate((vx, vy, vz)):
                for i in range(3):
                    for j in range(3):
                        out["impl"].append(("%s.%s.dRdv=d(rot)[%d,%d,%d]" % (tag, br, k, i, j), J[k, i, j], Sym(E.diff(R[i, j].n, vk.n))))
            # (b) property-level, tangent space of the unit sphere: row 0 follows the bond direction
            for j in range(3):
                lhs = d[0] * J[0, 0, j] + d[1] * J[1, 0, j] + d[2] * J[2, 0, j]
                out["tan"].append(("%s.%s.row0-tangent[%d]" % (tag, br, j), lhs, d[j]))
            return out

        ex = ctx.explore(thunk, name="rotq-jac-" + tag)
        brs = set(p.value["br"] for p in ex.paths)
        if "generic" not in brs or len(brs) < 2:
            ctx.error("%s.paths" % tag, "expected at least two branches, got %r" % sorted(brs))
        for p in ex.paths:
            for name, a, b in p.value["impl"]:
                ctx.prove_eq(name, a, b, pc=p.pc, replay=lambda m, dt=dt: replay_jacobian(m, dt), classify=classify_branch)
            for name, a, b in p.value["tan"]:
                ctx.prove(name, a == b, pc=list(p.pc) + [unit, tangent], replay=lambda m, dt=dt: replay_tangent(m, dt), classify=classify_branch)
    ctx.assume_note("O3(a) treats v as a free vector of R^3 (the Jacobian the caller composes with the unit-vector projector)")


# ----------------------------------------------------------------------------
# O2: rotation of the local-frame integrals = 4-index tensor transformation


def _pairs_setup():
    """three pairs: X-X (O,C), X-H (O,H), H-H; fully symbolic unit vectors, integrals and core charges."""
    ni = st.tensor([8, 8, 1])
    nj = st.tensor([6, 1, 1])
    xij = st.symbolic((3, 3), "x")
    ri = st.symbolic((1, 22), "ri")
    riXH = st.symbolic((1, 4), "rh")
    wHH = st.symbolic((1,), "whh")
    tore = st.zeros(10)
    for z in (1, 6, 8):
        tore.a[z] = real("tore%d" % z)
    return ni, nj, xij, ri, riXH, wHH, tore


def task_w_rotation(ctx):
    """O2: w_withquaternion = four-index transformation of the local-frame integrals by the s-p representation of the frame (X-X, X-H, H-H), and the core-electron blocks e1b/e2a are -Z times the rotated (mu nu|ss)."""
    from spec import nddo

    fn = ctx.under_contract(TGT_W, stubs=[TGT_ROT])
    ni, nj, xij, ri, riXH, wHH, tore = _pairs_setup()
    Rsym = st.symbolic((3, 3, 3), "R")
    seen = {}

    def rot_stub(v, calculate_gradient=False):
        # callee contract: rot is *some* matrix field of v (O2 needs no more; orthogonality / row 0 are O1)
        seen["v"] = v
        assert not calculate_gradient
        return Rsym

    def thunk():
        return fn(None, tore, ni, nj, xij, riXH, ri, wHH)

    ex = ctx.explore(thunk, stubs={TGT_ROT: rot_stub}, name="w_withquaternion")
    if len(ex.paths) != 1 or ex.paths[0].raised is not None:
        ctx.error("paths", "expected one straight-line path, got %d (%r)" % (len(ex.paths), ex.paths[0].raised if ex.paths else None))
        return
    e1b, e2a, wXH, w = ex.paths[0].value
    # the callee is applied to -xij: row 0 of the frame is the direction from atom j to atom i
    vv = seen["v"]
    for p in range(3):
        for c in range(3):
            ctx.prove_eq("frame-argument[%d,%d]" % (p, c), vv.a[p, c], -xij.a[p, c])
    order = nddo.pair_order()
    # X-X pair is pair 0 -> rot row Rsym[0]; X-H pair is pair 1 -> Rsym[1]
    T_XX = nddo.ao_transform(Rsym.a[0])
    L = nddo.local_tensor(list(ri.a[0]))
    for a, (kk, ll) in enumerate(order):
        for b, (mm, nn) in enumerate(order):
            ctx.prove_eq("XX.w[(%d%d|%d%d)]" % (kk, ll, mm, nn), w.a[0, a * 10 + b], nddo.rotated_integral(L, T_XX, kk, ll, mm, nn))
    T_XH = nddo.ao_transform(Rsym.a[1])
    LH = nddo.local_tensor_XH(list(riXH.a[0]))
    for a, (kk, ll) in enumerate(order):
        ctx.prove_eq("XH.w[(%d%d|ss)]" % (kk, ll), wXH.a[0, a], nddo.rotated_integral(LH, T_XH, kk, ll, 0, 0))
    # core-electron attraction blocks: e1b[mu,nu] = -Z_B (mu nu|ss), e2a[mu,nu] = -Z_A (ss|mu nu), upper triangle
    z = {0: (real("tore8"), real("tore6")), 1: (real("tore8"), real("tore1")), 2: (real("tore1"), real("tore1"))}
    for p, label in ((0, "XX"), (1, "XH"), (2, "HH")):
        ZA, ZB = z[p]
        for mu in range(4):
            for nu in range(4):
                if label == "XX":
                    e1 = -ZB * nddo.rotated_integral(L, T_XX, nu, mu, 0, 0) if mu <= nu else 0
                    e2 = -ZA * nddo.rotated_integral(L, T_XX, 0, 0, nu, mu) if mu <= nu else 0
                elif label == "XH":
                    e1 = -ZB * nddo.rotated_integral(LH, T_XH, nu, mu, 0, 0) if mu <= nu else 0
                    e2 = -ZA * riXH.a[0, 0] if (mu, nu) == (0, 0) else 0
                else:
                    e1 = -ZB * wHH.a[0] if (mu, nu) == (0, 0) else 0
                    e2 = -ZA * wHH.a[0] if (mu, nu) == (0, 0) else 0
                ctx.prove_eq("%s.e1b[%d,%d]" % (label, mu, nu), e1b.a[p, mu, nu], e1)
                ctx.prove_eq("%s.e2a[%d,%d]" % (label, mu, nu), e2a.a[p, mu, nu], e2)
    ctx.canary_eq("w-entry-swapped", w.a[0, 1 * 10 + 0], nddo.rotated_integral(L, T_XX, 2, 0, 0, 0))
    ctx.assume_note("shape: one pair of each kind (X-X, X-H, H-H); the routine is pointwise in the pair axis (indexing by the pair-kind masks only)")

# ----------------------------------------------------------------------------
# O4: two-centre one-electron (overlap / resonance) block, s-p-d basis: covariance of the assembly


def _assembly_statements(target, start_text="di = th.zeros(", stop="return"):
    """The top-level statements of `target` from the creation of `di` up to (not including) the final return, read from the
    current source.  Everything before them (local-frame overlaps S111 ... S333, 4 700 lines of auxiliary integrals) is NOT
    executed: its results enter as free symbols."""
    import ast, inspect, textwrap
    from pyvc import world as W

    _, _, fn = W.resolve(target)
    tree = ast.parse(textwrap.dedent(inspect.getsource(fn)))
    body = tree.body[0].body
    k0 = None
    for k, stt in enumerate(body):
        if ast.unparse(stt).startswith(start_text.replace(" ", " ")):
            k0 = k
    if k0 is None:
        raise Unmodelled("contract anchor not found: `%s` in %s" % (start_text, target))
    stmts = []
    for stt in body[k0:]:
        if isinstance(stt, ast.Return):
            break
        if isinstance(stt, ast.Expr) and isinstance(stt.value, ast.Constant):
            continue  # bare string literals (commented-out code)
        stmts.append(stt)
    loads, stores = set(), set()
    for stt in stmts:
        for n in ast.walk(stt):
            if isinstance(n, ast.Name):
                (stores if isinstance(n.ctx, ast.Store) else loads).add(n.id)
    code = compile(ast.Module(body=stmts, type_ignores=[]), "<assembly statements of %s>" % target, "exec")
    return code, loads, stores, len(stmts)


_S3 = None


def _quad(name):
    s3h = Sym(E.sqrt(E.const(3))) / 2
    A = [[S(0) for _ in range(3)] for _ in range(3)]
    if name == "x2-y2":
        A[0][0], A[1][1] = s3h, -s3h
    elif name == "xz":
        A[0][2] = A[2][0] = s3h
    elif name == "z2":
        A[0][0] = A[1][1] = S(Fraction(-1, 2))
        A[2][2] = S(1)
    elif name == "yz":
        A[1][2] = A[2][1] = s3h
    elif name == "xy":
        A[0][1] = A[1][0] = s3h
    return A


D_ORDER = ["x2-y2", "xz", "z2", "yz", "xy"]  # order of the d functions in the 9x9 blocks (MOPAC convention, as used by the package)


def ao_rotation_spd(R):
    """9x9 representation of the rotation R on (s, px, py, pz, d x2-y2, d xz, d z2, d yz, d xy): real d functions as the
    traceless quadratic forms r^T A_k r, D[k,l] = (2/3) tr(A_k R A_l R^T)."""
    T = [[S(0) for _ in range(9)] for _ in range(9)]
    T[0][0] = S(1)
    for i in range(3):
        for j in range(3):
            T[1 + i][1 + j] = R[i][j]
    As = [_quad(n) for n in D_ORDER]

    def mm(A, B):
        return [[sum(A[i][k] * B[k][j] for k in range(3)) for j in range(3)] for i in range(3)]

    Rt = [[R[j][i] for j in range(3)] for i in range(3)]
    for l in range(5):
        RAR = mm(mm(R, As[l]), Rt)
        for k in range(5):
            T[4 + k][4 + l] = Fraction(2, 3) * sum(As[k][i][j] * RAR[j][i] for i in range(3) for j in range(3))
    return T


def replay_overlap_d(model):
    """real diatom_overlap_matrixD (Cl-Cl, PM6 exponents) at the model's direction against the rotated z-axis block."""
    import math
    import numpy as np
    import torch
    from seqm.seqm_functions.constants import Constants
    from seqm.seqm_functions.diat_overlapD import diatom_overlap_matrixD

    torch.set_default_dtype(torch.float64)
    t, u = model_float(model, "t", 0.3), model_float(model, "u", 0.4)
    ca, sa, cb, sb = (1 - t * t) / (1 + t * t), 2 * t / (1 + t * t), (1 - u * u) / (1 + u * u), 2 * u / (1 + u * u)
    if sb < 0:
        sb, sa, ca = -sb, -sa, -ca
    const = Constants()
    z = torch.tensor([[2.24, 2.15, 1.32]])

    def di(v):
        return diatom_overlap_matrixD(torch.tensor([17]), torch.tensor([17]), torch.tensor([v]), torch.tensor([3.76]), z, z, const.qn_int, const.qnD_int)[0].numpy()

    Rz = np.array([[ca, -sa, 0], [sa, ca, 0], [0, 0, 1.0]])
    Ry = np.array([[cb, 0, sb], [0, 1, 0], [-sb, 0, cb]])
    R = Rz @ Ry
    s3 = math.sqrt(3)
    quads = {"x2-y2": np.diag([s3 / 2, -s3 / 2, 0]), "xz": np.array([[0, 0, s3 / 2], [0, 0, 0], [s3 / 2, 0, 0]]), "z2": np.diag([-0.5, -0.5, 1.0]),
             "yz": np.array([[0, 0, 0], [0, 0, s3 / 2], [0, s3 / 2, 0]]), "xy": np.array([[0, s3 / 2, 0], [s3 / 2, 0, 0], [0, 0, 0]])}
    T = np.zeros((9, 9))
    T[0, 0] = 1
    T[1:4, 1:4] = R
    for k, a in enumerate(D_ORDER):
        for l, b in enumerate(D_ORDER):
            T[4 + k, 4 + l] = (2 / 3) * np.trace(quads[a] @ R @ quads[b] @ R.T)
    v = R @ np.array([0, 0, 1.0])
    got = di(v.tolist())
    want = T @ di([0.0, 0.0, 1.0]) @ T.T
    err = np.abs(got - want)
    bad = [(int(i), int(j), float(got[i, j]), float(want[i, j])) for i, j in np.argwhere(err > 1e-9)]
    return {"reproduced": bool(bad), "direction": v.tolist(), "pair": "Cl-Cl, r = 3.76 bohr", "max_abs_error": float(err.max()), "entries (row, col, computed, rotated z-axis block)": bad[:8]}


def task_overlap_assembly_d(ctx):
    """diatom_overlap_matrixD, assembly of the molecular-frame 9x9 block from the local-frame overlaps: for every bond direction
    v = R e_z (R = Rz(alpha) Ry(beta)) the block equals T(R) * block(e_z) * T(R)^T, T the s-p-d representation of R.  With it the
    resonance integrals, hence energies, are invariant under rotation of the molecule."""
    tgt = "seqm.seqm_functions.diat_overlapD:diatom_overlap_matrixD"
    ctx.under_contract(tgt, note="assembly statements only (from `di = th.zeros(...)` to the return), local-frame overlaps S### as free symbols")
    code, loads, stores, nst = _assembly_statements(tgt)
    frees = sorted(n for n in loads - stores if n.startswith("S") and n[1:].isdigit())
    if len(frees) < 10 or nst < 60:
        ctx.error("anchor", "assembly section looks different: %d statements, free local overlaps %r" % (nst, frees))
        return
    t, u = real("t"), real("u")
    ca, sa = (1 - t * t) / (1 + t * t), 2 * t / (1 + t * t)
    cb, sb = (1 - u * u) / (1 + u * u), 2 * u / (1 + u * u)
    Ssym = {n: st.tensor([real(n)]) for n in frees}

    def run(ca_, sa_, cb_, sb_):
        env = {"th": st, "npairs": 1, "dtype": st.float64, "device": st._CPU}
        env.update(Ssym)
        env.update(ca=st.tensor([ca_]), sa=st.tensor([sa_]), cb=st.tensor([cb_]), sb=st.tensor([sb_]))
        missing = loads - stores - set(env)
        if missing:
            raise Unmodelled("assembly statements read names this contract does not provide: %r" % sorted(missing))
        exec(code, env)
        return env["di"]

    def thunk():
        return run(ca, sa, cb, sb), run(S(1), S(0), S(1), S(0))

    ex = ctx.explore(thunk, name="overlap-assembly-d")
    if len(ex.paths) != 1 or ex.paths[0].raised is not None:
        ctx.error("paths", "expected straight-line code: %r %s" % ([p.raised for p in ex.paths], ex.paths[0].notes.get("traceback", "")[-600:] if ex.paths else ""))
        return
    dv, dz = ex.paths[0].value
    R = [[ca * cb, -sa, ca * sb], [sa * cb, ca, sa * sb], [-sb, S(0), cb]]  # Rz(alpha) Ry(beta): R e_z = (ca sb, sa sb, cb)
    T = ao_rotation_spd(R)
    L = [[dz.a[0, i, j] for j in range(9)] for i in range(9)]
    names = ["s", "px", "py", "pz", "dx2-y2", "dxz", "dz2", "dyz", "dxy"]
    for i in range(9):
        TL = [sum(T[i][a] * L[a][b] for a in range(9)) for b in range(9)]
        for j in range(9):
            want = sum(TL[b] * T[j][b] for b in range(9))
            ctx.prove_eq("block[%s,%s](v) = (T block(e_z) T^T)[%s,%s]" % (names[i], names[j], names[i], names[j]), dv.a[0, i, j], want, replay=replay_overlap_d,
                         classify=lambda m_, r: "d-d-overlap-rotation" if r and r.get("reproduced") else "other")
    # T is a representation: orthogonal (so the contract above is equivalent to covariance under every rotation of the molecule)
    for i in range(4, 9):
        for j in range(i, 9):
            ctx.prove_eq("T-d-block-orthogonal[%d,%d]" % (i, j), sum(T[i][k] * T[j][k] for k in range(4, 9)), 1 if i == j else 0)
    ctx.canary_eq("sign-of-a-delta-term", dv.a[0, 7, 8], dv.a[0, 7, 8] + 2 * real("S333") * ca * sb * cb * (2 * ca * ca - 1))
    ctx.notes.append("assembly section: %d statements; free local-frame overlaps: %s" % (nst, ", ".join(frees)))
    ctx.assume_note("rational parametrisation ca=(1-t^2)/(1+t^2), sa=2t/(1+t^2), cb=(1-u^2)/(1+u^2), sb=2u/(1+u^2): all directions except alpha=pi / beta=pi (closure by continuity); "
                    "d functions ordered (x2-y2, xz, z2, yz, xy); local-frame overlaps and the direction cosines themselves (computed before the assembly) are inputs of this contract")
    ctx.undecided_clause("values of the local-frame overlaps S### (auxiliary A/B integrals); torch.tensor(3.0) without dtype takes the default dtype (float32 unless the caller changed it)")


def task_overlap_assembly_sp(ctx):
    """diat_overlap.diatom_overlap_matrix (s-p basis, Euler-angle form): same covariance contract on the 4x4 block."""
    tgt = "seqm.seqm_functions.diat_overlap:diatom_overlap_matrix"
    ctx.under_contract(tgt, note="assembly statements only (from `di = torch.zeros(...)` to the return), local-frame overlaps as free symbols")
    code, loads, stores, nst = _assembly_statements(tgt, start_text="di = torch.zeros(")
    frees = sorted(n for n in loads - stores if n.startswith("S") and n[1:].isdigit())
    if len(frees) != 5 or nst < 15:
        ctx.error("anchor", "assembly section looks different: %d statements, free local overlaps %r" % (nst, frees))
        return
    t, u = real("t"), real("u")
    ca, sa = (1 - t * t) / (1 + t * t), 2 * t / (1 + t * t)
    cb, sb = (1 - u * u) / (1 + u * u), 2 * u / (1 + u * u)
    Ssym = {n: st.tensor([real(n)]) for n in frees}

    def run(ca_, sa_, cb_, sb_):
        env = {"torch": st, "npairs": 1, "dtype": st.float64, "device": st._CPU, "jcall4": st.tensor([True])}
        env.update(Ssym)
        env.update(ca=st.tensor([ca_]), sa=st.tensor([sa_]), cb=st.tensor([cb_]), sb=st.tensor([sb_]))
        missing = loads - stores - set(env)
        if missing:
            raise Unmodelled("assembly statements read names this contract does not provide: %r" % sorted(missing))
        exec(code, env)
        return env["di"]

    ex = ctx.explore(lambda: (run(ca, sa, cb, sb), run(S(1), S(0), S(1), S(0))), name="overlap-assembly-sp")
    if len(ex.paths) != 1 or ex.paths[0].raised is not None:
        ctx.error("paths", "expected straight-line code: %r %s" % ([p.raised for p in ex.paths], ex.paths[0].notes.get("traceback", "")[-600:] if ex.paths else ""))
        return
    dv, dz = ex.paths[0].value
    R = [[ca * cb, -sa, ca * sb], [sa * cb, ca, sa * sb], [-sb, S(0), cb]]
    T = [[S(1) if (i == 0 and j == 0) else (R[i - 1][j - 1] if (i > 0 and j > 0) else S(0)) for j in range(4)] for i in range(4)]
    names = ["s", "px", "py", "pz"]
    for i in range(4):
        for j in range(4):
            want = sum(T[i][a] * dz.a[0, a, b] * T[j][b] for a in range(4) for b in range(4))
            ctx.prove_eq("block[%s,%s](v) = (T block(e_z) T^T)[%s,%s]" % (names[i], names[j], names[i], names[j]), dv.a[0, i, j], want)
    ctx.assume_note("rational parametrisation of the direction cosines as in overlap_assembly_d; X-X pair (jcall4 = True)")


def replay_overlap_quat(model, dt=st.float64):
    """real diatom_overlap_matrix_PM6_SP (C-C pair) at the model's direction against -S221 v v^T + S222 (1 - v v^T), with the
    local overlaps read off the same function at v = e_x (generic branch, where the frame is exact)."""
    import numpy as np
    import torch
    from seqm.seqm_functions.constants import Constants
    from seqm.seqm_functions.diat_overlap_PM6_SP import diatom_overlap_matrix_PM6_SP

    v = _real_v(model, dt)
    if v is None:
        return {"reproduced": False, "reason": "degenerate model"}
    tdt = v.dtype
    torch.set_default_dtype(torch.float64)
    const = Constants()
    z = torch.tensor([[1.808665, 1.685116]], dtype=tdt)

    def di(vec):
        return diatom_overlap_matrix_PM6_SP(torch.tensor([6]), torch.tensor([6]), vec, torch.tensor([2.6], dtype=tdt), z, z, const.qn_int)[0].to(torch.float64).numpy()

    ref = di(torch.tensor([[1.0, 0, 0]], dtype=tdt))
    S111, S211, S121, S221, S222 = ref[0, 0], ref[1, 0], -ref[0, 1], -ref[1, 1], ref[2, 2]
    vv = v[0].to(torch.float64).numpy()
    want = np.zeros((4, 4))
    want[0, 0] = S111
    want[1:, 0] = S211 * vv
    want[0, 1:] = -S121 * vv
    want[1:, 1:] = -S221 * np.outer(vv, vv) + S222 * (np.eye(3) - np.outer(vv, vv))
    got = di(v)
    err = float(np.abs(got - want).max())
    tol = 1e-9 if dt == st.float64 else 1e-5
    return {"reproduced": bool(err > tol), "input_v": vv.tolist(), "pair": "C-C, r = 2.6 bohr", "max_abs_error": err, "tolerance": tol}


def task_overlap_assembly_quat(ctx):
    """diatom_overlap_matrix_PM6_SP (the s-p overlap used by every method except PM6-with-d), quaternion frame: with the REAL
    rotate_with_quaternion executed symbolically, the 4x4 block is  [S111, -S121 v^T; S211 v, -S221 v v^T + S222 (1 - v v^T)]:
    a function of the bond direction alone (no trace of the choice of perpendicular axes), hence covariant."""
    import sys
    tgt = "seqm.seqm_functions.diat_overlap_PM6_SP:diatom_overlap_matrix_PM6_SP"
    ctx.under_contract(tgt, note="assembly statements only (from `di = th.zeros(...)` to the return), local-frame overlaps as free symbols")
    fn_rot = ctx.under_contract(TGT_ROT)
    code, loads, stores, nst = _assembly_statements(tgt)
    frees = sorted(n for n in loads - stores if n.startswith("S") and n[1:].isdigit())
    dels = sorted(n for n in loads - stores if n[0] in "AB" and n[1:].isdigit())
    if len(frees) != 5 or "rotate_with_quaternion" not in loads:
        ctx.error("anchor", "assembly section looks different: %d statements, free local overlaps %r" % (nst, frees))
        return
    for dt in (st.float64, st.float32):
        tag = "f64" if dt == st.float64 else "f32"
        (vx, vy, vz), v, unit = _unit_v(dt)
        eps = EPS[dt]
        Ssym = {n: st.tensor([real(n)], dtype=dt) for n in frees}

        def thunk():
            assume(unit)
            env = {"th": st, "npairs": 1, "dtype": dt, "device": st._CPU, "xij": v, "rotate_with_quaternion": fn_rot}
            env.update(Ssym)
            env.update({n: None for n in dels})
            missing = loads - stores - set(env)
            if missing:
                raise Unmodelled("assembly statements read names this contract does not provide: %r" % sorted(missing))
            exec(code, env)
            inside = bool(abs(1 + vx) < Sym(E.const(eps, E.R)))
            br = "antipodal" if inside else ("generic" if bool(vx >= 0) else "generic-flipped-chart")
            return br, env["di"]

        ex = ctx.explore(thunk, name="overlap-assembly-quat-" + tag)
        vv = (vx, vy, vz)
        S111, S121, S211, S221, S222 = [real(n) for n in ("S111", "S121", "S211", "S221", "S222")]
        for p in ex.paths:
            if p.raised is not None:
                ctx.fail("%s.raises@p%d" % (tag, p.path_id), repr(p.raised) + p.notes.get("traceback", "")[-600:])
                continue
            br, di = p.value
            pc = list(p.pc) + [unit]
            rp = lambda m, dt=dt: replay_overlap_quat(m, dt)
            ctx.prove("%s.%s.block[s,s]" % (tag, br), di.a[0, 0, 0] == S111, pc=pc)
            for i in range(3):
                ctx.prove("%s.%s.block[p%s,s] = S211 v" % (tag, br, "xyz"[i]), di.a[0, 1 + i, 0] == S211 * vv[i], pc=pc, replay=rp, classify=classify_branch)
                ctx.prove("%s.%s.block[s,p%s] = -S121 v" % (tag, br, "xyz"[i]), di.a[0, 0, 1 + i] == -S121 * vv[i], pc=pc, replay=rp, classify=classify_branch)
                for j in range(3):
                    want = -S221 * vv[i] * vv[j] + S222 * ((1 if i == j else 0) - vv[i] * vv[j])
                    ctx.prove("%s.%s.block[p%s,p%s] = -S221 v v^T + S222 (1 - v v^T)" % (tag, br, "xyz"[i], "xyz"[j]), di.a[0, 1 + i, 1 + j] == want, pc=pc, replay=rp, classify=classify_branch)
    ctx.assume_note("unit bond vector; local-frame overlaps are inputs; the frame is the real rotate_with_quaternion (so its antipodal-cone defect shows here too)")

# ----------------------------------------------------------------------------
# O5: d-orbital rotation tables (RotationMatrixD): frame, induced d representation, pair-product table, application

RMD = "seqm.seqm_functions.RotationMatrixD"


def _slice_statements(target, start_pred, stop_pred):
    """top-level statements of `target` from the first one satisfying start_pred(text) up to (excluding) the first later one
    satisfying stop_pred(text); read from the current source on every run."""
    import ast, inspect, textwrap
    from pyvc import world as W

    _, _, fn = W.resolve(target)
    body = ast.parse(textwrap.dedent(inspect.getsource(fn))).body[0].body
    texts = [ast.unparse(b) for b in body]
    k0 = next((k for k, t in enumerate(texts) if start_pred(t)), None)
    if k0 is None:
        raise Unmodelled("contract anchor (start) not found in %s" % target)
    k1 = next((k for k in range(k0 + 1, len(body)) if stop_pred(texts[k])), len(body))
    stmts = [b for b in body[k0:k1] if not (isinstance(b, ast.Expr) and isinstance(b.value, ast.Constant))]
    loads, stores = set(), set()
    for b in stmts:
        for n in ast.walk(b):
            if isinstance(n, ast.Name):
                (stores if isinstance(n.ctx, ast.Store) else loads).add(n.id)
    return compile(ast.Module(body=stmts, type_ignores=[]), "<statements %d..%d of %s>" % (k0, k1, target), "exec"), loads, stores, len(stmts)


def _local_forms():
    """canonical local d functions in local axes (x' = axis 1, y' = axis 2, z' = axis 0 = bond): order sigma, pi, pi', delta, delta'"""
    s3h = Sym(E.sqrt(E.const(3))) / 2
    z = lambda: [[S(0)] * 3 for _ in range(3)]
    F = []
    f = z(); f[0][0] = S(1); f[1][1] = f[2][2] = S(Fraction(-1, 2)); F.append(f)          # z'^2
    f = z(); f[1][0] = f[0][1] = s3h; F.append(f)                                           # x'z'
    f = z(); f[2][0] = f[0][2] = s3h; F.append(f)                                           # y'z'
    f = z(); f[1][1] = s3h; f[2][2] = -s3h; F.append(f)                                     # x'^2 - y'^2
    f = z(); f[1][2] = f[2][1] = s3h; F.append(f)                                           # x'y'
    return F


def _pair_index(a, b):
    a, b = max(a, b), min(a, b)
    return a * (a + 1) // 2 + b


def sym2(T):
    """C[(mu nu),(k l)]: coefficient of the local product phi_k phi_l (k >= l) in chi_mu chi_nu, chi_mu = sum_k T[mu][k] phi_k"""
    n = len(T)
    C = {}
    for mu in range(n):
        for nu in range(mu + 1):
            for k in range(n):
                for l in range(k + 1):
                    v = T[mu][k] * T[nu][l] + (T[mu][l] * T[nu][k] if k != l else 0)
                    C[(_pair_index(mu, nu), _pair_index(k, l))] = v
    return C


def replay_polar_forces(model):
    """real PM6 forces (reverse mode) for SCl2 with one S-Cl bond exactly along z: net torque and force on the chlorine against a
    central difference of the total energy."""
    import torch
    from seqm.seqm_functions.constants import Constants
    from seqm.Molecule import Molecule
    from seqm.ElectronicStructure import Electronic_Structure

    torch.set_default_dtype(torch.float64)
    sp = [17, 17, 16]
    xyz = [[0.0, 0, 2.0], [1.9, 0.3, -0.6], [0.0, 0, 0]]

    def run(c):
        params = {"method": "PM6", "scf_eps": 1e-10, "scf_converger": [1], "sp2": [False, 1e-5], "elements": [0, 16, 17], "learned": [], "pair_outer_cutoff": 1e10, "eig": True}
        mol = Molecule(Constants(), params, torch.tensor([c]), torch.tensor([sp]))
        Electronic_Structure(params)(mol)
        return float(mol.Etot[0]), mol.force.detach()[0]

    E0, F = run(xyz)
    tq = float(torch.linalg.cross(torch.tensor(xyz), F).sum(0).abs().max())
    h = 1e-4
    xp, xm = [list(r) for r in xyz], [list(r) for r in xyz]
    xp[0][0] += h
    xm[0][0] -= h
    fd = -(run(xp)[0] - run(xm)[0]) / (2 * h)
    return {"reproduced": bool(tq > 1e-4 or abs(float(F[0, 0]) - fd) > 1e-4), "input": "PM6 SCl2, one S-Cl bond exactly along +z", "net_torque_eV": tq, "F_x(Cl)_reverse_mode": float(F[0, 0]), "F_x(Cl)_central_difference": fd}


def task_rotd_prologue(ctx):
    """GenerateRotationMatrix, direction cosines: (CA SB, SA SB, CB) is the (sign-flipped) bond vector -- exactly on the generic
    path, within the 1e-10 polar threshold on the path xy < 1e-10 -- and CA^2+SA^2 = CB^2+SB^2 = 1 on both."""
    tgt = RMD + ":GenerateRotationMatrix"
    ctx.under_contract(tgt, note="statements up to the direction cosines (C2A = ... excluded)")
    code, loads, stores, nst = _slice_statements(tgt, lambda t: t.startswith("INDX"), lambda t: t.startswith("C2A"))
    (vx, vy, vz), v, unit = _unit_v(st.float64)

    def thunk():
        assume(unit)
        env = {"torch": st, "np": np, "xij": v}
        exec(code, env)
        return {k: env[k].a[0] for k in ("CA", "SA", "CB", "SB")}

    ex = ctx.explore(thunk, name="rotd-prologue")
    tol = S(Fraction(1, 10**10))
    kinds = set()
    for p in ex.paths:
        if p.raised is not None:
            ctx.fail("raises@p%d" % p.path_id, repr(p.raised) + p.notes.get("traceback", "")[-500:])
            continue
        c = p.value
        pc = list(p.pc) + [unit]
        polar = not isinstance(c["SA"], Sym) or c["SA"].n.op == "const"
        br = "polar" if polar else "generic"
        kinds.add(br)
        ctx.prove("%s@p%d.CA^2+SA^2=1" % (br, p.path_id), S(c["CA"]) * S(c["CA"]) + S(c["SA"]) * S(c["SA"]) == 1, pc=pc)
        ctx.prove("%s@p%d.CB^2+SB^2=1" % (br, p.path_id), S(c["CB"]) * S(c["CB"]) + S(c["SB"]) * S(c["SB"]) == 1, pc=pc) if not polar else \
            ctx.prove("%s@p%d.CB^2+SB^2=1" % (br, p.path_id), S(c["CB"]) * S(c["CB"]) + S(c["SB"]) * S(c["SB"]) == 1, pc=pc)
        bond = (S(c["CA"]) * S(c["SB"]), S(c["SA"]) * S(c["SB"]), S(c["CB"]))
        for k, comp in enumerate((vx, vy, vz)):
            d = bond[k] - (-comp)
            if polar:
                ctx.prove("polar@p%d.bond-direction[%d] within 1e-10 of -xij" % (p.path_id, k), (d <= tol) & (-d <= tol), pc=pc)
            else:
                ctx.prove("generic@p%d.bond-direction[%d] = -xij" % (p.path_id, k), d == 0, pc=pc)
        # the frame must FOLLOW the bond: on the tangent space of the unit sphere the derivative of the bond direction the frame is
        # built around is minus the displacement (forces are obtained by differentiating through this code)
        dl = [real("dx"), real("dy"), real("dz")]
        tangent = (dl[0] * vx + dl[1] * vy + dl[2] * vz == 0)
        for k in range(3):
            lhs = sum(dl[j] * Sym(E.diff(E.node_of(bond[k]), (vx, vy, vz)[j].n)) for j in range(3))
            ctx.prove("%s@p%d.frame-follows-the-bond-direction[%d]" % (br, p.path_id, k), lhs == -dl[k], pc=pc + [tangent],
                      replay=(lambda m: replay_polar_forces(m)) if polar else None, classify=lambda m_, r: "polar-branch" if polar else "generic-orientation")
    if kinds != {"polar", "generic"}:
        ctx.error("paths", "expected generic and polar paths, got %r" % kinds)
    ctx.assume_note("unit input vector; the polar clause is a tolerance clause (the frame of a bond within 1e-10 rad of +-z is the frame of +-z)")


def _rotd_tables(ctx):
    """P, D and `matrix` of GenerateRotationMatrix as functions of parametrised direction cosines (real statements)."""
    tgt = RMD + ":GenerateRotationMatrix"
    code, loads, stores, nst = _slice_statements(tgt, lambda t: t.startswith("C2A"), lambda t: t.startswith("return"))
    t, u = real("t"), real("u")
    ca, sa = (1 - t * t) / (1 + t * t), 2 * t / (1 + t * t)
    cb, sb = (1 - u * u) / (1 + u * u), 2 * u / (1 + u * u)

    def thunk():
        env = {"torch": st, "np": np, "xij": st.zeros(1, 3), "device": st._CPU, "dtype": st.float64, "INDX": [0, 1, 3, 6, 10, 15, 21, 28, 36],
               "PT5SQ3": Sym(E.sqrt(E.const(3))) / 2, "PT5": S(Fraction(1, 2)),
               "CA": st.tensor([ca]), "SA": st.tensor([sa]), "CB": st.tensor([cb]), "SB": st.tensor([sb])}
        missing = loads - stores - set(env)
        if missing:
            raise Unmodelled("statements read names this contract does not provide: %r" % sorted(missing))
        exec(code, env)
        return env["P"], env["D"], env["matrix"]

    ex = ctx.explore(thunk, name="rotd-tables")
    if len(ex.paths) != 1 or ex.paths[0].raised is not None:
        raise Unmodelled("GenerateRotationMatrix tail: %r %s" % ([p.raised for p in ex.paths], ex.paths[0].notes.get("traceback", "")[-600:] if ex.paths else ""))
    return ex.paths[0].value, (ca, sa, cb, sb), nst


def replay_rotd(model):
    """real GenerateRotationMatrix at the model's direction: the d block against the representation induced by the p block"""
    import math
    import numpy as np
    import torch
    from seqm.seqm_functions.RotationMatrixD import GenerateRotationMatrix

    torch.set_default_dtype(torch.float64)
    t, u = model_float(model, "t", 0.37), abs(model_float(model, "u", 0.61)) or 0.61
    ca, sa, cb, sb = (1 - t * t) / (1 + t * t), 2 * t / (1 + t * t), (1 - u * u) / (1 + u * u), 2 * u / (1 + u * u)
    v = np.array([ca * sb, sa * sb, cb])
    M = GenerateRotationMatrix(torch.tensor([(-v).tolist()]))[0].numpy()
    INDX = [0, 1, 3, 6, 10, 15, 21, 28, 36]
    P = np.array([M[0:3, INDX[K + 1]] for K in range(3)])
    D = np.array([M[0:5, INDX[K + 4]] for K in range(5)])
    s3 = math.sqrt(3)
    A = {"x2-y2": np.diag([s3 / 2, -s3 / 2, 0]), "xz": np.array([[0, 0, s3 / 2], [0, 0, 0], [s3 / 2, 0, 0]]), "z2": np.diag([-0.5, -0.5, 1.0]),
         "yz": np.array([[0, 0, 0], [0, 0, s3 / 2], [0, s3 / 2, 0]]), "xy": np.array([[0, s3 / 2, 0], [s3 / 2, 0, 0], [0, 0, 0]])}
    F = [np.diag([1.0, -0.5, -0.5]), np.array([[0, s3 / 2, 0], [s3 / 2, 0, 0], [0, 0, 0]]), np.array([[0, 0, s3 / 2], [0, 0, 0], [s3 / 2, 0, 0]]), np.diag([0, s3 / 2, -s3 / 2]),
         np.array([[0, 0, 0], [0, 0, s3 / 2], [0, s3 / 2, 0]])]
    want = np.zeros((5, 5))
    for m in range(5):
        B = P.T @ F[m] @ P
        for k, nm in enumerate(D_ORDER):
            want[m, k] = (2 / 3) * np.trace(B @ A[nm])
    err = np.abs(D - want)
    return {"reproduced": bool(err.max() > 1e-9), "direction": v.tolist(), "max|D - induced representation|": float(err.max()), "worst entry (local, molecular)": [int(x) for x in np.unravel_index(err.argmax(), err.shape)],
            "max|D D^T - 1|": float(np.abs(D @ D.T - np.eye(5)).max())}


def task_rotd_tables(ctx):
    """GenerateRotationMatrix: (i) P is a proper rotation whose row 0 is the bond direction; (ii) D is the representation of that
    rotation on the five real d functions (D[m][k] = (2/3) tr(B_m A_k), B_m the canonical local form on the axes P[0..2]);
    (iii) every block of `matrix` (P-S, P-P, D-S, D-P, D-D) is the symmetrised-product table of T = diag(1, P, D)."""
    tgt = RMD + ":GenerateRotationMatrix"
    ctx.under_contract(tgt, note="statements from `C2A = ...` to the return; PT5SQ3 read as sqrt(3)/2 exactly (the source has 0.8660254037841, relative error 4e-13: a float-constant assumption)")
    (P, D, M), (ca, sa, cb, sb), nst = _rotd_tables(ctx)
    Pm = [[P.a[0, i, j] for j in range(3)] for i in range(3)]
    Dm = [[D.a[0, i, j] for j in range(5)] for i in range(5)]
    bond = (ca * sb, sa * sb, cb)
    for j in range(3):
        ctx.prove_eq("P.row0[%d] = bond direction" % j, Pm[0][j], bond[j])
    for i in range(3):
        for j in range(i, 3):
            ctx.prove_eq("P.orthonormal-rows[%d,%d]" % (i, j), sum(Pm[i][k] * Pm[j][k] for k in range(3)), 1 if i == j else 0)
    det = (Pm[0][0] * (Pm[1][1] * Pm[2][2] - Pm[1][2] * Pm[2][1]) - Pm[0][1] * (Pm[1][0] * Pm[2][2] - Pm[1][2] * Pm[2][0]) + Pm[0][2] * (Pm[1][0] * Pm[2][1] - Pm[1][1] * Pm[2][0]))
    ctx.prove_eq("P.det = +1 or -1 consistently (value)", det * det, 1)
    As = [_quad(n) for n in D_ORDER]
    F = _local_forms()
    names_l = ["sigma", "pi", "pi'", "delta", "delta'"]
    for m in range(5):
        # B_m = sum_ab F_m[a][b] e_a e_b^T in molecular coordinates, e_a = P[a]
        B = [[sum(F[m][a][b] * Pm[a][i] * Pm[b][j] for a in range(3) for b in range(3)) for j in range(3)] for i in range(3)]
        for k in range(5):
            want = Fraction(2, 3) * sum(B[i][j] * As[k][j][i] for i in range(3) for j in range(3))
            ctx.prove_eq("D[%s,%s] is the d representation of P" % (names_l[m], D_ORDER[k]), Dm[m][k], want, replay=replay_rotd, classify=lambda m_, r: "d-rotation-table")
    # pair-product table: T[mu][k] = coefficient of local function k in molecular function mu
    T = [[S(0)] * 9 for _ in range(9)]
    T[0][0] = S(1)
    for mu in range(3):
        for k in range(3):
            T[1 + mu][1 + k] = Pm[k][mu]
    for mu in range(5):
        for k in range(5):
            T[4 + mu][4 + k] = Dm[k][mu]
    C = sym2(T)
    shell = lambda o: 0 if o == 0 else (1 if o < 4 else 2)
    # rows of `matrix` within a class are the molecular pairs of that class in increasing triangular index; columns are local pairs
    n_checked = 0
    for kl in range(45):
        k_ = max(a for a in range(9) if a * (a + 1) // 2 <= kl)
        l_ = kl - k_ * (k_ + 1) // 2
        cls = (shell(k_), shell(l_))
        mol_pairs = [(_pair_index(a, b)) for a in range(9) for b in range(a + 1) if (shell(a), shell(b)) == cls]
        for I, mp in enumerate(sorted(mol_pairs)):
            got = M.a[0, I, kl]
            want = C[(mp, kl)]
            ctx.prove_eq("matrix[%d, local pair %d] = symmetrised product coefficient of molecular pair %d" % (I, kl, mp), got, want)
            n_checked += 1
    ctx.notes.append("GenerateRotationMatrix tail: %d statements; %d table entries checked" % (nst, n_checked))
    ctx.canary_eq("a-sign-in-D", Dm[4][3], -Dm[4][3])
    ctx.assume_note("rational parametrisation of the direction cosines; local d functions ordered (sigma, pi, pi', delta, delta') on the axes (P[1], P[2], P[0]) = (x', y', z')")


def task_rotd_apply(ctx):
    """Rotate2Center2Electron: (i) the 45x45 matrix YM it assembles from `matrix` through its index tables is the
    symmetrised-product table of T on the triangular pair basis (tables MET/META/METB/METI against first principles);
    (ii) its last statements compute YM * W * YM^T with the s-p block taken over unchanged (shape-generic, run on 12x12)."""
    tgt = RMD + ":Rotate2Center2Electron"
    ctx.under_contract(tgt)
    ctx.under_contract(RMD + ":GenerateRotationMatrix", note="tail executed on symbolic P, D entries to produce `matrix`")
    gcode, gloads, gstores, _ = _slice_statements(RMD + ":GenerateRotationMatrix", lambda t: t.startswith("K = 0"), lambda t: t.startswith("return"))
    code1, loads1, stores1, n1 = _slice_statements(tgt, lambda t: t.startswith("MET ="), lambda t: t.startswith("FINAL = WW.clone"))
    code2, loads2, stores2, n2 = _slice_statements(tgt, lambda t: t.startswith("FINAL = WW.clone"), lambda t: t.startswith("return"))
    Psym, Dsym = st.symbolic((1, 3, 3), "P"), st.symbolic((1, 5, 5), "D")

    def thunk():
        env = {"torch": st, "np": np, "xij": st.zeros(1, 3), "device": st._CPU, "dtype": st.float64, "INDX": [0, 1, 3, 6, 10, 15, 21, 28, 36], "P": Psym, "D": Dsym}
        exec(gcode, env)
        env2 = {"torch": st, "np": np, "WW": st.zeros(1, 45, 45), "rotationMatrix": env["matrix"]}
        exec(code1, env2)
        YMs, Ws = st.symbolic((1, 12, 12), "Y"), st.symbolic((1, 12, 12), "W")
        env3 = {"torch": st, "np": np, "WW": Ws, "YM": YMs}
        exec(code2, env3)
        return env2["YM"], env3["FINAL"], YMs, Ws

    ex = ctx.explore(thunk, name="rotd-apply")
    if len(ex.paths) != 1 or ex.paths[0].raised is not None:
        ctx.error("paths", "%r %s" % ([p.raised for p in ex.paths], ex.paths[0].notes.get("traceback", "")[-700:] if ex.paths else ""))
        return
    YM, FINAL, YMs, Ws = ex.paths[0].value
    T = [[S(0)] * 9 for _ in range(9)]
    T[0][0] = S(1)
    for mu in range(3):
        for k in range(3):
            T[1 + mu][1 + k] = Psym.a[0, k, mu]
    for mu in range(5):
        for k in range(5):
            T[4 + mu][4 + k] = Dsym.a[0, k, mu]
    C = sym2(T)
    for mp in range(45):
        for kl in range(45):
            if mp == 0 or kl == 0:
                want = S(1) if (mp == 0 and kl == 0) else S(0)
            else:
                want = C[(mp, kl)]
            ctx.prove_eq("YM[molecular pair %d, local pair %d]" % (mp, kl), YM.a[0, mp, kl], want)
    for i in range(12):
        for j in range(12):
            if i < 10 and j < 10:
                want = Ws.a[0, j, i]
            else:
                want = sum(YMs.a[0, i, a] * Ws.a[0, a, b] * YMs.a[0, j, b] for a in range(12) for b in range(12))
            ctx.prove_eq("result[%d,%d] = (YM W YM^T) outside the s-p block (same YM on both pair indices), W^T inside (the caller's convention for pairs without d functions)" % (i, j), FINAL.a[0, i, j], want)
    ctx.assume_note("clause (ii) on 12x12 stand-ins for the 45x45 matrices (the statements are shape-generic: bmm, transpose, one fixed :10,:10 block)")
    ctx.undecided_clause("that the local-frame d integrals handed to this routine are expressed in the frame P and are axially symmetric (they are to 5e-8 eV numerically: truncated literals in the local-integral code)")


def task_rotd_core(ctx):
    """RotateCore: the rotated core-electron attraction vector is  sum_(kl) C[(mu nu),(kl)] c_loc[(kl)]  for the axially symmetric
    local vector c_loc (ss, sigma s, sigma sigma, pi pi = pi' pi', d_sigma s, d_sigma p_sigma, d_pi p_pi = d_pi' p_pi',
    d_sigma d_sigma, d_pi d_pi = d_pi' d_pi', d_delta d_delta = d_delta' d_delta'), C the symmetrised-product table of T."""
    fn = ctx.under_contract(RMD + ":RotateCore")
    ctx.under_contract(RMD + ":GenerateRotationMatrix", note="tail executed on symbolic P, D entries to produce `matrix`")
    gcode, gloads, gstores, _ = _slice_statements(RMD + ":GenerateRotationMatrix", lambda t: t.startswith("K = 0"), lambda t: t.startswith("return"))
    Psym, Dsym = st.symbolic((1, 3, 3), "P"), st.symbolic((1, 5, 5), "D")
    core = st.symbolic((1, 45), "c")

    def thunk():
        env = {"torch": st, "np": np, "xij": st.zeros(1, 3), "device": st._CPU, "dtype": st.float64, "INDX": [0, 1, 3, 6, 10, 15, 21, 28, 36], "P": Psym, "D": Dsym}
        exec(gcode, env)
        return {idx: fn(core, env["matrix"], idx) for idx in (1, 2, 3)}

    ex = ctx.explore(thunk, name="rotd-core")
    if len(ex.paths) != 1 or ex.paths[0].raised is not None:
        ctx.error("paths", "%r %s" % ([p.raised for p in ex.paths], ex.paths[0].notes.get("traceback", "")[-700:] if ex.paths else ""))
        return
    out = ex.paths[0].value
    T = [[S(0)] * 9 for _ in range(9)]
    T[0][0] = S(1)
    for mu in range(3):
        for k in range(3):
            T[1 + mu][1 + k] = Psym.a[0, k, mu]
    for mu in range(5):
        for k in range(5):
            T[4 + mu][4 + k] = Dsym.a[0, k, mu]
    C = sym2(T)
    c = lambda i: core.a[0, i]
    # local vector in the local orbital order of `matrix` (s; sigma, pi, pi'; d_sigma, d_pi, d_pi', d_delta, d_delta'), values read from
    # the positions of the z-axis-frame integral vector (s, px, py, pz=sigma, dx2-y2, dxz, dz2=sigma, dyz, dxy)
    loc = {(0, 0): c(0), (1, 0): c(6), (1, 1): c(9), (2, 2): c(2), (3, 3): c(2), (4, 0): c(21), (4, 1): c(24), (5, 2): c(16), (6, 3): c(16),
           (4, 4): c(27), (5, 5): c(20), (6, 6): c(20), (7, 7): c(14), (8, 8): c(14)}
    shell = lambda o: 0 if o == 0 else (1 if o < 4 else 2)
    for idx, top in ((1, 0), (2, 1), (3, 2)):
        r = out[idx]
        for mp in range(45):
            mu = max(a for a in range(9) if a * (a + 1) // 2 <= mp)
            nu = mp - mu * (mu + 1) // 2
            if shell(mu) > top:
                want = S(0)
            else:
                want = sum(C[(mp, _pair_index(k, l))] * v for (k, l), v in loc.items() if shell(k) <= top)
            ctx.prove_eq("index=%d.rotated-core[molecular pair %d]" % (idx, mp), r.a[0, mp], want)
    ctx.assume_note("the local core vector is axially symmetric by construction of this routine (it reads ten entries of its input and ignores the rest)")


def quaternion_rotation():
    """every proper rotation, rationally: R(a,b,c,d)/(a^2+b^2+c^2+d^2)"""
    a, b, c, d = real("qa"), real("qb"), real("qc"), real("qd")
    n = a * a + b * b + c * c + d * d
    R = [[a * a + b * b - c * c - d * d, 2 * (b * c - a * d), 2 * (b * d + a * c)],
         [2 * (b * c + a * d), a * a - b * b + c * c - d * d, 2 * (c * d - a * b)],
         [2 * (b * d - a * c), 2 * (c * d + a * b), a * a - b * b - c * c + d * d]]
    return [[R[i][j] / n for j in range(3)] for i in range(3)]


def task_dipole_covariance(ctx):
    """calc_ground_dipole: rotating the geometry by R and the density by the s-p representation of R rotates the dipole by R
    (all proper rotations through the rational quaternion parametrisation; batch [OH, HH])."""
    from contracts.es_common import ghost_es_molecule
    from contracts.md_common import Obj

    fn = ctx.under_contract("seqm.seqm_functions.dipole:calc_ground_dipole")
    ctx.under_contract("seqm.seqm_functions.dipole:calc_dipole_matrix", stubs=["dd_qq"])
    R = quaternion_rotation()

    def dd_stub(qn, zs, zp):
        return st.symbolic((len(qn),), "dd"), st.symbolic((len(qn),), "qq")

    def run(rotated):
        def thunk():
            mol = ghost_es_molecule()
            mol.const.qn = st.tensor([0.0, 1, 1, 2, 2, 2, 2, 2, 2, 2])
            Pm = st.symbolic((2, 8, 8), "P")
            for m, i in ((0, 1), (1, 0), (1, 1)):  # packing invariant (C05): no density on hydrogen p slots
                for k in range(1, 4):
                    Pm.a[m, 4 * i + k, :] = S(0.0)
                    Pm.a[m, :, 4 * i + k] = S(0.0)
            if rotated:
                x = mol.coordinates
                xr = np.empty(x.a.shape, dtype=object)
                for m in range(2):
                    for i in range(2):
                        for c in range(3):
                            xr[m, i, c] = sum(R[c][k] * x.a[m, i, k] for k in range(3))
                mol.coordinates = st.T(xr, st.float64, True)
                T = [[S(0)] * 8 for _ in range(8)]
                for i in range(2):
                    T[4 * i][4 * i] = S(1)
                    for c in range(3):
                        for k in range(3):
                            T[4 * i + 1 + c][4 * i + 1 + k] = R[c][k]
                Pr = np.empty((2, 8, 8), dtype=object)
                for m in range(2):
                    for a in range(8):
                        for b in range(8):
                            Pr[m, a, b] = sum(T[a][p_] * Pm.a[m, p_, q_] * T[b][q_] for p_ in range(8) for q_ in range(8) if not (isinstance(T[a][p_], Sym) and T[a][p_].n.op == "const" and T[a][p_].n.val == 0)
                                              and not (isinstance(T[b][q_], Sym) and T[b][q_].n.op == "const" and T[b][q_].n.val == 0))
                Pm = st.T(Pr, st.float64, True)
            fn(mol, Pm)
            return mol.dipole
        return ctx.explore(thunk, stubs={"seqm.seqm_functions.dipole:dd_qq": dd_stub}, constants={"a0": real("a0"), "to_debye": real("to_debye"), "debye_to_AU": real("debye_to_AU")}, name="dipole-rot")

    e0, e1 = run(False), run(True)
    for ex in (e0, e1):
        if len(ex.paths) != 1 or ex.paths[0].raised is not None:
            ctx.error("paths", "%r %s" % ([p.raised for p in ex.paths], ex.paths[0].notes.get("traceback", "")[-700:] if ex.paths else ""))
            return
    d0, d1 = e0.paths[0].value, e1.paths[0].value
    for m in range(2):
        for c in range(3):
            ctx.prove_eq("dipole(R x, T P T^T)[%d,%d] = (R dipole(x, P))[%d,%d]" % (m, c, m, c), d1.a[m, c], sum(R[c][k] * d0.a[m, k] for k in range(3)))
    ctx.canary_eq("unrotated-dipole-is-not-the-rotated-one", d1.a[0, 0], d0.a[0, 0])
    ctx.assume_note("density restricted by the packing invariant; hybridisation arm lengths (dd_qq) are rotation-invariant atom constants (stub)")


def task_nac_operators(ctx):
    """Nonadiabatic coupling vectors: nac.py's derivative operators contracted with a symmetric transition density equal
    sum_(mu nu) B_(mu nu) dF_(mu nu)/dX with the real fock (contract in C01_forces.nac_contraction): a trace over all Cartesian p
    components, hence covariant whenever the integral derivatives are."""
    from contracts.C01_forces import nac_contraction

    nac_contraction(ctx, False)


TASKS_QUICK = ["rotq", "rotq_jacobian", "w_rotation", "overlap_assembly_d", "overlap_assembly_sp", "overlap_assembly_quat", "rotd_prologue", "rotd_tables", "rotd_apply", "rotd_core", "dipole_covariance", "nac_operators"]
TASKS_THOROUGH = TASKS_QUICK
