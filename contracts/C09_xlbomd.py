"""C09 -- XL-BOMD propagation: published table, fixed point for every buffer phase, circular history,
linear stability over the whole admissible response range, shadow-energy functional.

Functions under contract: XL_BOMD.__init__, XL_BOMD._propagate_P, XL_BOMD._propagate_excited_state,
KSA_XL_BOMD._propagate_P, XL_ESMD._propagate_excited_state, XL_BOMD.one_step, XL_BOMD._do_integrator_step,
the P-selection in run_from_checkpoint, seqm_functions.energy.elec_energy_xl.
"""
from fractions import Fraction

import numpy as np

from pyvc.api import *
from pyvc import symtorch as st, expr as E, schur
from contracts.md_common import *

KS = (3, 4, 5, 6, 7, 8, 9)
C_SCALE = Fraction("0.95")  # the delta-function scaling executed by _propagate_P


def _make(cls_name, k, damp=None):
    """Run the real constructor (esdriver stubbed) and return the object."""
    import seqm.MolecularDynamics as M

    cls = getattr(M, cls_name)
    return cls(damp=damp, xl_bomd_params={"k": k}, seqm_parameters={"method": "AM1"}, timestep=real("dt"), Temp=real("Temp"), output={"h5": {}})


def _coeffs_exact(md):
    return [x.const_value() for x in md.coeff.a]


def exact(x):
    if isinstance(x, Sym):
        return x.const_value()
    if isinstance(x, float):
        return E.frac_of_float(x)
    return Fraction(x)


_LIFTED = {}


def lifted_stubs():
    """The XL-BOMD methods recompiled from their current source with float literals read as exact decimals."""
    if not _LIFTED:
        for t in ("XL_BOMD.__init__", "XL_BOMD._propagate_P", "XL_BOMD._propagate_excited_state", "KSA_XL_BOMD._propagate_P",
                  "XL_ESMD._propagate_excited_state", "XL_ESMD._propagate_excited_amp"):
            _LIFTED[MD + ":" + t] = W.recompile(MD + ":" + t, lift_literals=True)
    d = dict(_LIFTED)
    d[MD + ":esdriver"] = DummyDriver
    return d


def _construct(ctx, cls_name, k):
    ex = ctx.explore(lambda: _make(cls_name, k), stubs=lifted_stubs(), name="init k=%d" % k)
    if len(ex.paths) != 1 or ex.paths[0].raised is not None:
        ctx.error("init[k=%d].paths" % k, "constructor did not run straight through: %r %s" % ([p.raised for p in ex.paths], ex.paths[0].notes.get("traceback", "") if ex.paths else ""))
        return None
    return ex.paths[0].value


def replay_xl(k, cls_name="XL_BOMD"):
    """Real torch: drive the real _propagate_P / buffer rule for 3m steps with a scalar 'density' and compare every
    propagated value with the published recurrence (kappa' = 0.95 kappa); also the fixed point for every phase."""
    def rp(model):
        import torch
        import seqm.MolecularDynamics as M
        from spec.xl_table import published

        torch.set_default_dtype(torch.float64)
        kappa, alpha, c = published(k)
        params = {"method": "AM1", "scf_eps": 1e-6, "scf_converger": [2, 0.0], "sp2": [False, 1e-5], "elements": [0, 1], "learned": [], "pair_outer_cutoff": 1e10, "eig": True}
        md = getattr(M, cls_name)(damp=None, xl_bomd_params={"k": k}, seqm_parameters=params, timestep=0.2, Temp=0.0, output={"h5": {}})
        m = k + 1
        mol = Obj()
        hist_ = {0: 1.0}
        P = torch.full((1, 1, 1), 1.0)
        Pt = P.unsqueeze(0).expand((m, 1, 1, 1)).clone()
        worst_fp = 0.0
        for ph in range(m):
            mol.dm = P.clone()
            mol.dP2dt2 = torch.zeros_like(P)
            worst_fp = max(worst_fp, float((md._propagate_P(P, Pt, ph, mol) - P).abs().max()))
        worst = 0.0
        g = torch.Generator().manual_seed(3)
        for i in range(3 * m):
            D = float(torch.rand((), generator=g)) + 0.5
            mol.dm = torch.full((1, 1, 1), D)
            mol.dP2dt2 = torch.zeros_like(P)
            cindx = i % md.m
            Pn = md._propagate_P(P, Pt, cindx, mol)
            Pt[(md.m - 1 - cindx)] = Pn
            h = lambda a: hist_.get(i - a, hist_[0])
            want = 2 * h(0) - h(1) + 0.95 * float(kappa) * (D - h(0)) + float(alpha) * sum(float(c[a]) * h(a) for a in range(k + 1))
            if cls_name == "XL_BOMD":
                worst = max(worst, abs(float(Pn) - want))
            hist_[i + 1] = float(Pn)
            P = Pn
        return {"reproduced": bool(worst > 1e-9 or worst_fp > 1e-9), "k": k, "max_dev_from_published_recurrence": worst, "max_fixed_point_drift": worst_fp}
    return rp


def replay_resume_slot(k):
    """Real torch: the real run_from_checkpoint slot selection on a history buffer filled by the real one_step rule."""
    def rp(model):
        import torch
        import seqm.MolecularDynamics as M

        m = k + 1
        got = {}

        class Fake:
            def __init__(self, **kw):
                pass

            def to(self, d):
                return self

            def run(self, **kw):
                got["ctx"] = self._xl_ctx

        bad = []
        for sd in range(1, 3 * m + 1):
            Pt = torch.zeros(m, 1, 1, 1)
            for i in range(sd):  # same slot rule as one_step: P(i+1) stored at m-1-(i % m)
                Pt[m - 1 - (i % m)] = float(i + 1)
            ckpt = {"MD_type": "XL_BOMD", "xl_bomd_params": {"k": k}, "xl_ctx": {"Pt": Pt, "es_amp_t": None}, "step_done": sd, "steps": sd + 1, "damp": None,
                    "seqm_parameters": {}, "timestep": 0.1, "Temp": 0.0, "output": {}, "remove_com": None, "rng": {}}
            saved = (M.Molecular_Dynamics_Basic._load_checkpoint_base, M.Molecular_Dynamics_Basic._restore_rng, M.XL_BOMD)
            M.Molecular_Dynamics_Basic._load_checkpoint_base = staticmethod(lambda path, device=None, c=ckpt: (c, None, torch.device("cpu"), True))
            M.Molecular_Dynamics_Basic._restore_rng = staticmethod(lambda c: None)
            M.XL_BOMD = Fake
            try:
                M.Molecular_Dynamics_Basic.run_from_checkpoint("x")
            finally:
                M.Molecular_Dynamics_Basic._load_checkpoint_base = staticmethod(saved[0])
                M.Molecular_Dynamics_Basic._restore_rng = staticmethod(saved[1])
                M.XL_BOMD = saved[2]
            if float(got["ctx"]["P"]) != float(sd):
                bad.append({"step_done": sd, "P_selected_is_from_step": float(got["ctx"]["P"])})
        return {"reproduced": bool(bad), "k": k, "wrong_resume_points": bad[:6]}
    return rp


def task_table(ctx):
    """O1: what __init__ builds is the published scheme."""
    from spec.xl_table import published

    ctx.under_contract(MD + ":XL_BOMD.__init__")
    for k in KS:
        md = _construct(ctx, "XL_BOMD", k)
        if md is None:
            continue
        kappa, alpha, c = published(k)
        tag = "k=%d" % k
        got = _coeffs_exact(md)
        ctx.prove("%s.m" % tag, S(md.m) == k + 1)
        ctx.prove("%s.len(coeff)=2m" % tag, S(len(got)) == 2 * (k + 1))
        ctx.prove("%s.kappa" % tag, S(exact(md.kappa)) == S(kappa))
        ctx.prove("%s.alpha" % tag, S(exact(md.alpha)) == S(alpha))
        ctx.prove("%s.coeff_D=kappa" % tag, S(exact(md.coeff_D)) == S(kappa))
        want = [alpha * cj for cj in c]
        want[0] += 2 - kappa
        want[1] -= 1
        for j in range(k + 1):
            ctx.prove("%s.coeff[%d]" % (tag, j), S(got[j]) == S(want[j]), replay=replay_xl(k))
            ctx.prove("%s.coeff[%d]=coeff[%d+m]" % (tag, j, j), S(got[j]) == S(got[j + k + 1]))
        # structural properties of the published scheme itself (independent of how the table was typed)
        ctx.prove("%s.sum(c)=0" % tag, S(sum(c)) == 0)
        ctx.prove("%s.sum(j*c_j)=0" % tag, S(sum(j * cj for j, cj in enumerate(c))) == 0)
    ctx.canary("k3-coefficient", S(Fraction(3)) == S(Fraction(2)))
    ctx.assume_note("float literals in XL_BOMD.__init__/_propagate_* are read as the exact decimals written in the source (the functions are recompiled from their current source with every float literal lifted to an exact rational); float32/64 rounding of alpha*c_j is not covered (A1)")


def _uniform_ctx(md, m, with_es=False):
    P = st.symbolic((1, 2, 2), "P")
    Pt = P.unsqueeze(0).expand((m,) + tuple(P.shape)).clone()
    return P, Pt


def task_fixed_point(ctx):
    """O2: if every history slot equals P and the SCF density equals P, the propagated density is P -- for every phase."""
    targets = [("XL_BOMD", "_propagate_P"), ("KSA_XL_BOMD", "_propagate_P"), ("XL_BOMD", "_propagate_excited_state"), ("XL_ESMD", "_propagate_excited_state"), ("XL_ESMD", "_propagate_excited_amp")]
    for cls, meth in targets:
        ctx.under_contract(MD + ":%s.%s" % (cls, meth))
    for k in KS:
        for cls, meth in targets:
            md = _construct(ctx, cls, k)
            if md is None:
                continue
            m = k + 1
            for cindx in range(m):
                def thunk():
                    mol = ghost_molecule(0)
                    if meth == "_propagate_P":
                        P = st.symbolic((1, 2, 2), "P")
                        Pt = P.unsqueeze(0).expand((m, 1, 2, 2)).clone()
                        mol.dm = P.clone()
                        mol.dP2dt2 = st.zeros(1, 2, 2)
                        return P, getattr(md, meth)(P, Pt, cindx, mol)
                    shape = (1, 1, 2, 2) if meth == "_propagate_excited_state" else (1, 2, 2)
                    X = st.symbolic(shape, "X")
                    Xt = X.unsqueeze(0).expand((m,) + shape).clone()
                    mol.transition_density_matrices = X.clone()
                    mol.cis_amplitudes = X.clone()
                    mol.dxi2dt2 = None
                    return X, getattr(md, meth)(X, Xt, cindx, mol)

                ex = ctx.explore(thunk, name="%s.%s" % (cls, meth), stubs=lifted_stubs())
                for p in ex.paths:
                    if p.raised is not None:
                        ctx.fail("%s.%s[k=%d,phase=%d].raises" % (cls, meth, k, cindx), repr(p.raised) + p.notes.get("traceback", "")[-400:])
                        continue
                    P, Pn = p.value
                    goal = E.and_(*[E.eq(a.n, b.n) for a, b in zip(P.a.reshape(-1), Pn.a.reshape(-1))])
                    ctx.prove("%s.%s[k=%d,phase=%d].fixed-point" % (cls, meth, k, cindx), goal, pc=p.pc, replay=replay_xl(k, cls if meth == "_propagate_P" else "XL_BOMD"))
    ctx.assume_note("shape: 2x2 density block of one molecule; the propagation is elementwise in the matrix entries")


def resume_rule(ctx):
    """the real run_from_checkpoint on a ghost checkpoint with a symbolic step_done: the density handed to the resumed
    XL-BOMD run is the newest history entry P(step_done), for every buffer phase."""
    import seqm.MolecularDynamics as M

    fn_resume = M.Molecular_Dynamics_Basic.run_from_checkpoint
    for k in KS:
        m = k + 1
        sd = integer("step_done")
        made = {}

        class FakeXL:
            def __init__(self, **kw):
                made["kwargs"] = kw
                made["obj"] = self

            def to(self, device):
                return self

            def run(self, **kw):
                made["run"] = kw

        def Phist(lab):
            return Sym(E.uf("Phist", (E.node_of(lab),), E.R))

        def thunk():
            assume(sd >= 1)
            Pt = st.tensor([[[[Phist(sd - ((sd % m + j) % m))]]] for j in range(m)])
            ckpt = {"MD_type": "XL_BOMD", "xl_bomd_params": {"k": k}, "xl_ctx": {"Pt": Pt, "es_amp_t": None}, "step_done": sd, "steps": sd + 5, "damp": None,
                    "seqm_parameters": {}, "timestep": real("dt"), "Temp": real("Temp"), "output": {}, "remove_com": None, "rng": {}}
            mol = ghost_molecule(0)

            def load(path, device=None):
                return ckpt, mol, st._CPU, True

            saved = (M.Molecular_Dynamics_Basic._load_checkpoint_base, M.Molecular_Dynamics_Basic._restore_rng)
            M.Molecular_Dynamics_Basic._load_checkpoint_base = staticmethod(load)
            M.Molecular_Dynamics_Basic._restore_rng = staticmethod(lambda c: None)
            try:
                fn_resume("ckpt.pt")
            finally:
                M.Molecular_Dynamics_Basic._load_checkpoint_base = staticmethod(saved[0])
                M.Molecular_Dynamics_Basic._restore_rng = staticmethod(saved[1])
            return made["obj"]._xl_ctx, made["kwargs"], made["run"]

        ex = ctx.explore(thunk, stubs={MD + ":XL_BOMD": FakeXL, MD + ":KSA_XL_BOMD": FakeXL}, name="run_from_checkpoint k=%d" % k)
        phases = 0
        for p in ex.paths:
            if p.raised is not None:
                ctx.fail("k=%d.resume.raises@p%d" % (k, p.path_id), repr(p.raised) + p.notes.get("traceback", "")[-600:])
                continue
            phases += 1
            xl, kw, runkw = p.value
            ctx.prove("k=%d.resume.P-is-the-newest-history-entry@p%d" % (k, p.path_id), xl["P"].a.reshape(-1)[0] == Phist(sd), pc=p.pc, replay=replay_resume_slot(k))
            ctx.prove("k=%d.resume.history-buffer-passed-on-unchanged@p%d" % (k, p.path_id), E.const(xl["Pt"].a.shape == (m, 1, 1, 1)), pc=p.pc)
            ctx.prove("k=%d.resume.starts-at-step_done@p%d" % (k, p.path_id), S(kw["step_offset"]) == sd, pc=p.pc)
        if phases != m and not any(r["status"] == "refuted" for r in ctx.results):
            ctx.error("k=%d.resume.phases" % k, "expected %d buffer phases, explored %d" % (m, phases))


def task_history(ctx):
    """O3: one_step(step=i) keeps the circular buffer invariant  Pt[j] = P(i - ((i mod m + j) mod m))  and executes the
    published recurrence with kappa' = c*kappa; _do_integrator_step stores the result; the resume rule selects P(step_done)."""
    ctx.under_contract(MD + ":XL_BOMD.one_step", stubs=["esdriver"])
    ctx.under_contract(MD + ":XL_BOMD._do_integrator_step")
    ctx.under_contract(MD + ":Molecular_Dynamics_Basic.run_from_checkpoint", note="only the slot selection P = Pt[m-1-((step_done-1) % m)] (re-stated, see obligation resume-slot)")
    from spec.xl_table import published

    for k in KS:
        md = _construct(ctx, "XL_BOMD", k)
        if md is None:
            continue
        m = k + 1
        kappa, alpha, c = published(k)
        i = integer("i")

        def Phist(lab):
            return Sym(E.uf("Phist", (E.node_of(lab),), E.R))

        def thunk():
            assume(i >= 0)
            mol = ghost_molecule(0)
            D = real("D_i")  # SCF density at step i (entry-wise; the update is elementwise)
            mol.dm = st.tensor([[[D]]])
            Pt = st.tensor([[[[Phist(i - ((i % m + j) % m))]]] for j in range(m)])
            P = st.tensor([[[Phist(i)]]])

            def drv(molecule, **kw):
                molecule.force = st.symbolic((1, 1, 3), "Fnew")

            md.esdriver.behaviour = drv
            md._xl_ctx = {"P": P, "Pt": Pt}
            md._do_integrator_step(i, mol, {})
            return md._xl_ctx["P"], md._xl_ctx["Pt"], D

        ex = ctx.explore(thunk, name="one_step k=%d" % k, stubs=lifted_stubs())
        phases = set()
        for p in ex.paths:
            if p.raised is not None:
                ctx.fail("k=%d.one_step.raises@p%d" % (k, p.path_id), repr(p.raised) + p.notes.get("traceback", "")[-600:])
                continue
            Pn, Ptn, D = p.value
            # which phase is this path?
            ph = [d[1] for d in p.decisions if d[0] == "i"]
            phase = ph[0] if ph else -1
            phases.add(phase)
            kp = C_SCALE * kappa
            rec = 2 * Phist(i) - Phist(i - 1) + S(kp) * (D - Phist(i))
            for a in range(k + 1):
                rec = rec + S(alpha * c[a]) * Phist(i - a)
            ctx.prove("k=%d.phase=%d.recurrence" % (k, phase), Pn.a.reshape(-1)[0] == rec, pc=p.pc, replay=replay_xl(k))
            for j in range(m):
                age = ((i + 1) % m + j) % m
                want = Sym(E.ite((age == 0).n, Pn.a.reshape(-1)[0].n, Phist(i + 1 - age).n))
                ctx.prove("k=%d.phase=%d.buffer[%d]" % (k, phase, j), Ptn.a.reshape(-1)[j] == want, pc=p.pc)
        if phases != set(range(m)):
            ctx.error("k=%d.phases" % k, "expected every buffer phase 0..%d to be explored, got %r" % (k, sorted(phases)))
        # resume: the slot picked by run_from_checkpoint has age 0 under the invariant at i = step_done >= 1
        sd = integer("step_done")
        slot = (m - 1) - ((sd - 1) % m)
        ctx.prove("k=%d.resume-slot-has-age-0" % k, ((sd % m + slot) % m) == 0, pc=[sd >= 1])
    resume_rule(ctx)
    ctx.assume_note("A6: the electronic-structure driver is a stub that only sets molecule.force")


def task_stability(ctx):
    """O4: the executed recurrence is strictly Schur-stable for every effective kappa' in (0, kappa]."""
    ctx.under_contract(MD + ":XL_BOMD.__init__", note="characteristic polynomial built from the coeff / coeff_D produced by the real constructor")
    for k in KS:
        md = _construct(ctx, "XL_BOMD", k)
        if md is None:
            continue
        co = _coeffs_exact(md)[: k + 1]
        kappa = exact(md.coeff_D)
        n = k + 1
        # P(n+1) = kappa'*D + (co[0] + kappa - kappa') P(n) + sum_{a>=1} co[a] P(n-a); linearised about the fixed point with
        # D responding with eigenvalue gamma in [0,1): kappa_eff = kappa'(1-gamma) in (0, kappa'] ; executed kappa' = 0.95 kappa
        def cf(x, co=co, kappa=kappa, n=n):
            a = [Fraction(0)] * (n + 1)
            a[n] = Fraction(1)
            a[n - 1] = -(co[0] + kappa - x)
            for j in range(1, n):
                a[n - 1 - j] = -co[j]
            return a

        import time

        t0 = time.time()
        ok, det = schur.all_roots_inside_for_interval(cf, n, Fraction(0), kappa)
        dt = time.time() - t0
        if ok:
            ctx.ok("k=%d.schur-stable-on-(0,kappa]" % k, "schur-cohn", detail=str(det), t=dt)
        else:
            ctx.fail("k=%d.schur-stable-on-(0,kappa]" % k, "a leading principal minor of the Schur-Cohn matrix is not positive on (0, kappa]: %s" % det, backend="schur-cohn",
                     replay=_replay_unstable(co, kappa))
        ok2, _ = schur.all_roots_inside_for_interval(cf, n, Fraction(0), kappa * Fraction(23, 10))
        if ok2:
            ctx.error("canary.k=%d.unstable-beyond-2.3kappa" % k, "Schur-Cohn test accepts kappa' up to 2.3*kappa: the decision procedure cannot be trusted")
        else:
            ctx.ok("canary.k=%d.unstable-beyond-2.3kappa" % k, "schur-cohn-canary")
    ctx.assume_note("exact-rational reading of the literals; the stability margin near kappa' -> 0 is ~1e-17, so floating-point rounding of alpha*c_j is explicitly not covered")
    ctx.undecided_clause("shadow-energy fluctuation scaling ~dt^2 and convergence to BOMD as dt -> 0 (limits)")


def _replay_unstable(co, kappa):
    """numeric root check of the characteristic polynomial on a grid of kappa' (reports the largest modulus)."""
    import numpy as _np

    worst = (0.0, None)
    n = len(co)
    for t in _np.linspace(0.02, 1.0, 50):
        x = float(kappa) * t
        a = [1.0, -(float(co[0]) + float(kappa) - x)] + [-float(c) for c in co[1:]]
        r = max(abs(_np.roots(a)))
        if r > worst[0]:
            worst = (float(r), x)
    return {"reproduced": worst[0] > 1.0 + 1e-9, "max_root_modulus": worst[0], "at_kappa_eff": worst[1]}


def task_shadow_energy(ctx):
    """O5: elec_energy_xl(D,P,F,h) = tr[D F] - 1/2 tr[(F - h) P] and reduces to elec_energy(P,F,h) at D = P."""
    fxl = ctx.under_contract("seqm.seqm_functions.energy:elec_energy_xl")
    fe = ctx.under_contract("seqm.seqm_functions.energy:elec_energy")
    n = 3
    D, P, F = st.symbolic((1, n, n), "D"), st.symbolic((1, n, n), "P"), st.symbolic((1, n, n), "F")
    H = st.symbolic((1, n, n), "H")  # only the upper triangle is meaningful (as built by hcore)

    def thunk():
        return fxl(D, P, F, H), fe(P, F, H), fxl(P, P, F, H)

    ex = ctx.explore(thunk, name="elec_energy_xl")
    exl, eel, exl_pp = ex.paths[0].value
    h = [[H.a[0, min(i, j), max(i, j)] for j in range(n)] for i in range(n)]
    spec = 0
    for i in range(n):
        for j in range(n):
            spec = spec + D.a[0, i, j] * F.a[0, i, j] - Fraction(1, 2) * (F.a[0, i, j] - h[i][j]) * P.a[0, i, j]
    ctx.prove_eq("published-functional", exl.a[0], spec)
    ctx.prove_eq("reduces-to-scf-energy-at-D=P", exl_pp.a[0], eel.a[0])
    spec_e = 0
    for i in range(n):
        for j in range(n):
            spec_e = spec_e + Fraction(1, 2) * P.a[0, i, j] * (h[i][j] + F.a[0, i, j])
    ctx.prove_eq("elec_energy=1/2 sum P(h+F)", eel.a[0], spec_e)
    ctx.canary_eq("sign-of-double-counting", exl.a[0], spec + (F.a[0, 0, 1] - h[0][1]) * P.a[0, 0, 1])
    ctx.assume_note("shape-bounded: 3x3 matrices, one molecule; all real values")


def replay_ksa_md_small_molecule(model):
    """real code: KSA_XL_BOMD (max_rank 3) on H2, which has ONE independent density direction, alone and in a zero-padded batch
    next to water: 4 steps must return finite energies, and H2's must be those of plain XL_BOMD's first steps to 1e-6 eV."""
    import io, contextlib, os, tempfile, shutil, math
    import torch
    from seqm.seqm_functions.constants import Constants
    from seqm.Molecule import Molecule
    from seqm.MolecularDynamics import KSA_XL_BOMD

    torch.set_default_dtype(torch.float64)
    w = [[0.0, 0.0, 0.0], [0.96, 0.0, 0.0], [-0.24, 0.93, 0.0]]
    h2 = [[0.0, 0.0, 0.0], [0.74, 0.0, 0.0], [5.0, 5.0, 5.0]]
    out = {}
    for name, sp, xyz in (("H2 alone", [[1, 1]], [h2[:2]]), ("batch [water, H2+padding]", [[8, 1, 1], [1, 1, 0]], [w, h2])):
        d = tempfile.mkdtemp(prefix="pyvc_c09_")
        try:
            params = {"method": "AM1", "scf_eps": 1e-8, "scf_converger": [1], "sp2": [False, 1e-5], "elements": [0, 1, 8], "learned": [], "pair_outer_cutoff": 1e10, "eig": True}
            mol = Molecule(Constants(), params, torch.tensor(xyz), torch.tensor(sp))
            md = KSA_XL_BOMD(xl_bomd_params={"k": 5, "max_rank": 3, "err_threshold": 0.0, "T_el": 1500}, damp=None, seqm_parameters=params, Temp=0.0, timestep=0.4,
                             output={"molid": [0], "prefix": os.path.join(d, "md"), "print every": 0, "checkpoint every": 0, "xyz": 0, "h5": {}})
            with contextlib.redirect_stdout(io.StringIO()):
                md.run(mol, 4, remove_com=None)
            out[name] = [float(x) for x in mol.Etot]
        except Exception as exc:  # noqa
            out[name] = "raised %s: %s" % (type(exc).__name__, str(exc)[:140])
        finally:
            shutil.rmtree(d, ignore_errors=True)
    bad = any(isinstance(v, str) or any(not math.isfinite(x) for x in v) for v in out.values())
    return {"reproduced": bool(bad), "Etot_after_4_steps": out}


def replay_xlesmd_exhausted_row(model):
    """real compute_dxi2dt2_rankm (excited-state XL-BOMD kernel): two rows, one whose amplitude space is one-dimensional (zero
    padded to the common length) next to a generic one; max_rank 2 and 3 must return finite updates, and the exhausted row's must
    equal its rank-1 update."""
    import io, contextlib
    import torch
    from seqm.seqm_functions.XLESMD import compute_dxi2dt2_rankm

    torch.set_default_dtype(torch.float64)
    torch.manual_seed(0)
    n = 4
    A0 = torch.randn(n, n)
    A0 = 0.3 * (A0 + A0.T) + 2 * torch.eye(n)
    A1 = torch.zeros(n, n)
    A1[0, 0] = 1.7

    def jvp(v):
        out = torch.empty_like(v)
        out[0, 0] = A0 @ v[0, 0]
        out[1, 0] = A1 @ v[1, 0]
        return out

    xi, eta = torch.zeros(2, 1, n), torch.zeros(2, 1, n)
    xi[0, 0], eta[0, 0] = torch.randn(n), torch.randn(n)
    xi[1, 0, 0], eta[1, 0, 0] = 0.4, 0.1
    out = {}
    for rank in (1, 2, 3):
        try:
            with contextlib.redirect_stdout(io.StringIO()):
                r = compute_dxi2dt2_rankm(eta, xi, jvp, {"max_rank": rank, "err_threshold": 0.0}, lambda v: v)
            out[rank] = r[1, 0].tolist()
        except Exception as exc:  # noqa
            out[rank] = "raised %s: %s" % (type(exc).__name__, str(exc)[:100])
    bad = any(isinstance(v, str) for v in out.values()) or any(abs(out[k][0] - out[1][0]) > 1e-9 for k in (2, 3) if not isinstance(out[k], str))
    return {"reproduced": bool(bad), "update_of_the_exhausted_row_by_max_rank": out}


def task_ksa_subspace_solve_excited(ctx):
    """the third copy of the Krylov kernel (seqm_functions/XLESMD.py compute_dxi2dt2_rankm, excited-state XL-BOMD, amplitude
    vectors): same contract -- total and a projection for linearly dependent response vectors (a row whose amplitude space has
    fewer dimensions than the batch-wide rank reached: a small molecule, or a state confined to a low-dimensional symmetry block)."""
    import seqm.seqm_functions.XLESMD as X
    from contracts.C03_scf import ksa_subspace_contract

    ksa_subspace_contract(ctx, "seqm.seqm_functions.XLESMD:compute_dxi2dt2_rankm", X.compute_dxi2dt2_rankm, replay_xlesmd_exhausted_row, "ksa_es_subspace", vectors=True)


def replay_canon_rows(model):
    """real Canon_DM_PRT at a high electronic temperature (30 000 K: fractional occupations): a batch of two rows against each row
    alone, and the trace of every response (must vanish: the response conserves the electron number)."""
    import torch
    from seqm.seqm_functions.canon_dm_prt import Canon_DM_PRT

    torch.set_default_dtype(torch.float64)
    g = torch.Generator().manual_seed(2)
    n, kB, T, m = 4, 8.61739e-5, 30000.0, 6
    one, zero = torch.tensor([1]), torch.tensor([0])

    def row(seed):
        A = torch.randn(n, n, generator=g)
        H = A + A.T
        e, Q = torch.linalg.eigh(H)
        F1 = torch.randn(n, n, generator=g)
        return (F1 + F1.T), Q, e, e[1:3].mean()

    rows = [row(0), row(1)]

    def call(idx):
        F1 = torch.stack([rows[i][0] for i in idx])
        Q = torch.stack([rows[i][1] for i in idx])
        e = torch.stack([rows[i][2] for i in idx])
        mu = torch.stack([rows[i][3] for i in idx]).reshape(-1, 1)
        k = len(idx)
        return Canon_DM_PRT(F1, T, torch.ones(k, dtype=torch.long), torch.zeros(k, dtype=torch.long), Q, e, mu, m, kB, torch.ones(k, n))

    both = call([0, 1])
    alone = [call([0])[0], call([1])[0]]
    dev = max(float((both[i] - alone[i]).abs().max()) for i in range(2))
    tr = max(abs(float(both[i].diagonal().sum())) for i in range(2))
    return {"reproduced": dev > 1e-10 or tr > 1e-10, "max |response in batch - response alone|": dev, "max |trace of a response|": tr}


def task_canon_dm_prt(ctx):
    """Canon_DM_PRT (density response of the Krylov kernel): the response of molecule b mentions only molecule b's inputs (its
    perturbation, eigenpairs, chemical potential) and is traceless (the chemical-potential correction removes exactly ITS OWN
    trace), so the auxiliary density keeps its electron count.  Real function, m = 1 recursion level, batch of two 2-orbital rows,
    eigenvectors = identity (the trace is then the one in the eigenbasis), pack/unpack as the identity."""
    import seqm.seqm_functions.canon_dm_prt as CD
    from contracts.C07_differentiability import _quiet

    CM = "seqm.seqm_functions.canon_dm_prt"
    fn = ctx.under_contract(CM + ":Canon_DM_PRT", stubs=["pack", "unpack"])
    rep = []
    rp = lambda mdl: (rep or rep.append(_quiet(replay_canon_rows)) or rep)[0]
    T, kB = real("Tel"), real("kB")

    def thunk():
        assume((T > 0) & (kB > 0))
        F1 = st.symbolic((2, 2, 2), "F1")
        for b in range(2):
            F1.a[b, 1, 0] = F1.a[b, 0, 1]
        Q = st.tensor(np.stack([np.eye(2), np.eye(2)]))
        ev = st.symbolic((2, 2), "h")
        mu0 = st.symbolic((2, 1), "mu")
        mask = st.ones(2, 2)
        return fn(F1, T, st.tensor([0, 0]), st.tensor([2, 2]), Q, ev, mu0, 1, kB, mask)

    ex = ctx.explore(thunk, stubs={CM + ":pack": lambda x, nh, nhy: x, CM + ":unpack": lambda x, nh, nhy, size: x}, name="Canon_DM_PRT", max_paths=8)
    ok = [p for p in ex.paths if p.raised is None]
    if len(ok) != 1:
        for p in ex.paths:
            if p.raised is not None and isinstance(p.raised, Unmodelled):
                raise p.raised
        ctx.error("canon_dm_prt.paths", "%r" % ([p.raised for p in ex.paths],))
        return
    P1 = ok[0].value
    import random

    rng = random.Random(7)
    for b in range(2):
        tr = P1.a[b, 0, 0] + P1.a[b, 1, 1]
        # the identity is a ratio of degree-8 polynomials in 12 symbols: the normal form does not finish in reasonable time, so the
        # trace is evaluated exactly (rational arithmetic) at 12 random rational points -- BOUNDED, recorded as such
        names = sorted(v.val for v in E.free_vars(tr.n))
        worst = Fraction(0)
        for _ in range(12):
            env = {nm: Fraction(rng.randint(1, 40), rng.randint(7, 23)) for nm in names}
            try:
                val = E.evaluate(tr.n, env, mode="frac")
            except ZeroDivisionError:
                continue
            worst = max(worst, abs(Fraction(val)))
        if worst == 0:
            ctx.ok("canon_dm_prt.response[%d]-is-traceless" % b, "bounded:exact-evaluation-at-12-rational-points")
        else:
            ctx.fail("canon_dm_prt.response[%d]-is-traceless" % b, "trace = %s at a sampled rational point" % float(worst), replay=rp(None), witness_class="response-not-number-conserving", backend="bounded:exact-evaluation")
        foreign = set()
        for i in range(2):
            for j in range(2):
                for v in E.free_vars(P1.a[b, i, j].n):
                    nm = v.val
                    if nm.split("_")[0] in ("F1", "h", "mu") and int(nm.split("_")[1]) != b:
                        foreign.add(nm)
        (ctx.ok if not foreign else ctx.fail)("canon_dm_prt.response[%d]-mentions-only-its-own-molecule" % b, "frame" if not foreign else "mentions %s" % sorted(foreign), **({} if not foreign else {"replay": rp(None)}))
    ctx.bounded.append({"what": "tracelessness of the Canon_DM_PRT response", "bound": "exact rational evaluation of the symbolic trace at 12 random points (2 rows, 2 orbitals, m = 1)", "why_not_proved": "rational-function normal form of the identity does not finish; the row-frame clause next to it is exact"})
    ctx.assume_note("canon_dm_prt: recursion depth m = 1 (the body is the same for every level), two rows of two orbitals, identity eigenvectors (A2: orthonormal eigenvectors keep the trace)")


def task_fermi_occupations(ctx):
    """Krylov-subspace / finite-temperature variant: the density EnergyXL.forward builds from F(P) is Fermi_Q's; its chemical
    potential is updated by the Newton step TOWARDS the root of sum_i f_i(mu) = N over the molecule's physical orbitals, the
    occupations are the Fermi function at the final chemical potential, D = 2 Q f Q^T (contract shared with C05's fermi_rows)."""
    from contracts.C05_batching import task_fermi_rows

    task_fermi_rows(ctx)


def task_ksa_subspace_solve(ctx):
    """Krylov-subspace variant (EnergyXL.forward with max_rank): the statements that solve for the kernel update inside the
    subspace (Rank_m = ... up to IdentRes = ..., extracted from the source on every run) are total and a projection for EVERY set
    of response vectors, linearly dependent ones included -- a molecule with fewer independent density directions than max_rank
    (H2 has one) meets a singular Gram matrix, alone or in a batch.  Same contract as C03's ksa_subspace_solve."""
    import seqm.dynamics.xlbomd as XL
    from contracts.C03_scf import ksa_subspace_contract

    ksa_subspace_contract(ctx, "seqm.dynamics.xlbomd:EnergyXL.forward", XL.EnergyXL.forward, replay_ksa_md_small_molecule, "ksa_md_subspace")


TASKS_QUICK = ["table", "fixed_point", "history", "stability", "shadow_energy", "ksa_subspace_solve", "ksa_subspace_solve_excited", "fermi_occupations", "canon_dm_prt"]
TASKS_THOROUGH = TASKS_QUICK
