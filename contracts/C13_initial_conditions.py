"""C13 -- initial conditions, centre-of-mass handling, seeding.

Functions under contract: Molecular_Dynamics_Basic.initialize_velocity, _zero_com, set_dof (all engines),
initialize (COM-mode parsing), run (seeding order)."""
from fractions import Fraction

import numpy as np

from pyvc.api import *
from pyvc import symtorch as st, expr as E
from contracts.md_common import *
from contracts.C12_langevin import _mol, STUBS as _S12
from contracts.C08_nve import _make_basic

STUBS = {MD + ":esdriver": DummyDriver}


def _install_pinv(rec):
    def pinv(I, hermitian=False, atol=None, rtol=None):
        # assumed contract (LAPACK): for an invertible Hermitian I, pinv(I) I = Id.  The stub returns an arbitrary matrix X;
        # the obligations that need more use the recorded argument.
        rec["I"] = I
        X = st.symbolic(tuple(I.shape), "Xpinv")
        rec["X"] = X
        return X

    st._Linalg.hooks["pinv"] = pinv


def _install_cross(which, rec):
    """Abstraction of one of the two cross products in _zero_com by fresh symbols (modular reasoning: the clause proved
    with call #k abstracted holds for ANY value of that intermediate)."""
    rec["ncross"] = 0

    def hook(a, b, dim):
        rec["ncross"] += 1
        if rec["ncross"] == which:
            shp = np.broadcast_shapes(tuple(a.shape), tuple(b.shape))
            return st.symbolic(shp, "cross%d" % which)
        return None

    st._Linalg.hooks["cross"] = hook


def _kin(mol):
    return sum(mol.mass.a[0, i, 0] * sum(mol.velocities.a[0, i, c] ** 2 for c in range(3)) for i in range(mol.mass.a.shape[1]))


def _mom(mol, vel):
    n = mol.mass.a.shape[1]
    return [sum(mol.mass.a[0, i, 0] * vel.a[0, i, c] for i in range(n)) for c in range(3)]


def _angmom(mol, r, vel):
    n = mol.mass.a.shape[1]
    L = [0, 0, 0]
    for i in range(n):
        m = mol.mass.a[0, i, 0]
        x, v = [r[i][c] for c in range(3)], [vel.a[0, i, c] for c in range(3)]
        L[0] = L[0] + m * (x[1] * v[2] - x[2] * v[1])
        L[1] = L[1] + m * (x[2] * v[0] - x[0] * v[2])
        L[2] = L[2] + m * (x[0] * v[1] - x[1] * v[0])
    return L


def replay_padding(model):
    """Real torch: a 2-molecule batch [H2O, H2 + 1 padding slot]; padding velocity/position after initialize_velocity."""
    import torch
    import seqm.MolecularDynamics as M

    torch.set_default_dtype(torch.float64)
    torch.manual_seed(7)
    md = object.__new__(M.Molecular_Dynamics_Basic)
    torch.nn.Module.__init__(md)
    md.Temp = 300.0
    md.n_dof = torch.tensor([9.0, 6.0])
    species = torch.tensor([[8, 1, 1], [1, 1, 0]])
    mass = torch.tensor([[15.999, 1.008, 1.008], [1.008, 1.008, 0.0]]).unsqueeze(2)
    minv = torch.where(mass > 0, 1.0 / mass.clamp_min(1e-30), torch.zeros_like(mass))
    coords = torch.tensor([[[0.0, 0, 0], [0.96, 0, 0], [-0.24, 0.93, 0]], [[0.0, 0, 0], [0.74, 0, 0], [5.0, 5.0, 5.0]]])
    mol = Obj(species=species, mass=mass, mass_inverse=minv, coordinates=coords.clone(), velocities=None)
    md.initialize_velocity(mol)
    v_pad = mol.velocities[1, 2]
    x_pad = mol.coordinates[1, 2]
    return {"reproduced": bool(v_pad.abs().max() > 1e-12), "padding_velocity_A_per_fs": v_pad.tolist(), "padding_position_before": [5.0, 5.0, 5.0], "padding_position_after": x_pad.tolist()}


def replay_user_velocities(model):
    import torch
    import seqm.MolecularDynamics as M

    torch.set_default_dtype(torch.float64)
    md = object.__new__(M.Molecular_Dynamics_Basic)
    torch.nn.Module.__init__(md)
    md.Temp = 300.0
    md.n_dof = torch.tensor([6.0])
    mass = torch.tensor([[1.008, 15.999]]).unsqueeze(2)
    coords = torch.tensor([[[0.0, 0, 0], [0.97, 0.1, 0]]])
    v_user = torch.tensor([[[0.01, 0.0, 0.002], [0.0, 0.003, 0.0]]])
    mol = Obj(species=torch.tensor([[8, 1]]), mass=mass, mass_inverse=1.0 / mass, coordinates=coords.clone(), velocities=v_user.clone())
    out = {}
    try:
        md.initialize_velocity(mol)
        out["max_change_A_per_fs"] = float((mol.velocities - v_user).abs().max())
        out["reproduced"] = out["max_change_A_per_fs"] > 1e-12
    except RuntimeError as e:
        out.update(reproduced=True, raised=str(e))
    # a molecule at rest is a legitimate user input as well
    mol2 = Obj(species=torch.tensor([[8, 1]]), mass=mass, mass_inverse=1.0 / mass, coordinates=coords.clone(), velocities=torch.zeros_like(v_user))
    try:
        md.initialize_velocity(mol2)
        out["at_rest_changed"] = float(mol2.velocities.abs().max())
        if out["at_rest_changed"] > 0:
            out["reproduced"] = True  # a field at rest was replaced by a draw
    except RuntimeError as e:
        out["at_rest_raises"] = str(e)
        out["reproduced"] = True
    return out


def replay_zero_com_angular(model):
    """Real torch: _zero_com(remove_angular=True, translate_to_origin=False) on an off-centre, rotating 3-atom molecule."""
    import torch
    import seqm.MolecularDynamics as M

    torch.set_default_dtype(torch.float64)
    md = object.__new__(M.Molecular_Dynamics_Basic)
    torch.nn.Module.__init__(md)
    mass = torch.tensor([[15.999, 1.008, 1.008]]).unsqueeze(2)
    x = torch.tensor([[[3.0, 2.0, 1.0], [3.96, 2.0, 1.1], [2.76, 2.93, 0.9]]])
    v = torch.tensor([[[0.001, -0.002, 0.0005], [0.01, 0.004, -0.003], [-0.006, 0.002, 0.008]]])
    mol = Obj(species=torch.tensor([[8, 1, 1]]), mass=mass, coordinates=x.clone(), velocities=v.clone())
    md._zero_com(mol, remove_angular=True, translate_to_origin=False)
    Mtot = mass.sum()
    rc = (mass * mol.coordinates).sum(1) / Mtot
    P = (mass * mol.velocities).sum(1)[0]
    L = (mass * torch.linalg.cross(mol.coordinates - rc, mol.velocities, dim=2)).sum(1)[0]
    scale = float((mass * v.abs()).sum())
    return {"reproduced": bool(float(L.abs().max()) > 1e-9 * scale or float(P.abs().max()) > 1e-9 * scale), "linear_momentum_after": P.tolist(), "angular_momentum_about_COM_after": L.tolist()}


def task_zero_com(ctx):
    """O2/O3: _zero_com zeroes the linear momentum, removes I*omega of angular momentum with the textbook inertia tensor,
    restores the kinetic energy exactly, and does not touch padding slots."""
    ctx.under_contract(MD + ":Molecular_Dynamics_Basic._zero_com", stubs=["torch.linalg.pinv (assumed contract)"])
    for nat, pad in (((2, False), (2, True)) if ctx.tier == "quick" else ((2, False), (2, True), (3, False))):
        rec = {"translate": pad}
        tag = "n=%d%s" % (nat, "+pad" if pad else "")

        def thunk():
            _install_pinv(rec)
            _install_cross(rec["abstract"], rec)
            md = _make_basic()
            mol = _mol(nat, pad)
            if pad:
                # precondition taken from the property: the padding slot is at rest (zero velocity) before the call
                for c in range(3):
                    mol.velocities.a[0, nat, c] = S(0.0)
            x0, v0 = mol.coordinates.clone(), mol.velocities.clone()
            md._zero_com(mol, remove_angular=True, translate_to_origin=rec.get("translate", False), restore_kinetic_energy=True)
            return mol, x0, v0

        # (B) second cross product (omega x r) abstracted: kinetic-energy restoration holds for any angular correction
        rec["abstract"] = 2
        exB = ctx.explore(thunk, stubs=STUBS, name="_zero_com KE " + tag)
        for p in exB.paths:
            if p.raised is None:
                molB, x0B, v0B = p.value
                ctx.prove_eq(tag + ".kinetic-energy-preserved@p%d" % p.path_id, _kin(molB), _kin(Obj(mass=molB.mass, velocities=v0B)), pc=p.pc,
                             shape="atoms=%d%s; angular correction abstracted" % (nat, "+pad" if pad else ""))
        # (A) first cross product (angular momentum L) abstracted: the remaining clauses hold for any L
        rec["abstract"] = 1
        ex = ctx.explore(thunk, stubs=STUBS, name="_zero_com " + tag)
        st._Linalg.hooks.pop("cross", None)
        ok_paths = [p for p in ex.paths if p.raised is None]
        if not ok_paths:
            ctx.error(tag + ".paths", "no normally returning path: %r" % [p.raised for p in ex.paths])
            continue
        for p in ex.paths:
            if p.raised is not None:
                if not isinstance(p.raised, RuntimeError):
                    ctx.fail(tag + ".raises@p%d" % p.path_id, repr(p.raised) + p.notes.get("traceback", "")[-500:])
                continue
            mol, x0, v0 = p.value
            n = nat + (1 if pad else 0)
            shape = "atoms=%d%s" % (nat, ", one padding slot" if pad else "")
            # linear momentum zero: the code restores the kinetic energy by a common factor alpha, so it suffices (and is
            # what is proved) that the momentum vanishes up to that factor: P' = alpha * 0
            for c, pc_ in enumerate(_mom(mol, mol.velocities)):
                ctx.prove_eq(tag + ".linear-momentum-zero[%d]" % c, pc_, 0, pc=p.pc, shape=shape)
            # the inertia tensor handed to pinv is the textbook one about the centre of mass
            M_ = sum(mol.mass.a[0, i, 0] for i in range(n))
            rcom = [sum(mol.mass.a[0, i, 0] * x0.a[0, i, c] for i in range(n)) / M_ for c in range(3)]
            r = [[x0.a[0, i, c] - rcom[c] for c in range(3)] for i in range(n)]
            I = rec["I"]
            for a in range(3):
                for b in range(3):
                    spec = sum(mol.mass.a[0, i, 0] * ((sum(r[i][c] ** 2 for c in range(3)) if a == b else 0) - r[i][a] * r[i][b]) for i in range(n))
                    ctx.prove_eq(tag + ".inertia[%d,%d]" % (a, b), I.a[0, a, b], spec, pc=p.pc, shape=shape, replay=replay_zero_com_angular)
            if pad:
                for c in range(3):
                    ctx.prove_eq(tag + ".padding-stays-at-rest[%d]" % c, mol.velocities.a[0, nat, c], v0.a[0, nat, c], pc=p.pc, shape=shape,
                                 replay=replay_padding, classify=lambda m, r: "com-shift-applied-to-padding-slot")
                    ctx.prove_eq(tag + ".padding-position-untouched[%d]" % c, mol.coordinates.a[0, nat, c], x0.a[0, nat, c], pc=p.pc, shape=shape)
    ctx.assume_note("A2': torch.linalg.pinv(I, hermitian=True) returns I^-1 for an invertible inertia tensor (LAPACK; assumed) -- with it the proved update v -= (X L) x r removes exactly the angular momentum")
    ctx.undecided_clause("zero angular momentum for singular inertia tensors (linear molecules): depends on the pseudo-inverse cut-off")


def task_zero_com_angular(ctx):
    """angular momentum after the update = L - I_spec (X L) for the matrix X returned by pinv (any X)."""
    ctx.under_contract(MD + ":Molecular_Dynamics_Basic._zero_com", stubs=["torch.linalg.pinv (assumed contract)"])
    rec = {}
    nat = 2

    def thunk():
        _install_pinv(rec)
        md = _make_basic()
        mol = _mol(nat, False)
        x0, v0 = mol.coordinates.clone(), mol.velocities.clone()
        md._zero_com(mol, remove_angular=True, translate_to_origin=False, restore_kinetic_energy=False)
        return mol, x0, v0

    ex = ctx.explore(thunk, stubs=STUBS, name="_zero_com angular")
    for p in ex.paths:
        if p.raised is not None:
            continue
        mol, x0, v0 = p.value
        n = nat
        M_ = sum(mol.mass.a[0, i, 0] for i in range(n))
        rcom = [sum(mol.mass.a[0, i, 0] * x0.a[0, i, c] for i in range(n)) / M_ for c in range(3)]
        r = [[x0.a[0, i, c] - rcom[c] for c in range(3)] for i in range(n)]
        vcom = [sum(mol.mass.a[0, i, 0] * v0.a[0, i, c] for i in range(n)) / M_ for c in range(3)]
        vrel = st.T(np.array([[[v0.a[0, i, c] - vcom[c] for c in range(3)] for i in range(n)]], dtype=object), st.float64)
        L0 = _angmom(mol, r, vrel)
        X, I = rec["X"], rec["I"]
        omega = [sum(X.a[0, a, b] * L0[b] for b in range(3)) for a in range(3)]
        L1 = _angmom(mol, r, mol.velocities)
        for a in range(3):
            want = L0[a] - sum(I.a[0, a, b] * omega[b] for b in range(3))
            ctx.prove_eq("L' = L - I (X L) [%d]" % a, L1[a], want, pc=p.pc, shape="atoms=2", replay=replay_zero_com_angular)


def replay_fresh_temperature(model):
    """real code: a plain NVE driver on water with remove_com=('angular', 10): the kinetic temperature of the freshly drawn
    velocities, measured with the run's own degrees of freedom (3N - 6), must be the target."""
    import io, contextlib, os, tempfile, shutil
    import torch
    from seqm.seqm_functions.constants import Constants
    from seqm.Molecule import Molecule
    import seqm.MolecularDynamics as M

    torch.set_default_dtype(torch.float64)
    d = tempfile.mkdtemp(prefix="pyvc_c13_")
    try:
        params = {"method": "AM1", "scf_eps": 1e-7, "scf_converger": [1], "sp2": [False, 1e-5], "elements": [0, 1, 8], "learned": [], "pair_outer_cutoff": 1e10, "eig": True}
        mol = Molecule(Constants(), params, torch.tensor([[[0.0, 0, 0], [0.96, 0.05, 0], [-0.24, 0.93, 0.02]]]), torch.tensor([[8, 1, 1]]))
        md = M.Molecular_Dynamics_Basic(seqm_parameters=params, timestep=0.5, Temp=300.0, output={"molid": [0], "prefix": os.path.join(d, "md"), "print every": 0, "checkpoint every": 0, "xyz": 0, "h5": {}})
        with contextlib.redirect_stdout(io.StringIO()):
            torch.manual_seed(4)
            md.initialize(mol, remove_com=("angular", 10))
        mass = 1.0 / mol.mass_inverse
        ek = float(0.5 * (mass * mol.velocities ** 2).sum() * M.CONSTANTS.KINETIC_ENERGY_SCALE)
        T = 2.0 * ek / 3.0 * M.CONSTANTS.TEMPERATURE_SCALE  # 3N - 6 = 3 degrees of freedom
        return {"reproduced": abs(T - 300.0) > 1e-6, "kinetic_temperature_K": T, "target_K": 300.0, "degrees_of_freedom": 3}
    finally:
        shutil.rmtree(d, ignore_errors=True)


def task_initialize_velocity(ctx):
    """O1/O4: fresh velocities realise exactly the requested temperature; user-supplied velocities are used as given."""
    ctx.under_contract(MD + ":Molecular_Dynamics_Basic.initialize_velocity", stubs=["torch.linalg.pinv (assumed contract)"])
    rec = {}

    def fresh():
        _install_pinv(rec)
        md = _make_basic()
        mol = _mol(2)
        mol.velocities = None
        md.n_dof = st.tensor([real("dof")])
        assume(real("dof") > 0)
        assume(md.Temp > 0)
        st.GHOST["rng_draws"].clear()
        md.initialize_velocity(mol)
        ek = md._kinetic_energy(mol)
        return md, mol, md._calc_temperature(ek), list(st.GHOST["rng_draws"])

    n_ok = 0
    for which, clause in ((2, "temperature"), (1, "momentum")):
        def fresh_abs():
            _install_cross(which, rec)
            return fresh()

        ex = ctx.explore(fresh_abs, stubs=STUBS, name="initialize_velocity fresh (%s)" % clause)
        st._Linalg.hooks.pop("cross", None)
        for p in ex.paths:
            if p.raised is not None:
                if not isinstance(p.raised, RuntimeError):
                    ctx.fail("fresh.raises(%s)@p%d" % (clause, p.path_id), repr(p.raised) + p.notes.get("traceback", "")[-500:])
                continue
            n_ok += 1
            md, mol, T, draws = p.value
            if clause == "temperature":
                ctx.prove_eq("fresh.temperature-is-exactly-Temp@p%d" % p.path_id, T.a[0], md.Temp, pc=p.pc, shape="atoms=2; angular correction abstracted", replay=replay_fresh_temperature)
                if len(draws) == 1 and draws[0][0] == "randn":
                    ctx.ok("fresh.one-normal-draw-per-component@p%d" % p.path_id, "ghost-rng")
                else:
                    ctx.fail("fresh.one-normal-draw-per-component@p%d" % p.path_id, "draws: %r" % (draws,))
            else:
                for c, pc_ in enumerate(_mom(mol, mol.velocities)):
                    ctx.prove_eq("fresh.linear-momentum-zero[%d]@p%d" % (c, p.path_id), pc_, 0, pc=p.pc, shape="atoms=2; angular momentum abstracted")
    if n_ok == 0:
        ctx.error("fresh.paths", "no returning path")

    def zero_temp():
        md = _make_basic()
        md.Temp = 0.0
        mol = _mol(2)
        mol.velocities = None
        md.n_dof = st.tensor([real("dof")])
        md.initialize_velocity(mol)
        return mol

    ex = ctx.explore(zero_temp, stubs=STUBS, name="initialize_velocity T=0")
    for p in ex.paths:
        mol = p.value
        ctx.prove("T=0.all-velocities-zero", E.and_(*[E.eq(v.n, E.ZERO) for v in mol.velocities.a.reshape(-1)]), pc=p.pc)

    def user():
        _install_pinv(rec)
        _install_cross(2, rec)
        md = _make_basic()
        mol = _mol(2)
        v0 = mol.velocities.clone()
        md.n_dof = st.tensor([real("dof")])
        md.initialize_velocity(mol)
        return mol, v0

    ex = ctx.explore(user, stubs=STUBS, name="initialize_velocity user")
    st._Linalg.hooks.pop("cross", None)
    for p in ex.paths:
        if p.raised is not None:
            ctx.fail("user-velocities.accepted@p%d" % p.path_id, "initialize_velocity raises %r for user-supplied velocities (path condition: %s)" % (p.raised, [E.to_str(c, 120) for c in p.pc][-1:]),
                     replay=replay_user_velocities({}), witness_class="user-velocities-passed-through-com-removal")
            continue
        mol, v0 = p.value
        for k, (a, b) in enumerate(zip(mol.velocities.a.reshape(-1), v0.a.reshape(-1))):
            ctx.prove_eq("user-velocities.are-the-step-0-velocities[%d]@p%d" % (k, p.path_id), a, b, pc=p.pc, replay=replay_user_velocities,
                         classify=lambda m, r: "user-velocities-passed-through-com-removal")
    ctx.assume_note("shape-bounded: 2 atoms, one molecule, symbolic masses / coordinates / draws")


def replay_seed_with_user_velocities(model):
    """real Langevin engine (AM1 H2, 2 steps) with user-supplied velocities: the same seed after a different amount of earlier
    random-number use must give bit-identical final velocities, and another seed different ones."""
    import io, contextlib, os, tempfile, shutil
    import torch
    from seqm.seqm_functions.constants import Constants
    from seqm.Molecule import Molecule
    from seqm.MolecularDynamics import Molecular_Dynamics_Langevin

    torch.set_default_dtype(torch.float64)

    def run(seed, burn):
        d = tempfile.mkdtemp(prefix="pyvc_c13_")
        try:
            params = {"method": "AM1", "scf_eps": 1e-7, "scf_converger": [1], "sp2": [False, 1e-5], "elements": [0, 1], "learned": [], "pair_outer_cutoff": 1e10, "eig": True}
            mol = Molecule(Constants(), params, torch.tensor([[[0.0, 0, 0], [0.78, 0, 0]]]), torch.tensor([[1, 1]]))
            mol.velocities = torch.tensor([[[0.01, 0.0, 0.0], [-0.01, 0.002, 0.0]]])
            md = Molecular_Dynamics_Langevin(damp=20.0, seqm_parameters=params, timestep=0.5, Temp=300.0,
                                             output={"molid": [0], "prefix": os.path.join(d, "md"), "print every": 0, "checkpoint every": 0, "xyz": 0, "h5": {}})
            torch.manual_seed(99)
            torch.rand(burn)
            with contextlib.redirect_stdout(io.StringIO()):
                md.run(mol, 2, seed=seed)
            return mol.velocities.detach().clone()
        finally:
            shutil.rmtree(d, ignore_errors=True)

    a, b, c = run(7, 0), run(7, 13), run(8, 0)
    same_seed_differs = float((a - b).abs().max())
    other_seed_same = bool(torch.equal(a, c))
    return {"reproduced": bool(same_seed_differs > 0 or other_seed_same), "max|dv| same seed, different earlier RNG use": same_seed_differs, "seed 7 and seed 8 give identical velocities": other_seed_same}


def task_seeding(ctx):
    """O5: with a seed, the generator is seeded before the first draw of run(), whatever happened before -- whether the
    velocities are to be drawn or the molecule already carries user-supplied ones (the thermostats draw too)."""
    ctx.under_contract(MD + ":Molecular_Dynamics_Basic.run", note="executed with steps = 0 (the loop body is not entered)")
    seed = integer("seed")
    rep = []

    def rp():
        if not rep:
            try:
                rep.append(replay_seed_with_user_velocities({}))
            except Exception as exc:  # noqa
                rep.append({"reproduced": False, "error": repr(exc)[:300]})
        return rep[0]

    for preset in (False, True):
        def thunk():
            md = _make_basic()
            mol = _mol(2)
            mol.velocities = st.symbolic((1, 2, 3), "v_user") if preset else None
            rec = {}
            _install_pinv(rec)
            st.GHOST["rng_events"].clear()
            st.GHOST["rng_events"].append(("draw", "earlier-history"))
            md.run(mol, 0, seed=seed)
            return list(st.GHOST["rng_events"])

        tag = "user-velocities" if preset else "drawn-velocities"
        ex = ctx.explore(thunk, stubs=STUBS, name="run seeding [%s]" % tag)
        n = 0
        for p in ex.paths:
            if p.raised is not None:
                if not isinstance(p.raised, RuntimeError):
                    ctx.fail("%s.raises@p%d" % (tag, p.path_id), repr(p.raised) + p.notes.get("traceback", "")[-600:])
                continue
            n += 1
            ev = p.value[1:]
            kinds = [e[0] for e in ev]
            ok = len(ev) >= 1 and kinds[0] == "seed" and kinds.count("seed") == 1 and ("draw" not in kinds or kinds.index("seed") < kinds.index("draw"))
            if ok and isinstance(ev[0][1], Sym):
                ctx.prove("%s.seed-value-is-the-argument@p%d" % (tag, p.path_id), ev[0][1] == seed, pc=p.pc)
            if ok:
                ctx.ok("%s.seeded-before-first-draw@p%d" % (tag, p.path_id), "ghost-rng", detail=str(kinds))
            else:
                ctx.fail("%s.seeded-before-first-draw@p%d" % (tag, p.path_id), "event order after the earlier history: %r" % (kinds,), **({"replay": rp()} if preset else {}))
        if n == 0:
            ctx.error(tag + ".paths", "no returning path")
    ctx.assume_note("A4: torch.manual_seed(s) puts the generator in a state that depends on s only")
    ctx.undecided_clause("different seeds give different trajectories (property of the generator)")


def task_dof(ctx):
    """O6: degrees of freedom per engine and COM mode; unknown mode is rejected."""
    import seqm.MolecularDynamics as M

    ctx.under_contract(MD + ":Molecular_Dynamics_Basic.initialize", stubs=["esdriver", "initialize_velocity"])
    for mode, want in ((None, 0), (("linear", 5), 3), (("angular", 5), 6), (("Angular ", 5), 6)):
        def thunk():
            md = _make_basic()
            mol = _mol(2)
            mol.num_atoms = st.tensor([integer("N")])
            md.initialize(mol, remove_com=mode)
            return md

        ex = ctx.explore(thunk, stubs=_S12, name="initialize dof")
        for p in ex.paths:
            if p.raised is not None:
                ctx.fail("dof[%r].raises" % (mode,), repr(p.raised) + p.notes.get("traceback", "")[-500:])
                continue
            md = p.value
            ctx.prove("dof[%r]=3N-%d" % (mode, want), md.n_dof.a.reshape(-1)[0] == 3 * integer("N") - want, pc=p.pc)
            ctx.prove("com-flags[%r]" % (mode,), E.const(md.do_remove_com == (mode is not None) and md.remove_com_angular == (want == 6)))

    # strings are outside the solver: the guard is decided on an enumerated family of mode strings built FROM the documented
    # modes (every substring of their concatenations, prefixes, doubled / joined forms, case and blank variants) plus unrelated
    # words; accepted <=> the normalised string is one of the documented modes
    valid = ("linear", "angular")
    fam = {"rotational", "both", "none", "com", "0", "true", "linear,angular", "linear angular", "linearangular", "angularlinear", "linear_", "_angular", "linea", "ngular", " ", ""}
    for cat in ("linearangular", "angularlinear"):
        for a in range(len(cat)):
            for b in range(a + 1, len(cat) + 1):
                fam.add(cat[a:b])
    fam |= {v.upper() for v in valid} | {" %s " % v for v in valid} | {v.capitalize() for v in valid}
    wrongly_accepted, wrongly_rejected = [], []
    for mode in sorted(fam):
        def attempt():
            md = _make_basic()
            md.initialize(_mol(2), remove_com=(mode, 5))
            return "accepted"

        ex = ctx.explore(attempt, stubs=_S12, name="initialize mode %r" % mode)
        norm = mode.lower().strip()
        for p in ex.paths:
            accepted = p.raised is None
            if p.raised is not None and not isinstance(p.raised, ValueError):
                ctx.fail("com-mode[%r].raises-something-else" % mode, repr(p.raised))
            elif accepted and norm not in valid:
                wrongly_accepted.append(mode)
            elif (not accepted) and norm in valid:
                wrongly_rejected.append(mode)
    if wrongly_accepted:
        ctx.fail("unknown-com-mode-rejected", "initialize accepted the undocumented modes %r (of %d tried)" % (wrongly_accepted[:12], len(fam)),
                 replay={"reproduced": True, "accepted_undocumented_modes": wrongly_accepted[:20], "note": "the enumeration ran the real initialize(); the accepted strings are the failing inputs"})
    else:
        ctx.ok("unknown-com-mode-rejected", "enumeration", detail="%d mode strings derived from the documented modes" % len(fam))
    (ctx.fail("documented-com-modes-accepted", "rejected %r" % wrongly_rejected) if wrongly_rejected else ctx.ok("documented-com-modes-accepted", "enumeration"))
    ctx.undecided_clause("true dof count of linear molecules (the code carries a TODO)")


TASKS_QUICK = ["zero_com", "zero_com_angular", "initialize_velocity", "seeding", "dof"]
TASKS_THOROUGH = TASKS_QUICK
