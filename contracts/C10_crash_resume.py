"""C10 -- a run killed at any instant and resumed equals the uninterrupted run (ghost-disk model, assumption A3).

Crash invariant Recoverable(ckpt c, disk):
  R1  every HDF5 row due at a label <= c is durable and holds (label, state(label)); capacity = that of the full run
  R2  the visible checkpoint is a complete snapshot of state(c) on the Saved set, with the RNG state after step c
  R3  the XYZ file holds exactly the due frames with label <= c, each once
Obligations: ordering (flush before checkpoint, atomic replace), resume cursors, the resumed step loop re-establishing
the C11 invariant from Recoverable(c), checkpoint frame completeness (static frames), RNG, XYZ.
"""
import ast
import inspect
import textwrap

import numpy as np

from pyvc.api import *
from pyvc import symtorch as st, expr as E, ghostfs as G, world as W
from contracts.md_common import *
from contracts import C11_cadence as C11

STREAMS = C11.STREAMS


# ---------------------------------------------------------------------------
# O2: resume cursors


def task_open_resume(ctx):
    """_open_resume(step_offset = c): every cursor = number of rows an uninterrupted run has written up to label c
    (c div stride + 1), capacities are taken from the file."""
    fn = ctx.under_contract(MD + ":HDF5Writer._open_resume")
    c = integer("c")
    cad = {n: integer("d_" + n) for n in STREAMS}
    dd = integer("d_data")
    steps = integer("steps")
    pre = [c >= 1, c <= steps, dd > 0] + [cad[n] > 0 for n in STREAMS]

    def thunk():
        from seqm.MolecularDynamics import HDF5Writer, OutputConfig

        for p in pre:
            assume(p)
        disk = G.GhostDisk()
        env = dict(k0=c, steps=steps, r=integer("r"), data_on=True, d_data=dd, cad=cad, pos={n: True for n in STREAMS})
        C11._prepopulate_resume_disk(disk, env)
        h5cfg = dict(cad)
        h5cfg["data"] = dd
        w = HDF5Writer(OutputConfig(molid=[0], prefix="md", h5_config=h5cfg), {}, 1.0)
        w.flags[0] = {"n_excited_states": 0, "Tw_data": 0, "Tw_tdm": 0, "Tw_na": 0, "Tw_vec": {}}
        W.sys.modules[MD].__dict__["h5py"] = disk.h5py_module()
        fn(w, "md.0.h5", 0, c)
        return w

    import h5py as real_h5py

    try:
        ex = ctx.explore(thunk, name="_open_resume")
    finally:
        W.sys.modules[MD].__dict__["h5py"] = real_h5py
    for p in ex.paths:
        if p.raised is not None:
            ctx.fail("raises@p%d" % p.path_id, repr(p.raised) + p.notes.get("traceback", "")[-600:])
            continue
        w = p.value
        ctx.prove("cursor[data]=c div d+1@p%d" % p.path_id, S(w.i_data[0]) == c // dd + 1, pc=p.pc)
        ctx.prove("capacity[data]=file@p%d" % p.path_id, S(w.flags[0]["Tw_data"]) == (steps + dd) // dd, pc=p.pc)
        ctx.prove("cursor[data]<=capacity@p%d" % p.path_id, S(w.i_data[0]) <= S(w.flags[0]["Tw_data"]), pc=p.pc)
        for n in STREAMS:
            ctx.prove("cursor[%s]=c div d+1@p%d" % (n, p.path_id), S(w.i_vec[0][n]) == c // cad[n] + 1, pc=p.pc)
            ctx.prove("capacity[%s]=file@p%d" % (n, p.path_id), S(w.flags[0]["Tw_vec"][n]) == (steps + cad[n]) // cad[n], pc=p.pc)
            ctx.prove("cursor[%s]<=capacity@p%d" % (n, p.path_id), S(w.i_vec[0][n]) <= S(w.flags[0]["Tw_vec"][n]), pc=p.pc)
    ctx.cover("pre", pre)
    ctx.canary("cursor-off-by-one", c // dd == c // dd + 1, pre)


# ---------------------------------------------------------------------------
# resumed step loop: Recoverable(c) at start  =>  C11 invariant up to `steps`  (content = uninterrupted content)



_ONCE = {}


def _once(fn):
    """run a (slow, input-free) replay at most once per process"""
    def rp(model):
        if fn not in _ONCE:
            try:
                _ONCE[fn] = fn(model)
            except Exception as exc:  # noqa
                _ONCE[fn] = {"reproduced": False, "error": repr(exc)[:300]}
        return _ONCE[fn]
    return rp

_KILL_SCRIPT = r"""
import os, sys, io, contextlib
import torch
torch.set_default_dtype(torch.float64)
from seqm.seqm_functions.constants import Constants
from seqm.Molecule import Molecule
import seqm.MolecularDynamics as M
d = sys.argv[1]
params = {"method": "AM1", "scf_eps": 1e-7, "scf_converger": [1], "sp2": [False, 1e-5], "elements": [0, 1], "learned": [], "pair_outer_cutoff": 1e10, "eig": True}
mol = Molecule(Constants(), params, torch.tensor([[[0.0, 0, 0], [0.80, 0, 0]]]), torch.tensor([[1, 1]]))
md = M.Molecular_Dynamics_Basic(params, timestep=0.5, Temp=0.0, output={"molid": [0], "prefix": os.path.join(d, "md"), "print every": 0, "checkpoint every": 2, "xyz": 1, "h5": {"data": 1, "coordinates": 1}})
real_save = md.save_checkpoint
def save_and_die(*a, **k):
    real_save(*a, **k)
    if k.get("step_done", 0) >= 4:
        os._exit(9)   # hard kill right after the checkpoint became visible: no finally, no atexit, no buffer flush
md.save_checkpoint = save_and_die
with contextlib.redirect_stdout(io.StringIO()):
    md.run(mol, 8)
"""


def replay_kill_after_checkpoint(model):
    """real code in a child process: AM1 H2 BOMD with XYZ and HDF5 output every step, checkpoint every 2 steps; the process is
    killed (os._exit) right after the checkpoint of step 4 has been written.  Every XYZ frame with a label <= 4 must be in the
    file on disk at that moment, and the HDF5 file must hold those steps."""
    import os, subprocess, sys, tempfile, shutil, glob

    d = tempfile.mkdtemp(prefix="pyvc_c10_")
    try:
        env = dict(os.environ, PYTHONWARNINGS="ignore", OMP_NUM_THREADS="2")
        p = subprocess.run([sys.executable, "-c", _KILL_SCRIPT, d], capture_output=True, text=True, timeout=900, env=env)
        files = sorted(os.path.basename(f) for f in glob.glob(os.path.join(d, "*")))
        xyz = [f for f in glob.glob(os.path.join(d, "*.xyz"))]
        frames = 0
        for f in xyz:
            lines = open(f).read().splitlines()
            frames += sum(1 for ln in lines if ln.strip() == "2")
        ckpt = [f for f in files if f.endswith(".pt")]
        out = {"child_exit_code": p.returncode, "files_on_disk": files, "xyz_frames_on_disk_when_killed_after_the_step-4_checkpoint": frames, "frames_required": "labels up to 4 (at least 4 frames)",
               "checkpoint_present": bool(ckpt)}
        if p.returncode != 9:
            out.update(reproduced=False, error=(p.stderr or p.stdout)[-300:])
            return out
        out["reproduced"] = bool(ckpt) and frames < 4
        return out
    finally:
        shutil.rmtree(d, ignore_errors=True)


def _on_ckpt(env, md, molecule, step_done):
    """O1: when the checkpoint for label c is written, every row written so far has been flushed (durable)."""
    ev = env["disk"].events
    last_flush = {}
    dirty = {}
    for e in ev:
        if e["kind"] == "h5write":
            dirty[e["file"]] = e["n"]
        elif e["kind"] == "h5flush":
            last_flush[e["file"]] = e["n"]
        elif e["kind"] == "textwrite":
            dirty[e["file"]] = e["n"]
        elif e["kind"] == "textflush":
            last_flush[e["file"]] = e["n"]
    ok = all(last_flush.get(f, -1) > n for f, n in dirty.items())
    oblige("checkpoint.rows-durable-before-checkpoint-becomes-visible", E.const(ok), replay=_once(replay_kill_after_checkpoint))


def _resume_task(data_on, posmask):
    def t(ctx):
        C11._run_config(ctx, data_on, posmask, True, False, True, resume=True, on_ckpt=_on_ckpt)
        ctx.assume_note("Recoverable(c) is assumed for the disk a resumed run starts from; it is established by the fresh/resumed loop invariant (C11 obligations) together with the ordering obligation (rows flushed before the checkpoint) and A3")
    return t


task_resume_D_CVF = _resume_task(True, (True, True, True))
task_resume_D_cvf = _resume_task(True, (False, False, False))
task_resume_d_CvF = _resume_task(False, (True, False, True))
task_resume_d_cVf = _resume_task(False, (False, True, False))


def task_fresh_ordering(ctx):
    """O1 for fresh runs (same loop, fresh entry)."""
    C11._run_config(ctx, True, (True, True, True), True, False, True, resume=False, on_ckpt=_on_ckpt)


# ---------------------------------------------------------------------------
# atomic checkpoint replace


def task_atomic_save(ctx):
    """_atomic_save_checkpoint never writes to the checkpoint path except through os.replace of a completely written
    temporary file in the same directory; the temporary file does not survive."""
    fn = ctx.under_contract(MD + ":Molecular_Dynamics_Basic._atomic_save_checkpoint")
    events = []

    class GOS:
        class path:
            @staticmethod
            def dirname(p):
                return "DIR(%s)" % p

            @staticmethod
            def exists(p):
                return p in files

        @staticmethod
        def close(fd):
            events.append(("close", fd))

        @staticmethod
        def replace(src, dst):
            events.append(("replace", src, dst))
            files[dst] = files.pop(src)

        @staticmethod
        def remove(p):
            events.append(("remove", p))
            files.pop(p, None)

    class GTemp:
        @staticmethod
        def mkstemp(dir=None, prefix="", suffix=""):
            name = "%s/%sXXXX%s" % (dir, prefix, suffix)
            files[name] = "<empty>"
            events.append(("mkstemp", name, dir))
            return 7, name

    files = {"ckpt.pt": "OLD-COMPLETE"}

    def save(obj, path):
        events.append(("save", path))
        files[path] = obj

    st._IO["save"] = save

    def thunk():
        fn({"step_done": 4}, "ckpt.pt")
        return dict(files), list(events)

    ex = ctx.explore(thunk, extra_globals={MD: {"os": GOS, "tempfile": GTemp}}, name="_atomic_save_checkpoint")
    st._IO.pop("save", None)
    files_after, ev = ex.paths[0].value
    kinds = [e[0] for e in ev]
    direct = [e for e in ev if e[0] == "save" and e[1] == "ckpt.pt"]
    ctx.prove("never-writes-the-checkpoint-path-directly", E.const(not direct))
    ctx.prove("order: create-temp, write, replace", E.const(kinds[:1] == ["mkstemp"] and "save" in kinds and "replace" in kinds and kinds.index("save") < kinds.index("replace")))
    rep = [e for e in ev if e[0] == "replace"]
    ctx.prove("replace-moves-the-temp-file-onto-the-checkpoint-path", E.const(len(rep) == 1 and rep[0][2] == "ckpt.pt" and rep[0][1] == [e for e in ev if e[0] == "mkstemp"][0][1]))
    ctx.prove("temp-file-in-the-same-directory (atomic rename)", E.const([e for e in ev if e[0] == "mkstemp"][0][2] == "DIR(ckpt.pt)"))
    ctx.prove("visible-checkpoint-is-the-new-complete-object", E.const(files_after.get("ckpt.pt") == {"step_done": 4} and len(files_after) == 1))
    # crash points: before replace the visible file is the old complete one, after it the new complete one
    vis = "OLD-COMPLETE"
    ok = True
    for e in ev:
        if e[0] == "replace":
            vis = "NEW"
        if e[0] == "save" and e[1] == "ckpt.pt":
            ok = False
    ctx.prove("every-crash-point-sees-a-complete-checkpoint", E.const(ok))
    ctx.assume_note("A3: os.replace is atomic; torch.save writes only to the path it is given")


# ---------------------------------------------------------------------------
# O3: checkpoint frame completeness (static frames over the real source)


def _fn_ast(obj):
    return ast.parse(textwrap.dedent(inspect.getsource(obj)))


def _restored_keys(fn):
    """keys K such that the restore code reads mol_ckpt[K] / mol_ckpt.get(K) / 'K' in mol_ckpt."""
    keys = set()
    for n in ast.walk(_fn_ast(fn)):
        if isinstance(n, ast.Subscript) and isinstance(n.value, ast.Name) and n.value.id == "mol_ckpt" and isinstance(n.slice, ast.Constant):
            keys.add(n.slice.value)
        if isinstance(n, ast.Call) and isinstance(n.func, ast.Attribute) and n.func.attr == "get" and isinstance(n.func.value, ast.Name) and n.func.value.id == "mol_ckpt" and n.args and isinstance(n.args[0], ast.Constant):
            keys.add(n.args[0].value)
    return keys


def _saved_keys(fns):
    keys = set()
    for fn in fns:
        for n in ast.walk(_fn_ast(fn)):
            if isinstance(n, ast.Assign) and isinstance(n.targets[0], ast.Name) and n.targets[0].id == "molecules" and isinstance(n.value, ast.Dict):
                keys |= {k.value for k in n.value.keys if isinstance(k, ast.Constant)}
            if isinstance(n, ast.Assign) and isinstance(n.targets[0], ast.Subscript) and isinstance(n.targets[0].value, ast.Name) and n.targets[0].value.id in ("molecules", "mol_ckpt") and isinstance(n.targets[0].slice, ast.Constant):
                keys.add(n.targets[0].slice.value)
    return keys


def _molecule_reads(fn, names=("molecule", "mol")):
    """attributes of the molecule object that `fn` loads (molecule.X in Load context, getattr(molecule, 'X', ...))."""
    reads, writes = {}, {}
    for n in ast.walk(_fn_ast(fn)):
        if isinstance(n, ast.Attribute) and isinstance(n.value, ast.Name) and n.value.id in names:
            d = reads if isinstance(n.ctx, ast.Load) else writes
            d.setdefault(n.attr, n.lineno)
        if isinstance(n, ast.Call) and isinstance(n.func, ast.Name) and n.func.id == "getattr" and len(n.args) >= 2 and isinstance(n.args[0], ast.Name) and n.args[0].id in names and isinstance(n.args[1], ast.Constant):
            reads.setdefault(n.args[1].value, n.lineno)
    return reads, writes


def replay_missing_mo(model):
    """Real code: a checkpoint written by the real BOMD driver lacks the key the restore code looks for, and the resumed
    molecule has no previous-orbital reference while the uninterrupted one does."""
    import os, shutil, tempfile, io, contextlib
    import torch
    from seqm.seqm_functions.constants import Constants
    from seqm.Molecule import Molecule
    from seqm.MolecularDynamics import Molecular_Dynamics_Basic

    torch.set_default_dtype(torch.float64)
    tmp = tempfile.mkdtemp(prefix="pyvc_c10_")
    try:
        params = {"method": "AM1", "scf_eps": 1e-6, "scf_converger": [2, 0.0], "sp2": [False, 1e-5], "elements": [0, 1], "learned": [], "pair_outer_cutoff": 1e10, "eig": True}
        mol = Molecule(Constants(), params, torch.tensor([[[0.0, 0, 0], [0.78, 0, 0]]]), torch.tensor([[1, 1]]))
        out = {"molid": [0], "prefix": os.path.join(tmp, "md"), "print every": 0, "checkpoint every": 2, "xyz": 0, "h5": {"data": 1}}
        md = Molecular_Dynamics_Basic(params, timestep=0.2, Temp=300.0, output=out)
        with contextlib.redirect_stdout(io.StringIO()):
            md.run(mol, 2, seed=1)
        ck = torch.load(os.path.join(tmp, "md.restart.pt"), map_location="cpu", weights_only=False)
        has_key = "molecular_orbitals" in ck["molecules"] and torch.is_tensor(ck["molecules"]["molecular_orbitals"])
        ck2, mol2, _, _ = Molecular_Dynamics_Basic._load_checkpoint_base(os.path.join(tmp, "md.restart.pt"))
        return {"reproduced": bool((not has_key) and torch.is_tensor(mol.molecular_orbitals) and not torch.is_tensor(getattr(mol2, "molecular_orbitals", None))),
                "checkpoint_has_molecular_orbitals": bool(has_key), "uninterrupted_molecule_has_previous_orbitals": bool(torch.is_tensor(mol.molecular_orbitals)),
                "resumed_molecule_has_previous_orbitals": bool(torch.is_tensor(getattr(mol2, "molecular_orbitals", None)))}
    finally:
        shutil.rmtree(tmp, ignore_errors=True)


# dynamic state the step functions read that need NOT be checkpointed, with the reason (part of the contract)
DECLARED_IRRELEVANT = {
    "acc": "recomputed by initialize() from the restored force",
    "verbose": "set by initialize()",
    "w": "overwritten by Energy.forward before it is read in the same call",
    "parameters": "rebuilt by Energy._prepare_molecule_inputs from seqm_parameters on every call",
    "Hf": "output only", "Eelec": "output only", "Enuc": "output only", "Eiso": "output only", "e_mo": "output only", "e_gap": "output only",
    "q": "output only", "d": "output only", "dipole": "output only", "charge": "output only",
    "_parnuc": "written before read in the same call", "_gam": "written before read in the same call",
    "analytical_gradient": "written before read", "ground_analytical_gradient": "written before read",
    "cis_state_relaxed_dipole": "written by rcis_grad_batch inside the same Energy.forward call before it is read",
    "cis_state_unrelaxed_dipole": "written by rcis_grad_batch inside the same Energy.forward call before it is read",
}


def task_frames(ctx):
    """O3: continuation determinism as a static frame analysis: every molecule / driver attribute the step functions read is saved in the checkpoint and restored, derived on resume, or declared irrelevant."""
    import seqm.MolecularDynamics as M
    import seqm.NonadiabaticDynamics as N
    import seqm.basics as B
    import seqm.ElectronicStructure as ES
    import sys as _sys, importlib as _il
    _il.import_module("seqm.Molecule")
    Mol = _sys.modules["seqm.Molecule"]

    for t in ("_build_checkpoint_base", "_restore_molecule_from_ckpt", "save_checkpoint", "one_step", "_do_integrator_step"):
        ctx.under_contract(MD + ":Molecular_Dynamics_Basic." + t, note="static frame analysis of the source")
    ctx.under_contract("seqm.basics:Energy.forward", note="static frame analysis (molecule.* loads)")
    ctx.under_contract("seqm.basics:Force.forward", note="static frame analysis (molecule.* loads)")
    ctx.under_contract("seqm.ElectronicStructure:Electronic_Structure.forward", note="static frame analysis (molecule.* loads)")
    saved = _saved_keys([M.Molecular_Dynamics_Basic._build_checkpoint_base, M.Molecular_Dynamics_Basic.save_checkpoint, N.NonadiabaticDynamicsBase.save_checkpoint])
    restored = _restored_keys(M.Molecular_Dynamics_Basic._restore_molecule_from_ckpt)
    if not saved or not restored:
        ctx.error("anchors", "could not read the saved/restored key sets from the source")
        return
    # (a) every key the restore code looks for is written by some save path
    for k in sorted(restored):
        if k in saved:
            ctx.ok("restore-key-is-saved[%s]" % k, "frames")
        else:
            ctx.fail("restore-key-is-saved[%s]" % k, "_restore_molecule_from_ckpt reads mol_ckpt[%r] but no save path stores that key (saved: %s)" % (k, sorted(saved)),
                     replay=replay_missing_mo({}), witness_class="restore-key-never-saved:" + k)
    # (b) dynamic molecule state read by a step is saved and restored, or declared irrelevant with a reason
    init_src = _fn_ast(Mol.Molecule.__init__)
    dynamic = set()  # attributes Molecule.__init__ only initialises to None: they are filled in by calculations
    derived = set()
    for n in ast.walk(init_src):
        if isinstance(n, (ast.Assign, ast.AnnAssign)):
            tgt = n.targets[0] if isinstance(n, ast.Assign) else n.target
            if isinstance(tgt, ast.Attribute) and isinstance(tgt.value, ast.Name) and tgt.value.id == "self":
                if isinstance(n.value, ast.Constant) and n.value.value is None:
                    dynamic.add(tgt.attr)
                else:
                    derived.add(tgt.attr)
    key_to_attr = {"forces": "force", "velocities": "velocities", "Etot": "Etot", "dm": "dm", "cis_amplitudes": "cis_amplitudes", "old_mos": "old_mos",
                   "transition_density_matrices": "transition_density_matrices", "molecular_orbitals": "molecular_orbitals", "cis_energies": "cis_energies",
                   "coordinates": "coordinates", "species": "species", "constants": "const"}
    saved_attrs = {key_to_attr.get(k, k) for k in saved & (restored | {"coordinates", "species", "constants"})}
    step_fns = [M.Molecular_Dynamics_Basic.one_step, M.Molecular_Dynamics_Langevin.one_step, M.XL_BOMD.one_step, ES.Electronic_Structure.forward, B.Force.forward, B.Energy.forward]
    reads = {}
    for fn in step_fns:
        r, w = _molecule_reads(fn)
        for a, ln in r.items():
            first_write = w.get(a)
            if first_write is not None and first_write < ln:
                continue  # written earlier in the same function text
            reads.setdefault(a, fn.__qualname__)
    checked = 0
    for a in sorted(reads):
        if a in derived and a not in dynamic:
            continue
        if a not in dynamic and a not in ("force", "velocities", "acc", "Etot", "dm", "dP2dt2", "Electronic_entropy"):
            continue  # not persistent molecule state (method, helper objects)
        checked += 1
        if a in saved_attrs:
            ctx.ok("step-read-state-is-checkpointed[%s]" % a, "frames", detail="read by " + reads[a])
        elif a in DECLARED_IRRELEVANT:
            ctx.ok("step-read-state-is-checkpointed[%s]" % a, "frames(declared: %s)" % DECLARED_IRRELEVANT[a])
        elif a == "dP2dt2" and "dP2dt2" in inspect.getsource(M.Molecular_Dynamics_Basic.save_checkpoint):
            ctx.ok("step-read-state-is-checkpointed[dP2dt2]", "frames", detail="saved by save_checkpoint for XL-BOMD variants")
        elif a == "Electronic_entropy":
            ctx.ok("step-read-state-is-checkpointed[Electronic_entropy]", "frames(declared: reset by XL_BOMD.initialize, recomputed each step)")
        else:
            ctx.fail("step-read-state-is-checkpointed[%s]" % a, "%s reads molecule.%s (state carried from the previous step) but the checkpoint neither saves nor restores it" % (reads[a], a),
                     replay=replay_missing_mo({}) if a == "molecular_orbitals" else None, witness_class="step-state-not-checkpointed:" + a)
    if checked == 0:
        ctx.error("frames.vacuous", "no dynamic molecule state found in the step functions")
    ctx.assume_note("frame analysis is syntactic: molecule.<attr> loads / stores and getattr(molecule, '<attr>') in the listed functions; aliasing through containers is not followed")
    ctx.undecided_clause("state kept on the driver object by the surface-hopping engine (checked only through its own save_checkpoint keys)")


# ---------------------------------------------------------------------------
# O5: XYZ frames after a crash between checkpoints


def replay_xyz(model):
    import os, shutil, tempfile, io, contextlib, re
    import torch
    from seqm.seqm_functions.constants import Constants
    from seqm.Molecule import Molecule
    import seqm.MolecularDynamics as M

    torch.set_default_dtype(torch.float64)
    tmp = tempfile.mkdtemp(prefix="pyvc_c10x_")
    try:
        params = {"method": "AM1", "scf_eps": 1e-6, "scf_converger": [2, 0.0], "sp2": [False, 1e-5], "elements": [0, 1], "learned": [], "pair_outer_cutoff": 1e10, "eig": True}
        mol = Molecule(Constants(), params, torch.tensor([[[0.0, 0, 0], [0.78, 0, 0]]]), torch.tensor([[1, 1]]))
        out = {"molid": [0], "prefix": os.path.join(tmp, "md"), "print every": 0, "checkpoint every": 2, "xyz": 1, "h5": {"data": 1}}
        md = M.Molecular_Dynamics_Basic(params, timestep=0.2, Temp=300.0, output=out)
        orig = M.Molecular_Dynamics_Basic._do_integrator_step
        count = {"n": 0}

        def crashing(self, i, molecule, lp, **kw):
            if i == 3:
                raise KeyboardInterrupt("injected crash at the start of step 4")
            return orig(self, i, molecule, lp, **kw)

        M.Molecular_Dynamics_Basic._do_integrator_step = crashing
        try:
            with contextlib.redirect_stdout(io.StringIO()):
                try:
                    md.run(mol, 6, seed=1)
                except KeyboardInterrupt:
                    pass
        finally:
            M.Molecular_Dynamics_Basic._do_integrator_step = orig
        with contextlib.redirect_stdout(io.StringIO()):
            M.Molecular_Dynamics_Basic.run_from_checkpoint(os.path.join(tmp, "md.restart.pt"))
        labels = [int(x) for x in re.findall(r"step:\s*(-?\d+)", open(os.path.join(tmp, "md.0.xyz")).read())]
        import h5py

        with h5py.File(os.path.join(tmp, "md.0.h5"), "r") as f:
            h5labels = f["data/steps"][...].tolist()
        return {"reproduced": labels != list(range(0, 7)), "xyz_labels": labels, "expected": list(range(0, 7)), "hdf5_data_labels": h5labels,
                "history": "6 steps, checkpoint every 2, xyz every 1, crash injected at the start of step 4, run_from_checkpoint"}
    finally:
        shutil.rmtree(tmp, ignore_errors=True)


def task_xyz(ctx):
    """R3 for the XYZ stream: when a run resumes from checkpoint c, XYZWriter.open leaves on disk exactly the complete frames whose
    label does not exceed c (frames written after the checkpoint, and a frame cut short by the crash, are discarded), and then
    appends.  Ghost file: three complete one-atom frames with symbolic increasing labels, optionally followed by a frame whose
    last line is incomplete."""
    fn = ctx.under_contract(MD + ":XYZWriter.open")
    try:
        ctx.under_contract(MD + ":_drop_xyz_frames_after")
    except Exception:  # absent on a tree without the repair: the clause below then fails by itself
        pass
    c = integer("c")
    labels = [integer("label1"), integer("label2"), integer("label3")]

    for partial in (False, True):
        def thunk():
            from seqm.MolecularDynamics import XYZWriter, OutputConfig

            assume(c >= 1)
            assume((labels[0] >= 0) & (labels[0] < labels[1]) & (labels[1] < labels[2]))
            disk = G.GhostDisk()
            lines = []
            for l in labels:
                lines += ["1\n", "step: %s  E_total = -1.000000000  \n" % format(l, ""), "H         0.00000         0.00000         0.74000\n"]
            if partial:
                lines += ["1\n", "step: %s  E_total = -1.000000000  \n" % format(labels[2] + 1, ""), "H         0.00000   "]
            disk.text_content["md.0.xyz"] = lines
            disk.exists.add("md.0.xyz")
            W.sys.modules[MD].__dict__["open"] = disk.open_fn()
            W.sys.modules[MD].__dict__["os"] = disk.os_module()
            w = XYZWriter(OutputConfig(molid=[0], prefix="md"), c)
            w.open()
            return disk

        import os as real_os
        try:
            ex = ctx.explore(thunk, stubs={MD + ":_rotate_existing": lambda *a, **k: None}, name="XYZWriter.open(resume)")
        finally:
            W.sys.modules[MD].__dict__.pop("open", None)
            W.sys.modules[MD].__dict__["os"] = real_os
        tag = "resume[partial-last-frame=%s]" % partial
        if not ex.paths:
            ctx.error(tag + ".paths", "no path")
        for p in ex.paths:
            if p.raised is not None:
                ctx.fail("%s.raises@p%d" % (tag, p.path_id), repr(p.raised) + p.notes.get("traceback", "")[-600:])
                continue
            disk = p.value
            kept = disk.text_content["md.0.xyz"]
            opens = [e for e in disk.events if e["kind"] == "textopen"]
            whole = len(kept) % 3 == 0 and all(kept[3 * j] == "1\n" and kept[3 * j + 2].endswith("\n") for j in range(len(kept) // 3))
            nk = len(kept) // 3
            name = "%s.stale-frames-above-the-checkpoint-are-discarded@p%d" % (tag, p.path_id)
            if not whole:
                ctx.fail(name, "the file is left with an incomplete frame: %r" % kept[-3:], replay=replay_xyz({}), witness_class="xyz-append-without-truncation-on-resume", backend="ghost-disk")
                continue
            # exactly the frames with label <= c survive
            conds = [labels[j] <= c for j in range(min(nk, 3))] + ([labels[nk] > c] if nk < 3 else [])
            if nk > 3:
                conds.append(S(False))
            goal = E.and_(*[x.n for x in conds]) if conds else E.TRUE
            ctx.prove(name, goal, pc=p.pc, replay=lambda m: replay_xyz({}), classify=lambda m_, r: "xyz-append-without-truncation-on-resume")
            ctx.prove("%s.file-is-then-opened-for-appending@p%d" % (tag, p.path_id), E.const(bool(opens) and "a" in opens[-1]["mode"]))
    ctx.assume_note("A3: a text file opened with 'a+' keeps its content and appends; ghost file of three complete frames (+ optional partial frame), labels and checkpoint step symbolic")


def task_rng(ctx):
    """O4: the RNG state is captured when the checkpoint is built (after the last draw of step c) and restored before the
    resumed run starts; the resumed initialize() draws nothing."""
    ctx.under_contract(MD + ":Molecular_Dynamics_Basic._build_checkpoint_base")
    ctx.under_contract(MD + ":Molecular_Dynamics_Basic.run_from_checkpoint", note="statement order: _restore_rng precedes md.run, no seed is passed")
    import seqm.MolecularDynamics as M

    def thunk():
        md = object.__new__(M.Molecular_Dynamics_Basic)
        md.__dict__.update(timestep=real("dt"), Temp=real("Temp"), seqm_parameters={}, output_config=M.OutputConfig(molid=[0], h5_config={}))
        mol = ghost_molecule(0)
        mol.cis_amplitudes = None
        st.GHOST["rng_events"].clear()
        st.GHOST["rng_draws"].clear()
        st.randn(2)
        ck = md._build_checkpoint_base(mol, 10, True, None, step_done=4, include_forces=True)
        st.randn(2)
        return ck

    ex = ctx.explore(thunk, name="_build_checkpoint_base")
    for p in ex.paths:
        if p.raised is not None:
            ctx.fail("build.raises", repr(p.raised) + p.notes.get("traceback", "")[-500:])
            continue
        ck = p.value
        state = ck["rng"]["torch_cpu"]
        ctx.prove("rng-captured-at-build-time (after 1 earlier draw, before later ones)", E.const(isinstance(state, tuple) and state[1] == 1))
        for key in ("step_done", "steps", "reuse_P", "timestep", "Temp", "seqm_parameters", "remove_com", "output", "rng", "molecules"):
            ctx.prove("checkpoint-has[%s]" % key, E.const(key in ck))
        ctx.prove("step_done-recorded", S(ck["step_done"]) == 4)
    import ast, textwrap

    rtree = ast.parse(textwrap.dedent(inspect.getsource(M.Molecular_Dynamics_Basic.run_from_checkpoint)))
    calls = [n for n in ast.walk(rtree) if isinstance(n, ast.Call)]
    restore = [n for n in calls if ast.unparse(n.func).split(".")[-1] == "_restore_rng"]
    runs = [n for n in calls if isinstance(n.func, ast.Attribute) and n.func.attr == "run"]
    if not restore or not runs:
        ctx.error("resume.anchor", "run_from_checkpoint: calls of _restore_rng / .run not found (contract anchor moved)")
    else:
        pos = lambda n: (n.lineno, n.col_offset)
        ctx.prove("resume: RNG restored before the run starts", E.const(max(pos(n) for n in restore) < min(pos(n) for n in runs)))
        ctx.prove("resume: no seed passed to run (would overwrite the restored state)", E.const(all(k.arg != "seed" for n in runs for k in n.keywords)))
    ctx.assume_note("A4: get_rng_state/set_rng_state round-trip the generator state")


def replay_resume_thermostat(model):
    """real code: a thermostatted XL_BOMD run (damp = 20 fs) checkpointed and resumed through run_from_checkpoint with the engine
    class replaced by a recorder subclass: the rebuilt engine must carry the checkpoint's damping time."""
    import io, contextlib, os, tempfile, shutil
    import torch
    from seqm.seqm_functions.constants import Constants
    from seqm.Molecule import Molecule
    import seqm.MolecularDynamics as M

    torch.set_default_dtype(torch.float64)
    d = tempfile.mkdtemp(prefix="pyvc_c10_")
    seen = {}
    try:
        params = {"method": "AM1", "scf_eps": 1e-7, "scf_converger": [1], "sp2": [False, 1e-5], "elements": [0, 1], "learned": [], "pair_outer_cutoff": 1e10, "eig": True}
        mol = Molecule(Constants(), params, torch.tensor([[[0.0, 0, 0], [0.80, 0, 0]]]), torch.tensor([[1, 1]]))
        md = M.XL_BOMD(xl_bomd_params={"k": 3}, damp=20.0, seqm_parameters=params, timestep=0.5, Temp=300.0,
                       output={"molid": [0], "prefix": os.path.join(d, "md"), "print every": 0, "checkpoint every": 2, "xyz": 0, "h5": {"data": 1}})
        with contextlib.redirect_stdout(io.StringIO()):
            md.run(mol, 4, seed=3)
        real_run = M.XL_BOMD.run

        def rec_run(self, *a, **k):
            seen["damp"] = self.damp
            seen["has_coefficients_after_initialize"] = None
            return None

        M.XL_BOMD.run = rec_run
        try:
            with contextlib.redirect_stdout(io.StringIO()):
                M.Molecular_Dynamics_Basic.run_from_checkpoint(os.path.join(d, "md.restart.pt"))
        finally:
            M.XL_BOMD.run = real_run
        return {"reproduced": seen.get("damp") != 20.0, "damp_of_the_checkpointed_run": 20.0, "damp_of_the_rebuilt_engine": seen.get("damp")}
    finally:
        shutil.rmtree(d, ignore_errors=True)


def task_resume_engine_configuration(ctx):
    """run_from_checkpoint rebuilds the engine the checkpoint names with the configuration the checkpoint stores: time step,
    temperature, output settings, electronic-structure settings for every engine; the damping time for the three engines that can
    be thermostatted (Langevin, XL_BOMD, KSA_XL_BOMD); the XL-BOMD parameters for the two XL engines; and run() is called with the
    stored number of steps and centre-of-mass setting.  Real function, engine classes replaced by recorders, symbolic values."""
    import seqm.MolecularDynamics as M

    ctx.under_contract(MD + ":Molecular_Dynamics_Basic.run_from_checkpoint", stubs=["_load_checkpoint_base", "_restore_rng", "engine classes (recorders)"])
    ctx.under_contract(MD + ":Molecular_Dynamics_Basic._checkpoint_init_kwargs")
    fn_resume = M.Molecular_Dynamics_Basic.run_from_checkpoint
    rep = []

    def rp(m_):
        if not rep:
            try:
                rep.append(replay_resume_thermostat({}))
            except Exception as exc:  # noqa
                rep.append({"reproduced": False, "error": repr(exc)[:300]})
        return rep[0]

    engines = ("Molecular_Dynamics_Basic", "Molecular_Dynamics_Langevin", "XL_BOMD", "KSA_XL_BOMD")
    real_kwargs = M.Molecular_Dynamics_Basic._checkpoint_init_kwargs
    for eng in engines:
        made = {}
        ckpt_box = [None]

        def fake(name):
            class Fake:
                def __init__(self, **kw):
                    made["class"] = name
                    made["kwargs"] = kw
                    made["obj"] = self

                def to(self, device):
                    return self

                def run(self, **kw):
                    made["run"] = kw

            # run_from_checkpoint reaches its helpers through the class name Molecular_Dynamics_Basic, which is a recorder here too
            Fake._load_checkpoint_base = staticmethod(lambda path, device=None: made["load"](path, device))
            Fake._restore_rng = staticmethod(lambda c: None)
            Fake._checkpoint_init_kwargs = staticmethod(real_kwargs)
            return Fake

        damp, dt, Temp, steps = real("damp"), real("dt"), real("Temp"), integer("steps")
        xlp = {"k": 3, "max_rank": 2}
        outp, sp = {"prefix": "x"}, {"method": "AM1"}

        def thunk():
            made.clear()
            made["load"] = lambda path, device=None: (ckpt_box[0], ghost_molecule(0), st._CPU, True)
            Pt = st.symbolic((4, 1, 1, 1), "Pt")
            ckpt = {"MD_type": eng, "xl_bomd_params": xlp, "xl_ctx": {"Pt": Pt, "es_amp_t": None}, "step_done": 2, "steps": steps, "damp": damp,
                    "seqm_parameters": sp, "timestep": dt, "Temp": Temp, "output": outp, "remove_com": ("linear", 5), "rng": {}}
            ckpt_box[0] = ckpt
            fn_resume("ckpt.pt")
            return dict(made)

        ex = ctx.explore(thunk, stubs={MD + ":" + e: fake(e) for e in engines}, name="run_from_checkpoint " + eng, max_paths=8)
        ok = [p for p in ex.paths if p.raised is None]
        if len(ok) != 1:
            for p in ex.paths:
                if p.raised is not None and isinstance(p.raised, Unmodelled):
                    raise p.raised
            ctx.fail("resume_engine.%s.returns" % eng, "%r" % ([p.raised for p in ex.paths],))
            continue
        mk = ok[0].value
        kw = mk.get("kwargs", {})
        tag = "resume_engine.%s" % eng
        ctx.prove(tag + ".engine-class-is-the-one-the-checkpoint-names", E.const(mk.get("class") == eng))
        ctx.prove_eq(tag + ".timestep", S(kw.get("timestep", 0)), dt)
        ctx.prove_eq(tag + ".Temp", S(kw.get("Temp", 0)), Temp)
        ctx.prove(tag + ".output-and-electronic-structure-settings", E.const(kw.get("output") is outp and kw.get("seqm_parameters") is sp))
        if eng != "Molecular_Dynamics_Basic":
            got = kw.get("damp", None)
            if got is None:
                ctx.fail(tag + ".damping-time-is-the-checkpoint's", "the rebuilt engine gets no damping time (the checkpoint stores %s)" % E.to_str(damp.n), replay=rp(None), witness_class="thermostat-lost-on-resume")
            else:
                ctx.prove_eq(tag + ".damping-time-is-the-checkpoint's", S(got), damp, replay=rp, classify=lambda m_, r: "thermostat-lost-on-resume")
        if eng in ("XL_BOMD", "KSA_XL_BOMD"):
            ctx.prove(tag + ".xl_bomd_params-are-the-checkpoint's", E.const(kw.get("xl_bomd_params") is xlp))
        runkw = mk.get("run", {})
        ctx.prove_eq(tag + ".run.steps", S(runkw.get("steps", 0)), steps)
        ctx.prove(tag + ".run.remove_com", E.const(runkw.get("remove_com") == ("linear", 5)))


def task_xl_resume(ctx):
    """XL-BOMD / KSA engines: the auxiliary density a resumed run continues from is P(step_done) (every k, every phase)."""
    from contracts import C09_xlbomd as C09

    ctx.under_contract(MD + ":Molecular_Dynamics_Basic.run_from_checkpoint", stubs=["_load_checkpoint_base", "_restore_rng", "XL_BOMD (fake class capturing _xl_ctx)"])
    C09.resume_rule(ctx)
    ctx.assume_note("history-buffer invariant Pt[j] = P(step_done - ((step_done mod m + j) mod m)) is established by XL_BOMD.one_step (C09 task history)")


TASKS_QUICK = ["xl_resume", "resume_engine_configuration", "open_resume", "resume_D_CVF", "resume_D_cvf", "resume_d_CvF", "resume_d_cVf", "fresh_ordering", "atomic_save", "frames", "xyz", "rng"]
TASKS_THOROUGH = TASKS_QUICK
