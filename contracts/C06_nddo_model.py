"""C06 -- energies equal the published NDDO model: closed-form layers against spec functions."""
from fractions import Fraction

from pyvc.api import *
from pyvc import symtorch as st, expr as E, poly as P

TGT_LF = "seqm.seqm_functions.two_elec_two_center_int_local_frame:two_elec_two_center_int_local_frame"


def _lf_inputs():
    ni = st.tensor([8, 8, 1])
    nj = st.tensor([6, 1, 1])
    names = ["r0", "da0", "db0", "qa0", "qb0", "rho0a", "rho0b", "rho1a", "rho1b", "rho2a", "rho2b"]
    args = {n: st.symbolic((3,), n) for n in names}
    tore = st.zeros(10)
    for z in (1, 6, 8):
        tore.a[z] = real("tore%d" % z)
    return ni, nj, args, tore


def task_local_frame(ctx):
    """O1: the 22 / 4 / 1 local-frame two-centre integrals = Dewar-Thiel point-charge multipole model."""
    from spec import nddo
    import seqm.seqm_functions.constants as C

    fn = ctx.under_contract(TGT_LF)
    ni, nj, a, tore = _lf_inputs()

    def thunk():
        return fn(ni, nj, a["r0"], tore, a["da0"], a["db0"], a["qa0"], a["qb0"], a["rho0a"], a["rho0b"], a["rho1a"], a["rho1b"], a["rho2a"], a["rho2b"], "AM1")

    ex = ctx.explore(thunk, name="local_frame")
    if len(ex.paths) != 1 or ex.paths[0].raised is not None:
        ctx.error("paths", "expected one straight-line path: %r" % ([p.raised for p in ex.paths],))
        return
    riHH, riXH, ri, coreHH, coreXH, core = ex.paths[0].value
    ev = Sym(E.const(E.frac_of_float(C.ev), E.R))
    rsqrt = lambda x: Sym(E.powr(E.node_of(x), Fraction(-1, 2)))

    def g(name, p):
        return a[name].a[p]

    def spec(kA, kB, p):
        return nddo.multipole_integral(kA, kB, g("r0", p), g("da0", p), g("qa0", p), g("db0", p), g("qb0", p),
                                       (g("rho0a", p), g("rho1a", p), g("rho2a", p)), (g("rho0b", p), g("rho1b", p), g("rho2b", p)), ev, rsqrt)

    for k, (kA, kB) in enumerate(nddo.DT22):
        ctx.prove_eq("XX.ri[%d]=(%s|%s)" % (k + 1, kA, kB), ri.a[0, k], spec(kA, kB, 0))
    for k, (kA, kB) in enumerate(nddo.DT4_XH):
        ctx.prove_eq("XH.ri[%d]=(%s|%s)" % (k + 1, kA, kB), riXH.a[0, k], spec(kA, kB, 1))
    ctx.prove_eq("HH.ri=(ss|ss)", riHH.a[0], spec("ss", "ss", 2))
    # core-electron attraction integrals in the local frame: CORE(kl, 1) = Z_B (kl|ss), CORE(kl, 2) = Z_A (ss|kl)
    ZA, ZB = real("tore8"), real("tore6")
    for c, (kA, kB, Zc) in enumerate([("ss", "ss", ZB), ("so", "ss", ZB), ("oo", "ss", ZB), ("pp", "ss", ZB),
                                      ("ss", "ss", ZA), ("ss", "so", ZA), ("ss", "oo", ZA), ("ss", "pp", ZA)]):
        ctx.prove_eq("XX.core[%d]" % c, core.a[0, c], Zc * spec(kA, kB, 0))
    ZH = real("tore1")
    for c, (kA, kB, Zc) in enumerate([("ss", "ss", ZH), ("so", "ss", ZH), ("oo", "ss", ZH), ("pp", "ss", ZH), ("ss", "ss", ZA)]):
        ctx.prove_eq("XH.core[%d]" % c, coreXH.a[0, c], Zc * spec(kA, kB, 1))
    for c in range(2):
        ctx.prove_eq("HH.core[%d]" % c, coreHH.a[0, c], ZH * spec("ss", "ss", 2))
    ctx.canary_eq("ri2-is-not-ri5", ri.a[0, 1], spec("ss", "so", 0))
    ctx.assume_note("shape: one pair of each kind (X-X, X-H, H-H) with fully symbolic distance, charge separations and additive terms; the routine is pointwise in the pair axis")
    ctx.assume_note("constant ev read as the exact rational of its shortest round-trip decimal (float-constant rule i)")
    ctx.undecided_clause("radicands r^2+... are positive (true for r>0 or additive terms>0; not needed for the identity)")


TASKS_QUICK = ["local_frame"]
TASKS_THOROUGH = TASKS_QUICK
