"""C06 -- energies equal the published NDDO model: closed-form layers against spec functions."""
from fractions import Fraction

import numpy as np

from pyvc.api import *
from pyvc import symtorch as st, expr as E, poly as P

TGT_LF = "seqm.seqm_functions.two_elec_two_center_int_local_frame:two_elec_two_center_int_local_frame"


def _lf_inputs():
    ni = st.tensor([8, 8, 1])
    nj = st.tensor([6, 1, 1])
    names = ["r0", "da0", "db0", "qa0", "qb0", "rho0a", "rho0b", "rho1a", "rho1b", "rho2a", "rho2b"]
    args = {n: st.symbolic((3,), n) for n in names}
    tore = st.zeros(10)
    for z in (1, 6, 8):
        tore.a[z] = real("tore%d" % z)
    return ni, nj, args, tore


def task_local_frame(ctx):
    """O1: the 22 / 4 / 1 local-frame two-centre integrals = Dewar-Thiel point-charge multipole model."""
    from spec import nddo
    import seqm.seqm_functions.constants as C

    fn = ctx.under_contract(TGT_LF)
    ni, nj, a, tore = _lf_inputs()

    def thunk():
        return fn(ni, nj, a["r0"], tore, a["da0"], a["db0"], a["qa0"], a["qb0"], a["rho0a"], a["rho0b"], a["rho1a"], a["rho1b"], a["rho2a"], a["rho2b"], "AM1")

    ex = ctx.explore(thunk, name="local_frame")
    if len(ex.paths) != 1 or ex.paths[0].raised is not None:
        ctx.error("paths", "expected one straight-line path: %r" % ([p.raised for p in ex.paths],))
        return
    riHH, riXH, ri, coreHH, coreXH, core = ex.paths[0].value
    ev = Sym(E.const(E.frac_of_float(C.ev), E.R))
    rsqrt = lambda x: Sym(E.powr(E.node_of(x), Fraction(-1, 2)))

    def g(name, p):
        return a[name].a[p]

    def spec(kA, kB, p):
        return nddo.multipole_integral(kA, kB, g("r0", p), g("da0", p), g("qa0", p), g("db0", p), g("qb0", p),
                                       (g("rho0a", p), g("rho1a", p), g("rho2a", p)), (g("rho0b", p), g("rho1b", p), g("rho2b", p)), ev, rsqrt)

    for k, (kA, kB) in enumerate(nddo.DT22):
        ctx.prove_eq("XX.ri[%d]=(%s|%s)" % (k + 1, kA, kB), ri.a[0, k], spec(kA, kB, 0))
    for k, (kA, kB) in enumerate(nddo.DT4_XH):
        ctx.prove_eq("XH.ri[%d]=(%s|%s)" % (k + 1, kA, kB), riXH.a[0, k], spec(kA, kB, 1))
    ctx.prove_eq("HH.ri=(ss|ss)", riHH.a[0], spec("ss", "ss", 2))
    # core-electron attraction integrals in the local frame: CORE(kl, 1) = Z_B (kl|ss), CORE(kl, 2) = Z_A (ss|kl)
    ZA, ZB = real("tore8"), real("tore6")
    for c, (kA, kB, Zc) in enumerate([("ss", "ss", ZB), ("so", "ss", ZB), ("oo", "ss", ZB), ("pp", "ss", ZB),
                                      ("ss", "ss", ZA), ("ss", "so", ZA), ("ss", "oo", ZA), ("ss", "pp", ZA)]):
        ctx.prove_eq("XX.core[%d]" % c, core.a[0, c], Zc * spec(kA, kB, 0))
    ZH = real("tore1")
    for c, (kA, kB, Zc) in enumerate([("ss", "ss", ZH), ("so", "ss", ZH), ("oo", "ss", ZH), ("pp", "ss", ZH), ("ss", "ss", ZA)]):
        ctx.prove_eq("XH.core[%d]" % c, coreXH.a[0, c], Zc * spec(kA, kB, 1))
    for c in range(2):
        ctx.prove_eq("HH.core[%d]" % c, coreHH.a[0, c], ZH * spec("ss", "ss", 2))
    ctx.canary_eq("ri2-is-not-ri5", ri.a[0, 1], spec("ss", "so", 0))
    ctx.assume_note("shape: one pair of each kind (X-X, X-H, H-H) with fully symbolic distance, charge separations and additive terms; the routine is pointwise in the pair axis")
    ctx.assume_note("constant ev read as the exact rational of its shortest round-trip decimal (float-constant rule i)")
    ctx.undecided_clause("radicands r^2+... are positive (true for r>0 or additive terms>0; not needed for the identity)")


def _pair_setup(ngauss):
    """one pair of every kind the core-core formulas distinguish, over the classes {N, O, other heavy atom, H} of both partners:
    O-C, O-H (special), N-H (special), C-H, H-H, N-C, N-N, O-N, O-O, C-C (the special N-H / O-H form must NOT reach the last five)"""
    from contracts.md_common import Obj
    from contracts.es_common import tore_table

    kinds = [(8, 6), (8, 1), (7, 1), (6, 1), (1, 1), (7, 6), (7, 7), (8, 7), (8, 8), (6, 6)]
    Z = [z for pr in kinds for z in pr]
    idxi, idxj = list(range(0, 2 * len(kinds), 2)), list(range(1, 2 * len(kinds), 2))
    ni = st.tensor([Z[i] for i in idxi])
    nj = st.tensor([Z[j] for j in idxj])
    const = Obj(tore=tore_table(), atomic_num=None)
    alpha = st.symbolic((len(Z),), "alpha")
    K, L, M = st.symbolic((len(Z), ngauss), "K"), st.symbolic((len(Z), ngauss), "L"), st.symbolic((len(Z), ngauss), "M")
    rij = st.symbolic((len(kinds),), "rij")
    gam = st.symbolic((len(kinds),), "gam")
    return Z, idxi, idxj, ni, nj, const, alpha, K, L, M, rij, gam


def replay_core_core_pairs(model):
    """real pair_nuclear_energy (AM1 parameters from the shipped tables) for one pair of each kind at 1.3 A against the published
    formula evaluated in floats (special R exp(-alpha R) form for N-H and O-H only)."""
    import math
    import torch
    from seqm.seqm_functions.energy import pair_nuclear_energy
    from seqm.seqm_functions.constants import Constants
    from seqm.basics import Pack_Parameters
    import seqm.seqm_functions.constants as C

    torch.set_default_dtype(torch.float64)
    kinds = [(8, 6), (8, 1), (7, 1), (6, 1), (1, 1), (7, 6), (7, 7), (8, 7), (8, 8), (6, 6)]
    Z = torch.tensor([z for pr in kinds for z in pr])
    par = Pack_Parameters({"method": "AM1", "elements": [0, 1, 6, 7, 8], "learned": []})(Z, learned_params={})[0]
    n = len(kinds)
    idxi, idxj = torch.arange(0, 2 * n, 2), torch.arange(1, 2 * n, 2)
    R_A = 1.3
    rij = torch.full((n,), R_A / C.a0)
    gam = torch.full((n,), 9.0)
    K = torch.stack([par["Gaussian%d_K" % g] for g in range(1, 5)], dim=1)
    L = torch.stack([par["Gaussian%d_L" % g] for g in range(1, 5)], dim=1)
    M = torch.stack([par["Gaussian%d_M" % g] for g in range(1, 5)], dim=1)
    const = Constants()
    got = pair_nuclear_energy(Z, const, 1, Z[idxi], Z[idxj], idxi, idxj, rij, None, None, None, None, gam=gam, method="AM1", parameters=(par["alpha"], K, L, M))
    rows, bad = [], False
    for k, (za, zb) in enumerate(kinds):
        a, b = 2 * k, 2 * k + 1
        ZA, ZB = float(const.tore[za]), float(const.tore[zb])
        al_a, al_b = float(par["alpha"][a]), float(par["alpha"][b])
        ea = (R_A if (za in (7, 8) and zb == 1) else 1.0) * math.exp(-al_a * R_A)
        eb = math.exp(-al_b * R_A)
        want = ZA * ZB * 9.0 * (1.0 + ea + eb)
        for at, zq in ((a, None), (b, None)):
            pass
        gs = 0.0
        for at in (a, b):
            for g in range(4):
                gs += float(K[at, g]) * math.exp(-float(L[at, g]) * (R_A - float(M[at, g])) ** 2)
        want += ZA * ZB / R_A * gs
        dev = abs(float(got[k]) - want)
        if dev > 1e-8 * max(1.0, abs(want)):
            bad = True
        rows.append({"pair": "%d-%d" % (za, zb), "pair_nuclear_energy": float(got[k]), "published_formula": want, "difference": float(got[k]) - want})
    return {"reproduced": bad, "R_A": R_A, "rows": [r for r in rows if abs(r["difference"]) > 1e-8] or rows[:3]}


def task_core_core(ctx):
    """O5: pair_nuclear_energy (MNDO, AM1, PM3) = published core-core formulas incl. the N-H / O-H form and the Gaussians."""
    from spec import nddo

    fn = ctx.under_contract("seqm.seqm_functions.energy:pair_nuclear_energy")
    for method, ng in (("MNDO", 0), ("AM1", 4), ("PM3", 2)):
        Z, idxi, idxj, ni, nj, const, alpha, K, L, M, rij, gam = _pair_setup(max(ng, 1))

        def thunk():
            pars = (alpha,) if method == "MNDO" else (alpha, K, L, M)
            return fn(None, const, 1, ni, nj, st.tensor(idxi), st.tensor(idxj), rij, None, None, None, None, gam=gam, method=method, parameters=pars)

        ex = ctx.explore(thunk, constants={"a0": real("a0"), "ev": real("ev")}, name="pair_nuclear_energy " + method)
        if len(ex.paths) != 1 or ex.paths[0].raised is not None:
            ctx.error(method + ".paths", "%r %s" % ([p.raised for p in ex.paths], ex.paths[0].notes.get("traceback", "")[-600:] if ex.paths else ""))
            continue
        En = ex.paths[0].value
        expf = lambda z: Sym(E.fn("exp", E.node_of(z)))
        for k in range(len(idxi)):
            a, b = idxi[k], idxj[k]
            ZA, ZB = real("tore%d" % Z[a]), real("tore%d" % Z[b])
            R = rij.a[k] * real("a0")
            special = Z[a] in (7, 8) and Z[b] == 1
            gA = [(K.a[a, g], L.a[a, g], M.a[a, g]) for g in range(ng)]
            gB = [(K.a[b, g], L.a[b, g], M.a[b, g]) for g in range(ng)]
            want = nddo.core_core(method, ZA, ZB, gam.a[k], R, alpha.a[a], alpha.a[b], special, gA, gB, expf)
            ctx.prove_eq("%s.pair[%d-%d]" % (method, Z[a], Z[b]), En.a[k], want, replay=replay_core_core_pairs)
    ctx.canary_eq("special-form-matters", real("R") * Sym(E.fn("exp", (-real("al") * real("R")).n)), Sym(E.fn("exp", (-real("al") * real("R")).n)))
    ctx.assume_note("shape: one pair of each kind O-C, O-H, N-H, C-H, H-H, N-C, N-N, O-N, O-O, C-C; all parameters, distances and (ss|ss) symbolic")


def replay_pm6_core(model):
    """real pair_nuclear_energy, PM6, one Si-O pair at 1.6 A and 2.9 A against the published formula (R in Angstrom)."""
    import math
    import torch
    from seqm.seqm_functions.energy import pair_nuclear_energy
    from seqm.seqm_functions.constants import Constants
    import seqm.seqm_functions.constants as C

    torch.set_default_dtype(torch.float64)
    const = Constants()
    rows, bad = [], False
    x, al, rho = 0.5, 1.9, 1.2
    for Rang in (1.6, 2.9):
        rij = torch.tensor([Rang / C.a0])
        alp = torch.zeros(20, 20)
        chi = torch.zeros(20, 20)
        alp[14, 8], chi[14, 8] = al, x
        z = torch.zeros(2, 1)
        got = float(pair_nuclear_energy(None, const, 1, torch.tensor([14]), torch.tensor([8]), torch.tensor([0]), torch.tensor([1]), rij, torch.tensor([rho]), torch.tensor([rho]), alp, chi, gam=torch.zeros(1),
                                        method="PM6", parameters=(torch.zeros(2), z, z, z))[0])
        ZA, ZB = float(const.tore[14]), float(const.tore[8])
        gamma = C.ev / math.sqrt(float(rij) ** 2 + (2 * rho) ** 2)
        want = ZA * ZB * gamma * (1 + 2 * x * math.exp(-al * (Rang + 0.0003 * Rang ** 6))) - ZA * ZB * gamma * 0.0007 * math.exp(-(Rang - 2.9) ** 2) + 1e-8 * ((14 ** (1 / 3) + 8 ** (1 / 3)) / Rang) ** 12
        rows.append({"R_Angstrom": Rang, "computed_eV": got, "published_formula_eV": want, "difference_eV": got - want})
        bad = bad or abs(got - want) > 1e-8
    return {"reproduced": bad, "pair": "Si-O, x = 0.5, alpha = 1.9, rho0 = 1.2 bohr each, no Gaussians", "rows": rows}


def task_core_core_pm6(ctx):
    """EXTRA (not part of the claimed C06 check: the property covers MNDO, AM1 and PM3).  pair_nuclear_energy(method='PM6') = the published PM6 core-core function (general pairs, the X-H form for
    C/N/O-H, the extra C-C and Si-O terms, the unpolarisable-core term, the atoms' Gaussians), all lengths in Angstrom."""
    from spec import nddo
    from contracts.md_common import Obj
    from contracts.es_common import tore_table
    from contracts.C07_differentiability import _quiet

    fn = ctx.under_contract("seqm.seqm_functions.energy:pair_nuclear_energy")
    # pairs: C-C, O-C, Si-O, C-H, N-H, O-H, Cl-H (general X-H), H-H
    Z = [6, 6, 8, 6, 14, 8, 6, 1, 7, 1, 8, 1, 17, 1, 1, 1]
    idxi, idxj = list(range(0, 16, 2)), list(range(1, 16, 2))
    ni = st.tensor([Z[i] for i in idxi])
    nj = st.tensor([Z[j] for j in idxj])
    tore = st.zeros(20)
    num = st.zeros(20)
    for z in set(Z):
        tore.a[z] = real("tore%d" % z)
        num.a[z] = real("num%d" % z)
    const = Obj(tore=tore, atomic_num=num)
    alpha = st.symbolic((16,), "alpha")
    K, L, M = st.symbolic((16, 1), "K"), st.symbolic((16, 1), "L"), st.symbolic((16, 1), "M")
    rij = st.symbolic((8,), "rij")
    rho_i, rho_j = st.symbolic((8,), "rhoi"), st.symbolic((8,), "rhoj")
    alp, chi = st.zeros(20, 20), st.zeros(20, 20)
    for a, b in zip(idxi, idxj):
        alp.a[Z[a], Z[b]] = real("alp_%d_%d" % (Z[a], Z[b]))
        chi.a[Z[a], Z[b]] = real("chi_%d_%d" % (Z[a], Z[b]))

    def thunk():
        for z in set(Z):
            assume(real("num%d" % z) > 0)
        for k in range(8):
            assume(rij.a[k] > 0)
        return fn(None, const, 1, ni, nj, st.tensor(idxi), st.tensor(idxj), rij, rho_i, rho_j, alp, chi, gam=st.symbolic((8,), "gam"), method="PM6", parameters=(alpha, K, L, M))

    ex = ctx.explore(thunk, constants={"a0": real("a0"), "ev": real("ev")}, name="pair_nuclear_energy PM6", extra_globals=None)
    if len(ex.paths) != 1 or ex.paths[0].raised is not None:
        ctx.error("paths", "%r %s" % ([p.raised for p in ex.paths], ex.paths[0].notes.get("traceback", "")[-700:] if ex.paths else ""))
        return
    En = ex.paths[0].value
    expf = lambda z: Sym(E.fn("exp", E.node_of(z)))
    rep = []
    for k in range(8):
        a, b = idxi[k], idxj[k]
        ZA, ZB = real("tore%d" % Z[a]), real("tore%d" % Z[b])
        R = rij.a[k] * real("a0")
        gamma = real("ev") * Sym(E.powr((rij.a[k] * rij.a[k] + (rho_i.a[k] + rho_j.a[k]) ** 2).n, Fraction(-1, 2)))
        cb = {z_: Sym(E.powr(real("num%d" % z_).n, Fraction(1, 3))) for z_ in (Z[a], Z[b])}
        want = nddo.core_core_pm6(ZA, ZB, Z[a], Z[b], Z[a], Z[b], gamma, R, real("chi_%d_%d" % (Z[a], Z[b])), real("alp_%d_%d" % (Z[a], Z[b])),
                                  [(K.a[a, 0], L.a[a, 0], M.a[a, 0])], [(K.a[b, 0], L.a[b, 0], M.a[b, 0])], expf, lambda n_: cb[n_])
        ctx.prove_eq("PM6.pair[%d-%d]" % (Z[a], Z[b]), En.a[k], want,
                     replay=(lambda mdl: (rep or rep.append(_quiet(replay_pm6_core)) or rep)[0]) if (Z[a], Z[b]) == (14, 8) else None,
                     classify=lambda m_, r: "length-unit-of-the-Si-O-term" if r and r.get("reproduced") else "other")
    ctx.assume_note("shape: one pair of each kind (C-C, O-C, Si-O, C-H, N-H, O-H, Cl-H, H-H), one Gaussian per atom; math.e**x read as exp(x), x**(1/3) as the cube root; atomic numbers as positive symbols")


def replay_atomic_number(model):
    """real PM6 core-core energy of H-I at 1.61 A: the unpolarisable-core term must use Z = 53."""
    import torch
    from seqm.seqm_functions.constants import Constants

    c = Constants()
    bad = {int(z): float(c.atomic_num[z]) for z in range(1, 58) if float(c.tore[z]) > 0 and float(c.atomic_num[z]) != float(z)}
    z53 = float(c.atomic_num[53])
    R = 1.61
    return {"reproduced": bool(bad), "atomic_num entries that are not the atomic number (Z <= 57, supported elements)": bad,
            "H-I at 1.61 A: unpolarisable-core term with the table value (eV)": 1e-8 * ((z53 ** (1 / 3) + 1) / R) ** 12, "with Z = 53 (eV)": 1e-8 * ((53 ** (1 / 3) + 1) / R) ** 12}


def task_constant_tables(ctx):
    """Element tables of seqm_functions.constants (Z <= 57, elements with a valence charge): valence charge
    = s + p electrons; the isolated-atom coefficient tables follow from the ground-state occupations (n_s, n_p) by the
    MNDO-family rules  gss: max(n_s-1, 0), gsp: n_s n_p, hsp: -n_p, gp2: n_p(n_p-1)/2 + l(l-1)/4, gpp: -l(l-1)/4 with
    l = min(n_p, 6-n_p)  (Dewar & Thiel 1977 / MOPAC calpar)."""
    from seqm.seqm_functions.constants import Constants
    from contracts.C07_differentiability import _quiet

    ctx.under_contract("seqm.seqm_functions.constants:Constants.__init__")
    c = Constants()
    rep = []
    n = 0
    for z in range(1, 58):
        if float(c.tore[z]) <= 0:
            continue
        n += 1
        ns, np_ = int(c.ussc[z]), int(c.uppc[z])
        if getattr(ctx, "include_pm6_only_tables", False):
            # atomic_num enters only the PM6 core-core function, which is outside C06 (MNDO/AM1/PM3): checked by the extra task only
            ctx.prove("atomic_num[%d]=%d" % (z, z), S(E.frac_of_float(float(c.atomic_num[z]))) == z, replay=lambda m: (rep or rep.append(_quiet(replay_atomic_number)) or rep)[0],
                      classify=lambda m_, r: "atomic-number-table")
        main_group = z <= 20 or 31 <= z <= 38 or 49 <= z <= 56
        if main_group:
            ctx.prove("tore[%d]=n_s+n_p" % z, S(E.frac_of_float(float(c.tore[z]))) == ns + np_)
            l = min(np_, 6 - np_)
            ctx.prove("gssc[%d]" % z, S(E.frac_of_float(float(c.gssc[z]))) == max(ns - 1, 0))
            ctx.prove("gspc[%d]" % z, S(E.frac_of_float(float(c.gspc[z]))) == ns * np_)
            ctx.prove("hspc[%d]" % z, S(E.frac_of_float(float(c.hspc[z]))) == -np_)
            ctx.prove("gp2c[%d]" % z, S(E.frac_of_float(float(c.gp2c[z]))) == Fraction(np_ * (np_ - 1), 2) + Fraction(l * (l - 1), 4))
            ctx.prove("gppc[%d]" % z, S(E.frac_of_float(float(c.gppc[z]))) == -Fraction(l * (l - 1), 4))
        period = 1 if z <= 2 else 2 if z <= 10 else 3 if z <= 18 else 4 if z <= 36 else 5 if z <= 54 else 6
        ctx.prove("qn[%d]=period" % z, S(int(c.qn[z])) == period)
    if n < 30:
        ctx.error("vacuous", "only %d elements with a valence charge" % n)
    ctx.assume_note("concrete table check for Z <= 57 (beyond La the table is not indexed by atomic number and those elements are rejected elsewhere)")


def replay_bintgs(module):
    def rp(model):
        """real bintgs at the model's x against numerical quadrature of int_{-1}^{1} t^k exp(-x t) dt"""
        import importlib
        import numpy as np
        import torch

        mod = importlib.import_module("seqm.seqm_functions." + module)
        x = model_float(model, "x", 0.005)
        got = mod.bintgs(torch.tensor([x], dtype=torch.float64), torch.tensor([12]))[0].numpy()
        t, w = np.polynomial.legendre.leggauss(60)
        want = np.array([np.sum(w * t ** k * np.exp(-x * t)) for k in range(len(got))])
        err = np.abs(got - want)
        return {"reproduced": bool(err.max() > 1e-6), "x": x, "max_abs_error": float(err.max()), "worst_index": int(err.argmax()), "computed": float(got[err.argmax()]), "quadrature": float(want[err.argmax()])}
    return rp


def task_overlap_aux_integrals(ctx):
    """Auxiliary integrals of the Slater overlaps (all three overlap modules): A_k(x) = int_1^inf t^k e^{-x t} dt and
    B_k(x) = int_{-1}^{1} t^k e^{-x t} dt.  Closed-form branches: the first member is the exact integral and every member is
    minus the derivative of its predecessor (which pins all of them).  Series / small-argument branches of B_k: within 1e-6
    of the exact power series on the whole domain of the branch (partial sum to x^15 plus a rigorous remainder bound)."""
    import math

    for module in ("diat_overlap_PM6_SP", "diat_overlap", "diat_overlapD"):
        tgt = "seqm.seqm_functions.%s" % module
        fa = ctx.under_contract(tgt + ":aintgs")
        fb = ctx.under_contract(tgt + ":bintgs")
        x = real("x")
        # ---- A integrals (x > 0)
        def thunk_a():
            assume(x > 0)
            return fa(st.tensor([x]), st.tensor([12]))

        ex = ctx.explore(thunk_a, name=module + ".aintgs")
        for p in ex.paths:
            if p.raised is not None:
                ctx.fail("%s.A.raises@p%d" % (module, p.path_id), repr(p.raised) + p.notes.get("traceback", "")[-500:])
                continue
            a = [Sym(resolve_ites(p.pc, v)) for v in p.value.a[0]]
            ctx.prove_eq("%s.A_0 = exp(-x)/x@p%d" % (module, p.path_id), a[0], Sym(E.fn("exp", (-x).n)) / x, pc=p.pc)
            for k in range(1, len(a)):
                ctx.prove_eq("%s.A_%d = -dA_%d/dx@p%d" % (module, k, k - 1, p.path_id), a[k], -Sym(E.diff(E.node_of(a[k - 1]), x.n)), pc=p.pc)
        # ---- B integrals
        def thunk_b():
            return fb(st.tensor([x]), st.tensor([12]))

        ex = ctx.explore(thunk_b, name=module + ".bintgs", max_paths=16)
        kinds = set()
        tol = Fraction(1, 10**6)
        K = 16
        for p in ex.paths:
            if p.raised is not None:
                ctx.fail("%s.B.raises@p%d" % (module, p.path_id), repr(p.raised) + p.notes.get("traceback", "")[-500:])
                continue
            b = p.value.a[0]
            closed = any(n.op == "exp" for n in E.postorder([E.node_of(b[0])]))
            if closed:
                kinds.add("closed")
                ctx.prove_eq("%s.B_0 = (exp(x)-exp(-x))/x@p%d" % (module, p.path_id), b[0], (Sym(E.fn("exp", x.n)) - Sym(E.fn("exp", (-x).n))) / x, pc=p.pc)
                for k in range(1, len(b)):
                    ctx.prove_eq("%s.B_%d = -dB_%d/dx (closed form)@p%d" % (module, k, k - 1, p.path_id), b[k], -Sym(E.diff(E.node_of(b[k - 1]), x.n)), pc=p.pc)
                continue
            kinds.add("series")
            # exact series  B_k(x) = sum_m (-x)^m/m! * (1 + (-1)^(m+k))/(m+k+1); remainder after m < K bounded by |x|^K/K! * 2/(K+k+1) * e^|x|
            # (on these branches |x| <= 1/2, e^|x| < 2)
            for k in range(len(b)):
                partial = sum(((-x) ** m) * Fraction((1 + (-1) ** (m + k)), math.factorial(m) * (m + k + 1)) for m in range(K))
                rem = Fraction(2 * 2, math.factorial(K) * (K + k + 1)) * Fraction(1, 2 ** K)
                d = S(b[k]) - partial
                ctx.prove("%s.B_%d within 1e-6 of the exact series on this branch@p%d" % (module, k, p.path_id), (d <= tol - rem) & (-d <= tol - rem), pc=list(p.pc),
                          replay=replay_bintgs(module), classify=lambda m_, r: "small-argument-branch-too-wide" if r and r.get("reproduced") else "other")
        if kinds != {"closed", "series"}:
            ctx.error(module + ".B.paths", "expected closed-form and series branches, got %r" % kinds)
    ctx.assume_note("A5/exp as a real function with exp' = exp; the closed-form branches are exact identities, the series branches are bounded for all x of the branch (univariate polynomial inequalities)")
    ctx.undecided_clause("the combination of the auxiliary integrals into the local-frame overlaps (binomial coefficient tables), and the exponents' units")


def task_extra_pm6_tables(ctx):
    """EXTRA (not part of the claimed C06 check: PM6 is outside the property): atomic_num[Z] = Z."""
    ctx.include_pm6_only_tables = True
    task_constant_tables(ctx)


# tasks that look beyond the listed property (PM6); run with `./check C06 --task <name>`, never by the registered commands

def replay_multipole_prologue(model):
    """real two_elec_two_center_int (PM3 H-Cl: (g_pp - g_p2)/2 of Cl = 0.009 eV, below MOPAC's 0.1 eV floor) with `rotate`
    replaced by a recorder: the quadrupole additive term handed on must be the root for h_pp = 0.1 eV (solved with the
    repository's own additive_term_rho2), the monopole term ev / (2 g_ss)."""
    import torch
    import seqm.seqm_functions.two_elec_two_center_int as T2
    from seqm.seqm_functions.constants import Constants
    from seqm.basics import Pack_Parameters
    from seqm.seqm_functions.cal_par import additive_term_rho2, dd_qq

    torch.set_default_dtype(torch.float64)
    const = Constants()
    Z = torch.tensor([17, 1])
    names = ["zeta_s", "zeta_p", "g_ss", "g_pp", "g_p2", "h_sp"]
    par = Pack_Parameters({"method": "PM3", "elements": [0, 1, 17], "learned": []})(Z, learned_params={})[0]
    got = {}
    saved = T2.rotate

    def rec(ni, nj, xij, rij, tore, da, db, qa, qb, dpa, dpb, dsa, dsb, dda, ddb, rho0a, rho0b, rho1a, rho1b, rho2a, rho2b, *rest, **kw):
        got.update(rho0a=float(rho0a[0]), rho2a=float(rho2a[0]), qa=float(qa[0]))
        raise StopIteration

    T2.rotate = rec
    try:
        zero = torch.zeros(2)
        T2.two_elec_two_center_int(const, torch.tensor([0]), torch.tensor([1]), torch.tensor([17]), torch.tensor([1]), torch.tensor([[1.0, 0.0, 0.0]]), torch.tensor([2.4]), Z,
                                   par["zeta_s"], par["zeta_p"], zero, zero, zero, zero, par["g_ss"], par["g_pp"], par["g_p2"], par["h_sp"], zero, zero, zero, None, None, "PM3")
    except StopIteration:
        pass
    finally:
        T2.rotate = saved
    hpp = 0.5 * (par["g_pp"] - par["g_p2"])
    _, qq = dd_qq(const.qn[Z][:1], par["zeta_s"][:1], par["zeta_p"][:1])
    want = float(additive_term_rho2.apply(torch.clamp(hpp[:1], min=0.1), qq)[0])
    want0 = float(0.5 * T2.ev / par["g_ss"][0])
    bad = abs(got["rho2a"] - want) > 1e-9 * max(1.0, abs(want)) or abs(got["rho0a"] - want0) > 1e-12
    return {"reproduced": bool(bad), "element": "Cl (PM3)", "(g_pp-g_p2)/2": float(hpp[0]), "rho2_handed_to_the_integrals": got["rho2a"], "rho2_for_h_pp=max(0.1, (g_pp-g_p2)/2)": want, "rho0": got["rho0a"], "ev/(2 g_ss)": want0}


def task_multipole_prologue(ctx):
    """O2: the multipole parameters two_elec_two_center_int hands to the local-frame integrals are those of the published model:
    rho0 = ev / (2 g_ss); rho1 = additive term for (h_sp, D1); rho2 = additive term for (h_pp, D2) with h_pp = (g_pp - g_p2)/2 and
    MOPAC's 0.1 eV floor on it (the reference implementation the parameter sets were fitted with); D1, D2 the Dewar-Thiel charge
    separations, which the real dd_qq must equal for principal quantum numbers 1..3: D1 = (2n+1)(4 zs zp)^(n+1/2) /
    (sqrt(3) (zs+zp)^(2n+2)), D2 = sqrt((4n^2+6n+2)/20) / zp.  The secant solvers are uninterpreted functions of their arguments."""
    from contracts.md_common import Obj
    from contracts.es_common import tore_table

    M2 = "seqm.seqm_functions.two_elec_two_center_int"
    fe = ctx.under_contract(M2 + ":two_elec_two_center_int", stubs=["rotate", "additive_term_rho1/2", "dd_qq", "POIJ"])
    cap = {}

    def uf_tensor(name, *args):
        n = len(args[0])
        return st.tensor([Sym(E.uf(name, tuple(a.a[k].n for a in args), E.R)) for k in range(n)]) if n else st.zeros(0)

    rho1 = Obj(apply=lambda hsp, dd: uf_tensor("rho1", hsp, dd))
    rho2 = Obj(apply=lambda hpp, qq: uf_tensor("rho2", hpp, qq))

    def ddqq(qn, zs, zp):
        return uf_tensor("dd", qn, zs, zp), uf_tensor("qq", qn, zs, zp)

    def rotate_stub(ni, nj, xij, rij, tore, da, db, qa, qb, dpa, dpb, dsa, dsb, dda, ddb, rho0a, rho0b, rho1a, rho1b, rho2a, rho2b, *rest, **kw):
        cap["energy"] = dict(da=da, db=db, qa=qa, qb=qb, rho0a=rho0a, rho0b=rho0b, rho1a=rho1a, rho1b=rho1b, rho2a=rho2a, rho2b=rho2b)
        n = len(ni)
        return st.zeros(n, 10, 10), st.zeros(n, 4, 4), st.zeros(n, 4, 4), st.zeros(0, 4), st.zeros(n, 22)

    Z = st.tensor([8, 6])
    names = ["zetas", "zetap", "gss", "gpp", "gp2", "hsp"]
    par = {n: st.symbolic((2,), n) for n in names}
    const = Obj(tore=tore_table(), qn=st.tensor([0.0, 1, 1, 2, 2, 2, 2, 2, 2, 2]), qnD_int=st.zeros(10, dtype=st.int64))
    idxi, idxj = st.tensor([0]), st.tensor([1])
    ni, nj = st.tensor([8]), st.tensor([6])
    xij, rij = st.symbolic((1, 3), "x"), st.symbolic((1,), "rij")
    zeros = st.zeros(2)
    ev = real("ev")
    rep = []

    def replay(m_):
        if not rep:
            try:
                rep.append(replay_multipole_prologue({}))
            except Exception as exc:  # noqa
                rep.append({"reproduced": False, "error": repr(exc)[:300]})
        return rep[0]

    for method in ("MNDO", "AM1", "PM3"):
        def thunk():
            fe(const, idxi, idxj, ni, nj, xij, rij, Z, par["zetas"], par["zetap"], zeros, zeros, zeros, zeros, par["gss"], par["gpp"], par["gp2"], par["hsp"], zeros, zeros, zeros, None, None, method)
            return dict(cap)

        stubs = {M2 + ":rotate": rotate_stub, M2 + ":additive_term_rho1": rho1, M2 + ":additive_term_rho2": rho2, M2 + ":dd_qq": ddqq,
                 M2 + ":POIJ": lambda l, d, fg: st.zeros(len(d)) if isinstance(d, st.T) else st.zeros(len(fg))}
        ex = ctx.explore(thunk, stubs=stubs, constants={"ev": ev, "a0": real("a0")}, name="multipole prologue " + method)
        if not [p for p in ex.paths if p.raised is None]:
            ctx.error("multipole_prologue.%s.paths" % method, "no path returned")
        for p in ex.paths:
            if p.raised is not None:
                ctx.fail("multipole_prologue.%s.raises@p%d" % (method, p.path_id), repr(p.raised) + p.notes.get("traceback", "")[-800:])
                continue
            c = p.value["energy"]
            for k, side in enumerate("ab"):
                qnk = E.const(Fraction(2), E.R)
                dd = Sym(E.uf("dd", (qnk, par["zetas"].a[k].n, par["zetap"].a[k].n), E.R))
                qq = Sym(E.uf("qq", (qnk, par["zetas"].a[k].n, par["zetap"].a[k].n), E.R))
                hpp = (par["gpp"].a[k] - par["gp2"].a[k]) / 2
                floor = S(Fraction(1, 10))
                hpp_f = Sym(E.ite((hpp >= floor).n, hpp.n, floor.n))
                tag = "multipole_prologue.%s.atom-%s@p%d" % (method, side, p.path_id)
                ctx.prove_eq(tag + ".D1-is-dd_qq's-dipole-separation", c["d" + side].a[0], dd, pc=p.pc)
                ctx.prove_eq(tag + ".D2-is-dd_qq's-quadrupole-separation", c["q" + side].a[0], qq, pc=p.pc)
                ctx.prove_eq(tag + ".rho0=ev/(2 g_ss)", c["rho0" + side].a[0], ev / (2 * par["gss"].a[k]), pc=p.pc, replay=replay)
                ctx.prove_eq(tag + ".rho1=additive-term(h_sp, D1)", c["rho1" + side].a[0], Sym(E.uf("rho1", (par["hsp"].a[k].n, dd.n), E.R)), pc=p.pc)
                # the solver is an uninterpreted function: compare its arguments
                got = c["rho2" + side].a[0].n
                if got.op != "uf" or got.val != "rho2":
                    ctx.fail(tag + ".rho2=additive-term(max(0.1, (g_pp-g_p2)/2), D2)", "rho2 handed on is not the result of additive_term_rho2: %s" % E.to_str(got, 200), replay=replay)
                    continue
                ctx.prove_eq(tag + ".rho2=additive-term(max(0.1, (g_pp-g_p2)/2), D2).h_pp", Sym(got.args[0]), hpp_f, pc=p.pc, replay=replay)
                ctx.prove_eq(tag + ".rho2=additive-term(max(0.1, (g_pp-g_p2)/2), D2).D2", Sym(got.args[1]), qq, pc=p.pc)
    # dd_qq itself against the published closed forms
    import seqm.seqm_functions.cal_par as CPm

    fd = ctx.under_contract("seqm.seqm_functions.cal_par:dd_qq")
    for n in (1, 2, 3):
        zs, zp = real("zs"), real("zp")

        def thunk2():
            assume(zs > 0)
            assume(zp > 0)
            return fd(st.tensor([float(n)]), st.T(np.array([zs], dtype=object), st.float64, True), st.T(np.array([zp], dtype=object), st.float64, True))

        ex = ctx.explore(thunk2, name="dd_qq n=%d" % n)
        for p in ex.paths:
            if p.raised is not None:
                if isinstance(p.raised, Unmodelled):
                    raise p.raised
                ctx.fail("dd_qq.n=%d.raises" % n, repr(p.raised))
                continue
            dd, qq = p.value
            half = Fraction(2 * n + 1, 2)
            spec_dd = Sym(E.mul(E.const(Fraction(2 * n + 1)), E.powr((4 * zs * zp).n, half), E.powr((zs + zp).n, -(2 * n + 2)), E.powr(E.const(Fraction(3)), Fraction(-1, 2))))
            spec_qq = Sym(E.mul(E.powr(E.const(Fraction(4 * n * n + 6 * n + 2, 20)), Fraction(1, 2)), E.powr(zp.n, -1)))
            ctx.prove_eq("dd_qq.n=%d.D1=(2n+1)(4 zs zp)^(n+1/2)/(sqrt3 (zs+zp)^(2n+2))" % n, dd.a[0], spec_dd, pc=list(p.pc) + [zs > 0, zp > 0])
            ctx.prove_eq("dd_qq.n=%d.D2=sqrt((4n^2+6n+2)/20)/zp" % n, qq.a[0], spec_qq, pc=list(p.pc) + [zs > 0, zp > 0])
    ctx.assume_note("multipole_prologue: pair O-C (both heavy, principal quantum number 2); d-orbital additive terms (PM6) not covered; secant solvers, dd_qq (in the prologue) and POIJ are uninterpreted functions")


TASKS_EXTRA = ["core_core_pm6", "extra_pm6_tables"]


def fock_inputs(padded=False):
    from contracts.es_common import batch_description

    d = batch_description(padded)
    n = 4 * d.molsize
    nat = len(d.flat)
    # symmetric trial density per molecule, Hcore with upper triangle only (as built by hcore.py)
    P = st.zeros(d.nmol, n, n)
    Mfull = st.zeros(d.nmol, n, n)
    for m in range(d.nmol):
        for i in range(n):
            for j in range(i, n):
                P.a[m, i, j] = P.a[m, j, i] = real("P_%d_%d_%d" % (m, i, j))
                Mfull.a[m, i, j] = real("H_%d_%d_%d" % (m, i, j))
    M = Mfull.reshape(d.nmol, d.molsize, 4, d.molsize, 4).transpose(2, 3).reshape(d.nmol * d.molsize * d.molsize, 4, 4).clone()
    w = st.symbolic((len(d.pairs), 10, 10), "w")
    onec = {k: st.symbolic((nat,), k) for k in ("gss", "gpp", "gsp", "gp2", "hsp")}
    return d, P, Mfull, M, w, onec


def replay_fock(uhf):
    """Real torch: the real fock / fock_u_batch on random symmetric densities and integral blocks vs the spec in floats."""
    def rp(model):
        import torch
        from spec import nddo
        from contracts.es_common import batch_description

        torch.set_default_dtype(torch.float64)
        g = torch.Generator().manual_seed(11)
        d = batch_description(False)
        n, nat, npairs = 4 * d.molsize, len(d.flat), len(d.pairs)
        ti = lambda t: torch.tensor(np.asarray(t.a, dtype=np.int64))
        sym = lambda x: 0.5 * (x + x.transpose(-1, -2))
        H = torch.triu(torch.rand(d.nmol, n, n, generator=g))
        M = H.reshape(d.nmol, d.molsize, 4, d.molsize, 4).transpose(2, 3).reshape(d.nmol * d.molsize * d.molsize, 4, 4).clone()
        w = torch.rand(npairs, 10, 10, generator=g)
        oc = {k: torch.rand(nat, generator=g) for k in ("gss", "gpp", "gsp", "gp2", "hsp")}
        if uhf:
            from seqm.seqm_functions.fock_u_batch import fock_u_batch as f
            P = sym(torch.rand(d.nmol, 2, n, n, generator=g))
        else:
            from seqm.seqm_functions.fock import fock as f
            P = sym(torch.rand(d.nmol, n, n, generator=g))
        F = f(d.nmol, d.molsize, P, M, ti(d.maskd), ti(d.mask), ti(d.idxi), ti(d.idxj), w, None, oc["gss"], oc["gpp"], oc["gsp"], oc["gp2"], oc["hsp"], "AM1", None, None, None, ti(d.Z), None, None)
        worst = 0.0
        where = None
        for m in range(d.nmol):
            atoms = [a for a, (mm, i, z) in enumerate(d.flat) if mm == m]
            loc = {a: d.flat[a][1] for a in atoms}
            pairs = [(loc[a], loc[b]) for (a, b) in d.pairs if d.flat[a][0] == m]
            wk = [w[k].tolist() for k, (a, b) in enumerate(d.pairs) if d.flat[a][0] == m]
            o = {loc[a]: (float(oc["gss"][a]), float(oc["gsp"][a]), float(oc["gpp"][a]), float(oc["gp2"][a]), float(oc["hsp"][a])) for a in atoms}
            Hm = [[float(H[m, min(i, j), max(i, j)]) for j in range(n)] for i in range(n)]
            if uhf:
                spec = nddo.fock_spec_uhf(d.molsize, P[m, 0].tolist(), P[m, 1].tolist(), Hm, pairs, wk, o)
                for s_ in range(2):
                    dev = (F[m, s_] - torch.tensor(spec[s_], dtype=torch.float64)).abs()
                    if float(dev.max()) > worst:
                        worst, where = float(dev.max()), (m, s_, int(dev.argmax()) // n, int(dev.argmax()) % n)
            else:
                spec = nddo.fock_spec(d.molsize, P[m].tolist(), Hm, pairs, wk, o)
                dev = (F[m] - torch.tensor(spec, dtype=torch.float64)).abs()
                if float(dev.max()) > worst:
                    worst, where = float(dev.max()), (m, int(dev.argmax()) // n, int(dev.argmax()) % n)
        return {"reproduced": bool(worst > 1e-9), "max_abs_deviation_from_textbook_fock": worst, "where": where, "open_shell": uhf}
    return rp


def task_fock(ctx):
    """O3: fock(P) = h + J - K/2 with the dense NDDO integral tensor unpacked from w and the one-centre table; symmetric."""
    from spec import nddo

    fn = ctx.under_contract("seqm.seqm_functions.fock:fock")
    ctx.under_contract("seqm.seqm_functions.fock:_one_center")
    ctx.under_contract("seqm.seqm_functions.fock:_two_center")
    d, P, Mfull, M, w, onec = fock_inputs()

    def thunk():
        return fn(d.nmol, d.molsize, P, M, d.maskd, d.mask, d.idxi, d.idxj, w, None, onec["gss"], onec["gpp"], onec["gsp"], onec["gp2"], onec["hsp"], "AM1",
                  None, None, None, d.Z, None, None)

    ex = ctx.explore(thunk, name="fock")
    if len(ex.paths) != 1 or ex.paths[0].raised is not None:
        ctx.error("paths", "%r %s" % ([p.raised for p in ex.paths], ex.paths[0].notes.get("traceback", "")[-700:] if ex.paths else ""))
        return
    F = ex.paths[0].value
    n = 4 * d.molsize
    for m in range(d.nmol):
        atoms = [a for a, (mm, i, z) in enumerate(d.flat) if mm == m]
        loc = {a: d.flat[a][1] for a in atoms}
        pairs = [(loc[a], loc[b]) for (a, b) in d.pairs if d.flat[a][0] == m]
        wk = [[[w.a[k, x, y] for y in range(10)] for x in range(10)] for k, (a, b) in enumerate(d.pairs) if d.flat[a][0] == m]
        oc = {loc[a]: (onec["gss"].a[a], onec["gsp"].a[a], onec["gpp"].a[a], onec["gp2"].a[a], onec["hsp"].a[a]) for a in atoms}
        Pm = [[P.a[m, i, j] for j in range(n)] for i in range(n)]
        Hm = [[Mfull.a[m, min(i, j), max(i, j)] for j in range(n)] for i in range(n)]
        spec = nddo.fock_spec(d.molsize, Pm, Hm, pairs, wk, oc)
        for i in range(n):
            for j in range(n):
                ctx.prove_eq("mol%d.F[%d,%d]=h+J-K/2" % (m, i, j), F.a[m, i, j], spec[i][j], shape="batch [OH, HH]", replay=replay_fock(False))
        # non-interference (C05): row m mentions only molecule m's density / Hcore and its own pairs / atoms
    ctx.canary_eq("exchange-factor", F.a[0, 0, 4], Mfull.a[0, 0, 4])
    ctx.assume_note("shape-bounded: batch [O-H, H-H], arbitrary symmetric densities and integral blocks; Hcore given as its upper triangle (precondition from hcore.py)")


def replay_hcore_far_pair(model):
    """real hcore for AM1 H2 ... H2 with the two molecules 24 Angstrom apart (beyond the 40 bohr overlap cutoff, inside the pair
    cutoff): the diagonal block of EVERY atom must contain the attraction to the cores of the far atoms (compared with the sum of
    U and the e1b/e2a blocks of the real two-centre routine)."""
    import torch
    from seqm.seqm_functions.constants import Constants
    from seqm.Molecule import Molecule
    from seqm.ElectronicStructure import Electronic_Structure
    import seqm.seqm_functions.hcore as HC

    torch.set_default_dtype(torch.float64)
    params = {"method": "AM1", "scf_eps": 1e-8, "scf_converger": [1], "sp2": [False, 1e-5], "elements": [0, 1], "learned": [], "pair_outer_cutoff": 1e10, "eig": True}
    xyz = torch.tensor([[[0.0, 0.0, 0.0], [0.74, 0.0, 0.0], [3.0, 24.0, 1.0], [3.0, 24.74, 1.0]]])
    mol = Molecule(Constants(), params, xyz, torch.tensor([[1, 1, 1, 1]]))
    import io, contextlib
    with contextlib.redirect_stdout(io.StringIO()):
        Electronic_Structure(params)(mol)  # fills parser fields and parameters
    got = {}
    real_tetci = HC.TETCI

    def rec(*a, **k):
        out = real_tetci(*a, **k)
        got["e1b"], got["e2a"] = out[1].detach().clone(), out[2].detach().clone()
        return out

    HC.TETCI = rec
    try:
        M = HC.hcore(mol)[0]
    finally:
        HC.TETCI = real_tetci
    want = torch.zeros_like(M)
    want[mol.maskd, 0, 0] = mol.parameters["U_ss"]
    for o in range(1, 4):
        want[mol.maskd, o, o] = mol.parameters["U_pp"]
    want.index_add_(0, mol.maskd[mol.idxi], got["e1b"])
    want.index_add_(0, mol.maskd[mol.idxj], got["e2a"])
    dev = float((M[mol.maskd] - want[mol.maskd]).abs().max())
    return {"reproduced": dev > 1e-10, "max_abs_deviation_of_a_diagonal_block_eV": dev, "separation_A": 24.0, "pairs": int(len(mol.idxi)), "pairs_beyond_the_overlap_cutoff": int((mol.rij > 40.0).sum())}


def task_hcore_assembly(ctx):
    """O4: hcore assembles  M_AA = diag(U_ss, U_pp x3) + sum_B V_B  (electron-core attraction blocks of EVERY pair the atom
    belongs to, however far apart) and  M_AB = 1/2 (beta_mu + beta_nu) S_mu,nu  for every listed pair within the overlap cutoff
    (0 beyond it); nothing else is written.  Every near/far pattern of the pair distances is a path."""
    from contracts.es_common import ghost_es_molecule

    HC = "seqm.seqm_functions.hcore"
    fn = ctx.under_contract(HC + ":hcore", stubs=["diatom_overlap_matrix_PM6_SP", "TETCI (two_elec_two_center_int)"])
    import seqm.seqm_functions.hcore as HCm

    cutoff = E.frac_of_float(float(HCm.overlap_cutoff))
    rec = {}
    rep = []

    def rp(m_):
        if not rep:
            try:
                rep.append(replay_hcore_far_pair({}))
            except Exception as exc:  # noqa
                rep.append({"reproduced": False, "error": repr(exc)[:300]})
        return rep[0]

    def ov_stub(ni, nj, xij, rij, za, zb, qn):
        rec["S"] = st.symbolic((len(ni), 4, 4), "S")
        return rec["S"]

    def tetci_stub(const, idxi, idxj, ni, nj, xij, rij, Z, *a):
        n = len(ni)
        rec["e1b"], rec["e2a"], rec["w"] = st.symbolic((n, 4, 4), "e1b"), st.symbolic((n, 4, 4), "e2a"), st.symbolic((n, 10, 10), "w")
        rec["tetci_pairs"] = n
        return rec["w"], rec["e1b"], rec["e2a"], st.zeros(n), st.zeros(n), None, None

    def thunk():
        mol = ghost_es_molecule(padded=True)
        mol.const.qn_int = st.tensor([0, 1, 1, 2, 2, 2, 2, 2, 2, 2])
        nat = len(mol.flat)
        mol.parameters["beta"] = st.symbolic((nat, 2), "beta")
        for k in ("F0SD", "G2SD", "rho_core"):
            mol.parameters[k] = st.zeros(nat)
        M, w, *_ = fn(mol)
        return mol, M, dict(rec)

    ex = ctx.explore(thunk, stubs={HC + ":diatom_overlap_matrix_PM6_SP": ov_stub, HC + ":TETCI": tetci_stub}, name="hcore", max_paths=64)
    ok = [p for p in ex.paths if p.raised is None]
    for p in ex.paths:
        if p.raised is not None:
            if isinstance(p.raised, Unmodelled):
                raise p.raised
            ctx.fail("raises@p%d" % p.path_id, repr(p.raised) + p.notes.get("traceback", "")[-700:])
    if len(ok) < 2:
        ctx.error("paths", "expected near and far paths, got %d" % len(ok))
        return
    all_near_seen = False
    for p in ok:
        mol, M, r_ = p.value
        npairs = len(mol.pairs)
        # which pairs this path treats as near (decided by the path condition)
        near = []
        for k in range(npairs):
            c_near = (mol.rij.a[k] <= S(cutoff))
            st_near = ctx.decide_under(p.pc, c_near) if hasattr(ctx, "decide_under") else None
            if st_near is None:
                from pyvc import smt as _smt

                s1, _, _ = _smt.check_sat([E._tobool(E.node_of(c)) for c in p.pc] + [E.not_(c_near.n)], 10.0, want_model=False)
                st_near = (s1 == "unsat")
            near.append(bool(st_near))
        all_near_seen = all_near_seen or all(near)
        tagp = "near=%s" % "".join("N" if x else "F" for x in near)
        ctx.prove("%s.two-centre-routine-is-called-for-every-pair" % tagp, E.const(r_.get("tetci_pairs") == npairs), pc=p.pc, replay=rp)
        nblk = mol.nmol * mol.molsize * mol.molsize
        want = {b: [[S(0.0) for _ in range(4)] for _ in range(4)] for b in range(nblk)}
        par = mol.parameters
        for a in range(len(mol.flat)):
            b = int(mol.maskd.a[a])
            want[b][0][0] = want[b][0][0] + par["U_ss"].a[a]
            for o in range(1, 4):
                want[b][o][o] = want[b][o][o] + par["U_pp"].a[a]
        kn = 0
        for k, (a, c) in enumerate(mol.pairs):
            ba, bc = int(mol.maskd.a[a]), int(mol.maskd.a[c])
            for i in range(4):
                for j in range(4):
                    want[ba][i][j] = want[ba][i][j] + r_["e1b"].a[k, i, j]
                    want[bc][i][j] = want[bc][i][j] + r_["e2a"].a[k, i, j]
                    if near[k]:
                        bi = par["beta"].a[a, 0 if i == 0 else 1]
                        bj = par["beta"].a[c, 0 if j == 0 else 1]
                        want[int(mol.mask.a[k])][i][j] = Fraction(1, 2) * (bi + bj) * r_["S"].a[kn, i, j]
            if near[k]:
                kn += 1
        for b in range(nblk):
            for i in range(4):
                for j in range(4):
                    ctx.prove_eq("%s.M[block%d,%d,%d]" % (tagp, b, i, j), M.a[b, i, j], want[b][i][j], pc=p.pc, shape="batch [OHH, HH+pad]", replay=rp)
    if not all_near_seen:
        ctx.error("paths.all-near", "the path with every pair inside the overlap cutoff was not explored")
    ctx.assume_note("overlap and two-centre integral kernels replaced by symbolic stubs; shape-bounded batch [OHH, HH+pad]; blocks of padding slots and of the lower triangle stay zero; pair distances symbolic (every near/far pattern w.r.t. the overlap cutoff)")


def task_fock_uhf(ctx):
    """O3 (open shell): fock_u_batch = h + J[Pa+Pb] - K[P_same_spin] for both spin channels, arbitrary symmetric and
    DIFFERENT alpha / beta trial densities."""
    from spec import nddo

    fn = ctx.under_contract("seqm.seqm_functions.fock_u_batch:fock_u_batch")
    ctx.under_contract("seqm.seqm_functions.fock_u_batch:_one_center_u")
    ctx.under_contract("seqm.seqm_functions.fock_u_batch:_two_center_u")
    d, P, Mfull, M, w, onec = fock_inputs()
    n = 4 * d.molsize
    Pab = st.zeros(d.nmol, 2, n, n)
    for m in range(d.nmol):
        for s_, nm in enumerate(("Pa", "Pb")):
            for i in range(n):
                for j in range(i, n):
                    Pab.a[m, s_, i, j] = Pab.a[m, s_, j, i] = real("%s_%d_%d_%d" % (nm, m, i, j))

    def thunk():
        return fn(d.nmol, d.molsize, Pab, M, d.maskd, d.mask, d.idxi, d.idxj, w, None, onec["gss"], onec["gpp"], onec["gsp"], onec["gp2"], onec["hsp"], "AM1",
                  None, None, None, d.Z, None, None)

    ex = ctx.explore(thunk, name="fock_u_batch")
    if len(ex.paths) != 1 or ex.paths[0].raised is not None:
        ctx.error("paths", "%r %s" % ([p.raised for p in ex.paths], ex.paths[0].notes.get("traceback", "")[-700:] if ex.paths else ""))
        return
    F = ex.paths[0].value
    for m in range(d.nmol):
        atoms = [a for a, (mm, i, z) in enumerate(d.flat) if mm == m]
        loc = {a: d.flat[a][1] for a in atoms}
        pairs = [(loc[a], loc[b]) for (a, b) in d.pairs if d.flat[a][0] == m]
        wk = [[[w.a[k, x, y] for y in range(10)] for x in range(10)] for k, (a, b) in enumerate(d.pairs) if d.flat[a][0] == m]
        oc = {loc[a]: (onec["gss"].a[a], onec["gsp"].a[a], onec["gpp"].a[a], onec["gp2"].a[a], onec["hsp"].a[a]) for a in atoms}
        Pa = [[Pab.a[m, 0, i, j] for j in range(n)] for i in range(n)]
        Pb = [[Pab.a[m, 1, i, j] for j in range(n)] for i in range(n)]
        Hm = [[Mfull.a[m, min(i, j), max(i, j)] for j in range(n)] for i in range(n)]
        spec = nddo.fock_spec_uhf(d.molsize, Pa, Pb, Hm, pairs, wk, oc)
        for s_, nm in enumerate(("alpha", "beta")):
            for i in range(n):
                for j in range(n):
                    ctx.prove_eq("mol%d.F_%s[%d,%d]=h+J[Pa+Pb]-K[P_%s]" % (m, nm, i, j, nm), F.a[m, s_, i, j], spec[s_][i][j], shape="batch [OH, HH], UHF", replay=replay_fock(True))
    ctx.canary_eq("exchange-uses-same-spin", F.a[0, 0, 1, 2], F.a[0, 1, 1, 2])


TASKS_QUICK = ["constant_tables", "overlap_aux_integrals", "multipole_prologue", "local_frame", "core_core", "fock", "fock_uhf", "hcore_assembly"]
TASKS_THOROUGH = TASKS_QUICK
