"""C15 -- results depend only on the call's inputs, not on process history: frame / freshness obligations over the
shared mutable locations of the package (class attributes, module-level caches, mutable default arguments, the caller's
settings dictionary)."""
import ast
import inspect
import textwrap

import numpy as np

from pyvc.api import *
from pyvc import symtorch as st, expr as E


def _src_tree(obj):
    return ast.parse(textwrap.dedent(inspect.getsource(obj)))


def _class_attr_loads(tree, cls_names):
    out = []
    for n in ast.walk(tree):
        if isinstance(n, ast.Attribute) and isinstance(n.ctx, ast.Load) and isinstance(n.value, ast.Name) and n.value.id in cls_names:
            out.append((n.value.id, n.attr, n.lineno))
    return out


def _class_attr_stores(tree, cls_names):
    out = set()
    for n in ast.walk(tree):
        if isinstance(n, ast.Attribute) and isinstance(n.ctx, ast.Store) and isinstance(n.value, ast.Name) and n.value.id in cls_names:
            out.add(n.attr)
    return out


def replay_scf_backward_history(model):
    """Real code: gradient of the HOMO-LUMO gap of job A (AM1 water, scf_backward=1) computed (i) in isolation and (ii) with the forward pass of
    another job B (different SCF threshold) run between A's forward and A's backward."""
    import torch
    from seqm.seqm_functions.constants import Constants
    from seqm.Molecule import Molecule
    from seqm.basics import Energy

    torch.set_default_dtype(torch.float64)

    def make(eps, method="AM1", coords=None):
        params = {"method": method, "scf_eps": eps, "scf_converger": [2, 0.0], "sp2": [False, 1e-5], "elements": [0, 1, 8], "learned": [], "pair_outer_cutoff": 1e10,
                  "eig": True, "scf_backward": 1, "scf_backward_eps": eps}
        c = coords if coords is not None else torch.tensor([[[0.0, 0, 0], [0.96, 0.0, 0.0], [-0.24, 0.93, 0.0]]])
        mol = Molecule(Constants(), params, c.clone(), torch.tensor([[8, 1, 1]]))
        return params, mol

    def grad_of_A(interleave):
        pA, mA = make(1e-10)
        enA = Energy(pA)
        mA.coordinates.requires_grad_(True)
        out = enA(mA, all_terms=True)
        Hf = out[6]  # the HOMO-LUMO gap: not variational in the density, so the SCF adjoint actually matters
        if interleave:
            pB, mB = make(1e-2, coords=torch.tensor([[[0.0, 0, 0], [1.10, 0.0, 0.0], [-0.30, 1.05, 0.0]]]))
            Energy(pB)(mB, all_terms=True)
        g, = torch.autograd.grad(Hf.sum(), mA.coordinates)
        return g

    g0 = grad_of_A(False)
    g1 = grad_of_A(True)
    diff = float((g0 - g1).abs().max())
    return {"reproduced": bool(diff > 1e-9), "max_abs_gradient_difference_eV_per_A": diff,
            "history": "forward(A: scf_eps 1e-10), forward(B: scf_eps 1e-2), backward(A)  vs  forward(A), backward(A)"}


def replay_elements(model):
    import torch
    from seqm.seqm_functions.constants import Constants
    from seqm.Molecule import Molecule
    from seqm.ElectronicStructure import Electronic_Structure

    torch.set_default_dtype(torch.float64)

    def base():
        return {"method": "AM1", "scf_eps": 1e-8, "scf_converger": [2, 0.0], "sp2": [False, 1e-5], "learned": [], "pair_outer_cutoff": 1e10, "eig": True}

    nh3 = (torch.tensor([[7, 1, 1, 1]]), torch.tensor([[[0.0, 0, 0.1], [0.94, 0, -0.27], [-0.47, 0.81, -0.27], [-0.47, -0.81, -0.27]]]))
    h2o = (torch.tensor([[8, 1, 1]]), torch.tensor([[[0.0, 0, 0], [0.96, 0.0, 0.0], [-0.24, 0.93, 0.0]]]))

    def run(params, sp, xyz):
        mol = Molecule(Constants(), params, xyz.clone(), sp)
        Electronic_Structure(params)(mol)
        return float(mol.Etot[0])

    fresh = run(base(), *nh3)
    reused = base()
    run(reused, *h2o)
    try:
        second = run(reused, *nh3)
        err = None
    except Exception as exc:  # noqa
        second, err = None, repr(exc)[:200]
    bad = err is not None or second != second or abs(second - fresh) > 1e-8
    return {"reproduced": bool(bad), "Etot_NH3_fresh_dict_eV": fresh, "Etot_NH3_after_H2O_with_same_dict_eV": second, "exception": err, "elements_after_first_job": reused.get("elements")}


def _quiet(fn):
    import contextlib, io

    with contextlib.redirect_stdout(io.StringIO()):
        try:
            return fn({})
        except Exception as exc:  # noqa
            return {"reproduced": False, "error": repr(exc)[:300]}


def task_autograd_functions(ctx):
    """O2: a custom autograd Function's backward must not read class-level state that some forward/__init__ writes
    (another job's forward may run between this job's forward and backward)."""
    import seqm.seqm_functions.scf_loop as S_
    import seqm.seqm_functions.cal_par as CP
    import seqm.seqm_functions.diag as DG
    import torch

    classes = []
    for mod in (S_, CP, DG):
        for name, obj in vars(mod).items():
            if isinstance(obj, type) and issubclass(obj, torch.autograd.Function) and obj.__module__ == mod.__name__:
                classes.append((mod, name, obj))
    if len(classes) < 3:
        ctx.error("anchors", "expected SCF, SCF0, additive_term_rho1/2, degen_symeig; found %r" % [c[1] for c in classes])
        return
    family = {"SCF", "SCF0"}
    for mod, name, cls in classes:
        names = family if name in family else {name}
        written = set()
        for c in [k for (_, n2, k) in classes if n2 in names]:
            for meth in ("__init__", "forward"):
                f = c.__dict__.get(meth)
                if f is not None:
                    f = f.__func__ if isinstance(f, staticmethod) else f
                    written |= _class_attr_stores(_src_tree(f), names)
        bw = cls.__dict__.get("backward")
        if bw is None:
            continue
        bw = bw.__func__ if isinstance(bw, staticmethod) else bw
        ctx.under_contract("%s:%s.backward" % (mod.__name__, name), note="shared-state read set (AST)")
        stale = sorted({(c, a) for (c, a, ln) in _class_attr_loads(_src_tree(bw), names) if a in written})
        if stale:
            for c, a in stale:
                ctx.fail("%s.backward.reads-only-its-own-invocation-state[%s.%s]" % (name, c, a),
                         "%s.backward loads the class attribute %s.%s, which %s.__init__/forward of ANY later job overwrites; the value seen depends on process history" % (name, c, a, c),
                         replay=_quiet(replay_scf_backward_history) if a == "scf_backward_eps" else None, witness_class="class-attribute-read-in-backward:" + a)
        else:
            ctx.ok("%s.backward.reads-only-its-own-invocation-state" % name, "frames")
    # forward reads SCF.sp2 / SCF.converger: fresh, because scf_loop constructs SCF(...) in the same expression as .apply
    # every `.apply` of the SCF family used in scf_loop is taken directly from a constructor call in the same expression
    tree = _src_tree(S_.scf_loop)
    applies = [n for n in ast.walk(tree) if isinstance(n, ast.Attribute) and n.attr == "apply"]
    fam = [n for n in applies if isinstance(n.value, ast.Call) and isinstance(n.value.func, ast.Name) and n.value.func.id in ("SCF", "SCF0")]
    detached = [ast.unparse(n) for n in applies if n not in fam and "SCF" in ast.unparse(n)]
    if not fam and not detached:
        ctx.error("SCF.forward.anchor", "scf_loop no longer takes `.apply` from the SCF family (contract anchor moved)")
    elif detached:
        ctx.fail("SCF.forward.class-state-written-in-the-same-call", "`.apply` taken from %r, not from a constructor call in the same expression: another job's constructor can run in between" % detached)
    else:
        ctx.ok("SCF.forward.class-state-written-in-the-same-call", "frames", detail="%d constructor-and-apply expressions" % len(fam))



# ---- module-level state written by functions: a generic cache contract ------------------------------------------------
_MUT_CALLS = {"dict", "list", "set", "defaultdict", "OrderedDict", "deque", "Counter", "WeakKeyDictionary", "WeakValueDictionary"}
_MUT_METHODS = {"setdefault", "update", "append", "add", "extend", "insert", "__setitem__"}
_TORCH_FACTORIES = {"zeros", "ones", "empty", "full", "tensor", "as_tensor", "eye", "rand", "randn", "linspace", "arange", "zeros_like_default", "FloatTensor", "Tensor"}
_AMBIENT_CALLS = {"get_default_dtype": "ambient:default-dtype", "get_default_device": "ambient:default-device", "is_grad_enabled": "ambient:grad-mode", "get_num_threads": "ambient:num-threads",
                  "getenv": "ambient:environment", "time": "ambient:clock", "perf_counter": "ambient:clock", "random": "ambient:rng", "rand": "ambient:rng", "randn": "ambient:rng", "getcwd": "ambient:cwd"}


def _expr_deps(node, env, params, local_names):
    """names an expression's value can depend on: function parameters, ambient process state read by a call, and (through
    env) whatever the locals it loads depend on.  Module-level names and builtins are constants of the process."""
    out = set()
    for n in ast.walk(node):
        if isinstance(n, ast.Name) and isinstance(n.ctx, ast.Load):
            if n.id in params:
                out.add(n.id)
            elif n.id in local_names:
                out |= env.get(n.id, set())
        elif isinstance(n, ast.Call):
            fname = n.func.attr if isinstance(n.func, ast.Attribute) else (n.func.id if isinstance(n.func, ast.Name) else None)
            owner = ast.unparse(n.func.value) if isinstance(n.func, ast.Attribute) else ""
            if fname in _TORCH_FACTORIES and owner in ("torch", "th") and not any(k.arg == "dtype" for k in n.keywords):
                # torch.tensor(python ints) is long whatever the default; floats follow the default dtype
                ints_only = fname in ("tensor", "as_tensor") and n.args and all(isinstance(c, ast.Constant) and isinstance(c.value, (int, bool)) for c in ast.walk(n.args[0]) if isinstance(c, ast.Constant)) and not any(isinstance(c, (ast.Name, ast.Call, ast.Attribute)) for c in ast.walk(n.args[0]))
                if not ints_only:
                    out.add("ambient:default-dtype")
            if fname in _AMBIENT_CALLS and (owner in ("torch", "os", "time", "random", "np.random", "numpy.random") or (fname in ("get_default_dtype", "get_default_device"))):
                out.add(_AMBIENT_CALLS[fname])
            if fname == "open" and not owner:
                out.add("external:file-content")
        elif isinstance(n, ast.Attribute) and ast.unparse(n) == "os.environ":
            out.add("ambient:environment")
    return out


def _function_dataflow(fn):
    """flow-insensitive dependence sets of a function's locals, with control dependence on enclosing tests and in-place
    stores into a local counted as assignments to it (fixpoint)."""
    a = fn.args
    params = {x.arg for x in a.posonlyargs + a.args + a.kwonlyargs} | ({a.vararg.arg} if a.vararg else set()) | ({a.kwarg.arg} if a.kwarg else set())
    local_names = set()
    for n in ast.walk(fn):
        if isinstance(n, ast.Name) and isinstance(n.ctx, ast.Store):
            local_names.add(n.id)
    local_names -= params and set()
    env = {}
    edges = []  # (target local, expression nodes it takes its value from, control tests)

    def tnames(t):
        return [x.id for x in ast.walk(t) if isinstance(x, ast.Name) and isinstance(x.ctx, ast.Store)]

    def base_name(t):
        while isinstance(t, (ast.Subscript, ast.Attribute)):
            t = t.value
        return t.id if isinstance(t, ast.Name) else None

    def visit(stmts, ctrl):
        for st_ in stmts:
            if isinstance(st_, ast.Assign):
                for t in st_.targets:
                    for nm in tnames(t):
                        edges.append((nm, [st_.value], ctrl))
                    if isinstance(t, (ast.Subscript, ast.Attribute)) and base_name(t):
                        edges.append((base_name(t), [st_.value, t], ctrl))
            elif isinstance(st_, ast.AugAssign):
                nm = base_name(st_.target)
                if nm:
                    edges.append((nm, [st_.value, st_.target], ctrl))
            elif isinstance(st_, ast.AnnAssign) and st_.value is not None:
                nm = base_name(st_.target)
                if nm:
                    edges.append((nm, [st_.value], ctrl))
            elif isinstance(st_, (ast.For, ast.AsyncFor)):
                for nm in tnames(st_.target):
                    edges.append((nm, [st_.iter], ctrl))
                visit(st_.body, ctrl + [st_.iter])
                visit(st_.orelse, ctrl + [st_.iter])
            elif isinstance(st_, ast.While):
                visit(st_.body, ctrl + [st_.test])
                visit(st_.orelse, ctrl + [st_.test])
            elif isinstance(st_, ast.If):
                visit(st_.body, ctrl + [st_.test])
                visit(st_.orelse, ctrl + [st_.test])
            elif isinstance(st_, (ast.With, ast.AsyncWith)):
                for it in st_.items:
                    if it.optional_vars is not None:
                        for nm in tnames(it.optional_vars):
                            edges.append((nm, [it.context_expr], ctrl))
                visit(st_.body, ctrl)
            elif isinstance(st_, ast.Try):
                visit(st_.body, ctrl)
                for h in st_.handlers:
                    visit(h.body, ctrl)
                visit(st_.orelse, ctrl)
                visit(st_.finalbody, ctrl)
            elif isinstance(st_, ast.Expr) and isinstance(st_.value, ast.Call) and isinstance(st_.value.func, ast.Attribute):
                # in-place method on a local: x.append(e), x.copy_(e), x.add_(e)
                nm = base_name(st_.value.func.value)
                if nm:
                    edges.append((nm, list(st_.value.args) + [k.value for k in st_.value.keywords], ctrl))
            # walrus targets anywhere in the statement
            for w in ast.walk(st_):
                if isinstance(w, ast.NamedExpr):
                    edges.append((w.target.id, [w.value], ctrl))

    visit(fn.body, [])
    changed = True
    while changed:
        changed = False
        for nm, exprs, ctrl in edges:
            d = set()
            for e in exprs + ctrl:
                d |= _expr_deps(e, env, params, local_names)
            if nm in params:
                d.add(nm)
            if not d <= env.get(nm, set()):
                env[nm] = env.get(nm, set()) | d
                changed = True
    return env, params, local_names


def _module_state_sites():
    """every statement in the package, inside a function, that stores into a module-level container of its own module (or
    rebinds a module-level name through `global`), and every memoising decorator."""
    import seqm, pkgutil, importlib.util

    sites = []
    for mi in pkgutil.walk_packages(seqm.__path__, "seqm."):
        try:
            origin = importlib.util.find_spec(mi.name).origin
            tree = ast.parse(open(origin).read())
        except Exception:  # noqa
            continue
        containers = set()
        for n in tree.body:
            v, tg = None, []
            if isinstance(n, ast.Assign):
                tg, v = [t.id for t in n.targets if isinstance(t, ast.Name)], n.value
            elif isinstance(n, ast.AnnAssign) and isinstance(n.target, ast.Name) and n.value is not None:
                tg, v = [n.target.id], n.value
            if v is not None and (isinstance(v, (ast.Dict, ast.List, ast.Set, ast.ListComp, ast.DictComp, ast.SetComp)) or (isinstance(v, ast.Call) and (getattr(v.func, "id", None) or getattr(v.func, "attr", None)) in _MUT_CALLS)):
                containers |= set(tg)
        for fn in ast.walk(tree):
            if not isinstance(fn, (ast.FunctionDef, ast.AsyncFunctionDef)):
                continue
            for d in fn.decorator_list:
                if "cache" in ast.unparse(d):
                    sites.append({"module": mi.name, "function": fn.name, "kind": "memoising-decorator", "container": ast.unparse(d), "line": fn.lineno, "fn": fn, "key": None, "value": None})
            globs = {g for n in ast.walk(fn) if isinstance(n, ast.Global) for g in n.names}
            rebound = {n.id for n in ast.walk(fn) if isinstance(n, ast.Name) and isinstance(n.ctx, ast.Store)} | {x.arg for x in fn.args.args + fn.args.kwonlyargs}
            shadow = rebound - globs
            for n in ast.walk(fn):
                if isinstance(n, (ast.Assign, ast.AugAssign)):
                    for t in (n.targets if isinstance(n, ast.Assign) else [n.target]):
                        if isinstance(t, ast.Subscript) and isinstance(t.value, ast.Name) and t.value.id in containers and t.value.id not in shadow:
                            sites.append({"module": mi.name, "function": fn.name, "kind": "store", "container": t.value.id, "line": n.lineno, "fn": fn, "key": t.slice, "value": n.value})
                        if isinstance(t, ast.Name) and t.id in globs:
                            sites.append({"module": mi.name, "function": fn.name, "kind": "global-rebind", "container": t.id, "line": n.lineno, "fn": fn, "key": None, "value": n.value})
                if isinstance(n, ast.Call) and isinstance(n.func, ast.Attribute) and n.func.attr in _MUT_METHODS and isinstance(n.func.value, ast.Name) and n.func.value.id in containers and n.func.value.id not in shadow:
                    key = n.args[0] if n.func.attr in ("setdefault", "__setitem__") and n.args else None
                    val = n.args[1] if n.func.attr in ("setdefault", "__setitem__") and len(n.args) > 1 else (n.args[0] if n.args else None)
                    sites.append({"module": mi.name, "function": fn.name, "kind": "method:" + n.func.attr, "container": n.func.value.id, "line": n.lineno, "fn": fn, "key": key, "value": val})
    return sites


_DTYPE_HISTORY_SCRIPT = r"""
import json, sys, io, contextlib
import torch
from seqm.seqm_functions.constants import Constants
from seqm.Molecule import Molecule
from seqm.ElectronicStructure import Electronic_Structure
def job(dt, species, xyz):
    torch.set_default_dtype(dt)
    params = {"method": "AM1", "scf_eps": 1e-9 if dt == torch.float64 else 1e-4, "scf_converger": [1], "sp2": [False, 1e-5], "elements": [0, 1, 8], "learned": [], "pair_outer_cutoff": 1e10, "eig": True}
    mol = Molecule(Constants(), params, torch.tensor(xyz, dtype=dt), torch.tensor(species))
    Electronic_Structure(params)(mol)
    return {"Etot": repr(float(mol.Etot[0])), "force": [repr(float(v)) for v in mol.force.reshape(-1)]}
water = ([[8, 1, 1]], [[[0.0, 0.0, 0.0], [0.96, 0.0, 0.0], [-0.24, 0.93, 0.0]]])
with contextlib.redirect_stdout(io.StringIO()):
    if sys.argv[1] == "history":
        job(torch.float32, *water)
    res = job(torch.float64, *water)
print("RESULT" + json.dumps(res))
"""


def replay_dtype_history(model=None):
    """real code, two fresh interpreters: float64 AM1 water (Etot, forces) as the first job of a process, and the same call
    after a float32 job on the same molecule; the property demands bitwise the same numbers."""
    import json, subprocess, sys, os

    env = dict(os.environ, PYTHONWARNINGS="ignore", OMP_NUM_THREADS="2")
    got = {}
    for mode in ("fresh", "history"):
        p = subprocess.run([sys.executable, "-c", _DTYPE_HISTORY_SCRIPT, mode], capture_output=True, text=True, timeout=600, env=env)
        for line in p.stdout.splitlines():
            if line.startswith("RESULT"):
                got[mode] = json.loads(line[6:])
        if mode not in got:
            return {"reproduced": False, "error": (p.stderr or p.stdout)[-300:]}
    return {"reproduced": got["fresh"] != got["history"], "float64_water_as_first_job": got["fresh"], "float64_water_after_a_float32_job_in_the_same_process": got["history"]}


def task_caches(ctx):
    """O3: module-level caches: the key determines the value (id(base) keys only for module-level constants that are never
    mutated in place)."""
    import seqm.seqm_functions.fock as FK

    ctx.under_contract("seqm.seqm_functions.fock:_cached_tensor")
    ctx.under_contract("seqm.seqm_functions.fock:_cached_index")
    tree = ast.parse(inspect.getsource(FK))
    module_consts = {t.id for n in tree.body if isinstance(n, ast.Assign) for t in n.targets if isinstance(t, ast.Name)}
    bad_args, mutated = [], []
    for n in ast.walk(tree):
        if isinstance(n, ast.Call) and isinstance(n.func, ast.Name) and n.func.id in ("_cached_tensor", "_cached_index"):
            a = n.args[0]
            ok = isinstance(a, ast.Name) and a.id in module_consts
            if isinstance(a, ast.IfExp):
                ok = all(isinstance(x, ast.Name) and x.id in module_consts for x in (a.body, a.orelse))
            if not ok:
                bad_args.append(ast.unparse(a))
        if isinstance(n, (ast.Assign, ast.AugAssign)):
            tgts = n.targets if isinstance(n, ast.Assign) else [n.target]
            for t in tgts:
                if isinstance(t, ast.Subscript) and isinstance(t.value, ast.Name) and t.value.id in module_consts and t.value.id not in ("_WEIGHT_CACHE", "_INDEX_CACHE"):
                    mutated.append(t.value.id)
    (ctx.ok if not bad_args else ctx.fail)("cache-keys-name-module-level-constants", "frames" if not bad_args else "cached objects that are not module-level constants: %r" % bad_args)
    (ctx.ok if not mutated else ctx.fail)("cached-constants-never-mutated-in-place", "frames" if not mutated else "in-place writes to %r" % mutated)
    for fname in ("_cached_tensor", "_cached_index"):
        s = inspect.getsource(getattr(FK, fname))
        ok = "cached = base.to(" in s and "key = (id(base), device" in s
        (ctx.ok if ok else ctx.fail)("%s.value-is-a-function-of-the-key" % fname, "frames" if ok else "cache fill rule changed")
    # whole package: every function-level store into module-level state is a cache whose value is determined by its key
    sites = _module_state_sites()
    ctx.notes.append("module-level state written inside functions (whole package): %s" % ["%s:%s %s %s" % (s_["module"], s_["function"], s_["kind"], s_["container"]) for s_ in sites])
    if not sites:
        ctx.error("module-state.sites", "no module-level cache found (fock has two): the scan is vacuous")
    for s_ in sites:
        ctx.under_contract("%s:%s" % (s_["module"], s_["function"]), note="cache contract: stored value is a function of the key")
        name = "module-state.%s.%s[%s].stored-value-is-determined-by-the-key" % (s_["module"].split(".")[-1], s_["function"], s_["container"])
        if s_["kind"] in ("memoising-decorator", "global-rebind") or s_["key"] is None or s_["value"] is None:
            env, params, loc = _function_dataflow(s_["fn"])
            amb = set()
            for n in ast.walk(s_["fn"]):
                if isinstance(n, ast.expr):
                    amb |= {d for d in _expr_deps(n, {}, set(), set()) if d.startswith("ambient:")}
            if amb:
                ctx.fail(name, "%s of %s reads %s: the remembered value depends on process state that is not part of the arguments" % (s_["kind"], s_["function"], sorted(amb)), replay=_quiet(replay_dtype_history), witness_class="cache-value-depends-on-ambient-state")
            else:
                ctx.ok(name, "dataflow", detail="%s; no ambient read in the function body" % s_["kind"])
            continue
        env, params, loc = _function_dataflow(s_["fn"])
        kd = _expr_deps(s_["key"], env, params, loc)
        vd = _expr_deps(s_["value"], env, params, loc)
        extra = {d for d in vd - kd if d != "external:file-content"}
        if extra:
            ctx.fail(name, "line %d: %s[%s] = %s; the value depends on %s, the key only on %s" % (s_["line"], s_["container"], ast.unparse(s_["key"]), ast.unparse(s_["value"])[:60], sorted(extra), sorted(kd)),
                     replay=_quiet(replay_dtype_history), witness_class="cache-value-depends-on-state-outside-the-key")
        else:
            ctx.ok(name, "dataflow", detail="value depends on %s; key on %s" % (sorted(vd), sorted(kd)))
        if "external:file-content" in vd:
            ctx.assume_note("cache %s.%s: file content is taken to be determined by its path for the life of the process" % (s_["module"], s_["container"]))
    # canary: the dataflow does see an ambient dtype dependence that the key omits
    canary = ast.parse("def f(a, b):\n    p = torch.zeros((a, 2))\n    for l in b:\n        p[l] = torch.tensor([1.5])\n    _T[(a, tuple(b))] = p\n").body[0]
    env, params, loc = _function_dataflow(canary)
    st_ = canary.body[-1]
    miss = _expr_deps(st_.value, env, params, loc) - _expr_deps(st_.targets[0].slice, env, params, loc)
    (ctx.ok if miss == {"ambient:default-dtype"} else ctx.error)("canary.dataflow-sees-a-default-dtype-dependence-missing-from-the-key", "dataflow" if miss == {"ambient:default-dtype"} else "got %r" % (miss,))
    ctx.assume_note("cache contract is intraprocedural: callees are taken to be functions of their arguments; ambient reads recognised: torch factories without dtype=, get_default_dtype/device, grad mode, thread count, environment, clock, rng")


def task_mutable_defaults(ctx):
    """O4: the shared default dict of Pack_Parameters.forward / Molecule.__init__: every key a call reads unconditionally is
    overwritten by the same call; keys read conditionally on presence can never be left behind by any method."""
    import seqm.basics as B

    fpk = ctx.under_contract("seqm.basics:Pack_Parameters.forward")
    # semantic: the real forward on a dictionary that already holds a stale value for every required key (what an earlier call
    # leaves in the shared default argument): afterwards every required key holds this call's table row
    import torch as rt

    required = ["U_ss", "U_pp", "zeta_s", "zeta_p", "beta_s"]

    def thunk():
        pk = object.__new__(B.Pack_Parameters)
        rt.nn.Module.__init__(pk)
        pk.__dict__.update(required_list=list(required), nrp=len(required), p=st.symbolic((9, len(required)), "tab"), alpha=st.zeros(1), chi=st.zeros(1))
        stale = {k: st.symbolic((2,), "stale_" + k) for k in required}
        out = fpk(pk, st.tensor([8, 1]), learned_params=stale)
        return out, stale

    ex = ctx.explore(thunk, name="Pack_Parameters.forward")
    if len(ex.paths) != 1 or ex.paths[0].raised is not None:
        ctx.error("pack.paths", "%r %s" % ([p.raised for p in ex.paths], ex.paths[0].notes.get("traceback", "")[-600:] if ex.paths else ""))
    else:
        out, stale = ex.paths[0].value
        d = out[0] if isinstance(out, tuple) else out
        for i, k in enumerate(required):
            for a_, z in enumerate((8, 1)):
                ctx.prove_eq("every-required-key-is-overwritten-by-the-call[%s,atom%d]" % (k, a_), d[k].a[a_], real("tab_%d_%d" % (z, i)))
    left_behind = set()
    for m, lst in B.parameterlist.items():
        left_behind |= set(lst)
    conditional = {"g_ss_nuc", "Kbeta"}
    inter = left_behind & conditional
    if inter:
        ctx.fail("presence-tested-keys-cannot-be-left-behind", "keys %r are written by some method's parameter list and tested for presence by another calculation" % sorted(inter))
    else:
        ctx.ok("presence-tested-keys-cannot-be-left-behind", "frames", detail="parameter lists: %d keys; presence-tested: %r" % (len(left_behind), sorted(conditional)))
    # Molecule.__init__ deep-copies what packpar returns, so the caller's / default dict is not aliased by molecule.parameters
    import sys, importlib

    importlib.import_module("seqm.Molecule")
    msrc = inspect.getsource(sys.modules["seqm.Molecule"].Molecule.__init__)
    mtree = _src_tree(sys.modules["seqm.Molecule"].Molecule.__init__)
    packcalls = [n for n in ast.walk(mtree) if isinstance(n, ast.Call) and ast.unparse(n.func).endswith("packpar")]
    if not packcalls:
        ctx.error("molecule-parameters.anchor", "Molecule.__init__ no longer calls self.packpar (contract anchor moved)")
    else:
        # each packpar(...) result must pass through a copying call before it is bound
        wrapped = []
        for n in ast.walk(mtree):
            if isinstance(n, ast.Call) and ast.unparse(n.func).split(".")[-1] in ("copy_packed_parameters", "deepcopy") and any(pc is a for pc in packcalls for a in ast.walk(n)):
                wrapped += [pc for pc in packcalls if any(pc is a for a in ast.walk(n))]
        ok = all(any(pc is w for w in wrapped) for pc in packcalls)
        (ctx.ok if ok else ctx.fail)("molecule-parameters-do-not-alias-the-shared-default", "frames" if ok else "a packpar(...) result is bound without being copied: molecule.parameters aliases the dictionary shared between calls")


def _accumulation_semantics(fn, tgt):
    """Execute the statements of `fn` that compute and store seqm_parameters['elements'] for all (old, needs) subsets."""
    import itertools

    tree = _src_tree(fn)
    fdef = tree.body[0]
    stmts = []
    for st_ in fdef.body:
        src = ast.unparse(st_)
        if "elements" in src and ("seqm_parameters" in src):
            stmts.append(st_)
        elif isinstance(st_, ast.Assign) and any(isinstance(t, ast.Name) and t.id == "needed" for t in st_.targets):
            stmts.append(st_)
    if not stmts:
        return False, "statements not found"
    code = compile(ast.Module(body=stmts, type_ignores=[]), "<elements-statements>", "exec")

    class FakeSpecies:
        def __init__(self, vals):
            self.vals = vals

        def reshape(self, *a):
            return self

        def tolist(self):
            return list(self.vals)

    universe = [1, 6, 7, 8]
    subsets = [set(c) for r in range(len(universe) + 1) for c in itertools.combinations(universe, r)]
    n = 0
    for old in [None] + subsets:
        for needs in subsets[1:]:
            d = {} if old is None else {"elements": sorted(old | {0})}
            env = {"seqm_parameters": d, "species": FakeSpecies(sorted(needs) + [0]), "sorted": sorted, "set": set}
            exec(code, env)
            new = set(d["elements"])
            prev = set() if old is None else (old | {0})
            if not (new >= prev | needs | {0}):
                return False, "old=%r needs=%r -> %r loses elements" % (old, needs, sorted(new))
            if old is not None and needs <= prev and d["elements"] != sorted(prev):
                return False, "old=%r needs=%r -> %r is not idempotent" % (old, needs, d["elements"])
            n += 1
    return True, "%d (old content, needs) pairs: new = old U needs, unchanged when covered" % n


def task_settings_dict(ctx):
    """O5: every write to the caller's settings dictionary is a function of the dictionary's own content (idempotent for any
    later job that passes the same dictionary)."""
    import sys, importlib
    import seqm.basics as B
    import seqm.MolecularDynamics as M

    importlib.import_module("seqm.Molecule")
    Mol = sys.modules["seqm.Molecule"]
    writes = []
    for mod, holder in ((Mol, Mol.Molecule.__init__), (B, B.Energy.__init__), (B, B.Force.forward), (M, M.Molecular_Dynamics_Basic._sync_excited_state_output_flags)):
        ctx.under_contract("%s:%s" % (mod.__name__, holder.__qualname__), note="writes to the caller's settings dict (AST)")
        tree = _src_tree(holder)
        for n in ast.walk(tree):
            if isinstance(n, ast.Assign):
                for t in n.targets:
                    if isinstance(t, ast.Subscript) and "seqm_parameters" in ast.unparse(t.value):
                        writes.append((holder.__qualname__, ast.unparse(t), ast.unparse(n.value), n.lineno))
    if not writes:
        ctx.error("vacuous", "no writes to seqm_parameters found")
    for fn, tgt, val, ln in writes:
        names = {x.id for x in ast.walk(ast.parse(val)) if isinstance(x, ast.Name)}
        depends_on_job = names & {"species", "coordinates", "molecule", "charges", "mult", "needed"}
        name = "settings-write-is-a-function-of-the-dict-only[%s:%s]" % (fn, tgt)
        if not depends_on_job:
            ctx.ok(name, "frames", detail=val[:80])
            continue
        # a job-dependent value is acceptable only as a monotone accumulation: new = old U needs, unchanged when old already
        # covers the needs.  Decided by executing the real statements (extracted from the current source) on every pair of
        # subsets of {0,1,6,7,8} for (old content, needs) -- exhaustive for this set algebra.
        ok, detail = _accumulation_semantics(Mol.Molecule.__init__, tgt) if "elements" in tgt else (False, "no accumulation rule for this key")
        if ok:
            ctx.ok(name.replace("is-a-function-of-the-dict-only", "is-a-monotone-accumulation"), "exhaustive-set-algebra", detail=detail)
        else:
            ctx.fail(name, "%s stores %s = %s, a value computed from this job's %s, into the caller's dictionary; a later job with another molecule and the same dictionary reads it (%s)" % (fn, tgt, val, sorted(depends_on_job), detail),
                     replay=_quiet(replay_elements) if "elements" in tgt else None, witness_class="job-dependent-value-stored-in-settings:" + tgt)
    ctx.undecided_clause("bitwise repeatability and independence of the intra-op thread count (no contract reaches the BLAS scheduler)")


# ---------------------------------------------------------------------------
# O1: a driver object that is reused for a second job gives the second job the result a fresh driver gives


def _same(a, b, path, out, seen=None):
    """structural identity of two values built from symbolic tensors; appends the paths that differ to `out`."""
    import torch as rt

    seen = seen if seen is not None else set()
    key = (id(a), id(b))
    if key in seen:
        return
    seen.add(key)
    if isinstance(a, st.T) or isinstance(b, st.T):
        if not (isinstance(a, st.T) and isinstance(b, st.T)) or a.a.shape != b.a.shape:
            out.append(path + " (shape/type)")
            return
        for pos in np.ndindex(*a.a.shape):
            x, y = a.a[pos], b.a[pos]
            nx, ny = (x.n if isinstance(x, Sym) else x), (y.n if isinstance(y, Sym) else y)
            if isinstance(nx, E.Node) or isinstance(ny, E.Node):
                if E.node_of(x) is not E.node_of(y):
                    out.append("%s%s: %s  vs  %s" % (path, list(pos), E.to_str(E.node_of(x), 80), E.to_str(E.node_of(y), 80)))
                    return
            elif nx != ny:
                out.append("%s%s: %r vs %r" % (path, list(pos), nx, ny))
                return
        return
    if isinstance(a, (tuple, list)) and isinstance(b, (tuple, list)):
        if len(a) != len(b):
            out.append(path + " (length)")
            return
        for k, (x, y) in enumerate(zip(a, b)):
            _same(x, y, "%s[%d]" % (path, k), out, seen)
        return
    if isinstance(a, dict) and isinstance(b, dict):
        if set(a) != set(b):
            out.append(path + " (keys %r)" % sorted(set(map(str, a)) ^ set(map(str, b))))
            return
        for k in a:
            _same(a[k], b[k], "%s[%r]" % (path, k), out, seen)
        return
    if isinstance(a, Sym) or isinstance(b, Sym):
        if E.node_of(a) is not E.node_of(b):
            out.append(path)
        return
    if isinstance(a, rt.Tensor) and isinstance(b, rt.Tensor):
        if a.shape != b.shape or not bool((a == b).all()):
            out.append(path)
        return
    if callable(a) and callable(b):
        return
    if hasattr(a, "__dict__") and hasattr(b, "__dict__") and type(a) is type(b) and not isinstance(a, type):
        _same({k: v for k, v in vars(a).items() if not k.startswith("__")}, {k: v for k, v in vars(b).items() if not k.startswith("__")}, path, out, seen)
        return
    try:
        if a != b:
            out.append(path)
    except Exception:  # noqa
        pass


def replay_driver_reuse(model):
    """real code: acetylene on a driver (and settings dict) that first computed formaldehyde, against a fresh driver."""
    import torch
    from seqm.seqm_functions.constants import Constants
    from seqm.Molecule import Molecule
    from seqm.ElectronicStructure import Electronic_Structure

    torch.set_default_dtype(torch.float64)

    def base():
        return {"method": "AM1", "scf_eps": 1e-9, "scf_converger": [1], "sp2": [False, 1e-5], "elements": [0, 1, 6, 8], "learned": [], "pair_outer_cutoff": 1e10, "eig": True}

    h2co = (torch.tensor([[8, 6, 1, 1]]), torch.tensor([[[0.0, 0, 0], [1.22, 0, 0], [1.82, 0.94, 0], [1.82, -0.94, 0]]]))
    c2h2 = (torch.tensor([[6, 6, 1, 1]]), torch.tensor([[[0.0, 0, 0], [1.20, 0, 0], [-1.06, 0, 0], [2.26, 0, 0]]]))

    def run(es, params, sp, xyz):
        mol = Molecule(Constants(), params, xyz.clone(), sp)
        es(mol)
        return {"Etot": float(mol.Etot[0]), "Enuc": float(mol.Enuc[0]), "Eelec": float(mol.Eelec[0]), "Hf": float(mol.Hf[0]), "force": mol.force.detach().clone(), "q": mol.q.detach().clone()}

    p0 = base()
    fresh = run(Electronic_Structure(p0), p0, *c2h2)
    p1 = base()
    es = Electronic_Structure(p1)
    run(es, p1, *h2co)
    reused = run(es, p1, *c2h2)
    diffs = {k: (float((fresh[k] - reused[k]).abs().max()) if hasattr(fresh[k], "abs") else abs(fresh[k] - reused[k])) for k in fresh}
    return {"reproduced": bool(max(diffs.values()) > 1e-8), "history": "Electronic_Structure driver: CH2O then C2H2, against C2H2 on a fresh driver", "max_abs_differences": diffs}


def task_driver_reuse(ctx):
    """O1 (two-run contract): for the real Energy.forward, Force.forward and Electronic_Structure.forward, running job B on a
    driver object that has already run job A (same shapes, different values) passes the same arguments to every callee,
    returns the same tuple and publishes the same molecule attributes as running B on a fresh driver."""
    import seqm.basics as B
    import seqm.ElectronicStructure as ES
    import torch as rt
    from contracts import C14_observables as C14
    from contracts.es_common import ghost_es_molecule, BAS

    fE = ctx.under_contract(BAS + ":Energy.forward", stubs=["hamiltonian", "_prepare_molecule_inputs", "pair_nuclear_energy", "elec_energy", "calc_ground_dipole", "MO matching"])
    fF = ctx.under_contract(BAS + ":Force.forward", stubs=["energy"])
    fS = ctx.under_contract("seqm.ElectronicStructure:Electronic_Structure.forward", stubs=["conservative_force"])
    for t in (BAS + ":Energy._build_parnuc", BAS + ":Energy.__init__", BAS + ":Force.__init__", "seqm.ElectronicStructure:Electronic_Structure.__init__"):
        ctx.under_contract(t)
    rec = []

    def tag_of(molecule):
        return molecule.tag

    def sym(molecule, shape, name):
        return st.symbolic(shape, "%s_%s" % (tag_of(molecule), name))

    CUR = {}

    def pne(Z, const, nmol, ni, nj, idxi, idxj, rij, rho0xi, rho0xj, alp, chi, gam=None, method="AM1", parameters=None):
        rec.append(("pair_nuclear_energy", dict(Z=Z, ni=ni, nj=nj, idxi=idxi, idxj=idxj, rij=rij, rho0xi=rho0xi, rho0xj=rho0xj, alp=alp, chi=chi, gam=gam, method=method, parameters=parameters)))
        return sym(CUR["mol"], (len(ni),), "EnucAB")

    def ee(Pm, F, Hcore, doTriu=True):
        rec.append(("elec_energy", dict(P=Pm, F=F, Hcore=Hcore)))
        return sym(CUR["mol"], (Pm.shape[0],), "Eelec")

    def dip(molecule, Pm):
        rec.append(("calc_ground_dipole", dict(P=Pm, x=molecule.coordinates)))
        molecule.dipole = sym(molecule, (2, 3), "dip")

    stubs = dict(C14.energy_stubs({}))
    stubs.update({BAS + ":pair_nuclear_energy": pne, BAS + ":elec_energy": ee, BAS + ":calc_ground_dipole": dip})

    def make_mol(tag):
        mol = ghost_es_molecule(prefix=tag + "_")
        mol.tag = tag
        C14._const_tables(mol)
        return mol

    def ham(molecule, method, P0=None):
        rec.append(("hamiltonian", dict(method=method, P0=P0, x=molecule.coordinates)))
        n = 4 * molecule.molsize
        t = molecule.tag
        nc = st.T(np.array([boolean(t + "_nc0"), boolean(t + "_nc1")], dtype=object), st.bool, True)
        return (sym(molecule, (2, n, n), "F"), sym(molecule, (2, n), "e"), sym(molecule, (2, n, n), "P"), sym(molecule, (2, n, n), "Hc"), sym(molecule, (len(molecule.pairs), 10, 10), "w"),
                sym(molecule, (2, molecule.molsize), "chg"), sym(molecule, (len(molecule.pairs),), "rho0xi"), sym(molecule, (len(molecule.pairs),), "rho0xj"), None, None, nc,
                sym(molecule, (2, n, n), "C"))

    def grad_stub(**kw):
        rec.append(("scf_analytic_grad", {k: v for k, v in kw.items() if k not in ("molecule", "const")}))
        return sym(kw["molecule"], (2, 2, 3), "grad")

    stubs.update({BAS + ":Parser": lambda p: None, BAS + ":Pack_Parameters": lambda p: None, BAS + ":Hamiltonian": lambda p: ham, BAS + ":scf_analytic_grad": grad_stub,
                  "seqm.ElectronicStructure:ForceXL": lambda p: None})

    def settings():
        return {"method": "AM1", "scf_eps": 1e-6, "analytical_gradient": [True]}

    # drivers are built by their real constructors (callee classes replaced by the recorders above)
    def make_energy():
        return B.Energy(settings())

    def call_energy(en, mol):
        CUR["mol"] = mol
        return en(mol, {}, all_terms=True)

    def make_force():
        return B.Force(settings())

    def call_force(fo, mol):
        CUR["mol"] = mol
        return fo(mol)

    def make_es():
        return ES.Electronic_Structure(settings())

    def call_es(es, mol):
        CUR["mol"] = mol
        es(mol, P0=None)
        return None

    for label, mk, call in (("Energy.forward", make_energy, call_energy), ("Force.forward", make_force, call_force), ("Electronic_Structure.forward", make_es, call_es)):
        def thunk():
            d1 = mk()
            before = {k: id(v) for k, v in vars(d1).items()}
            call(d1, make_mol("a"))
            changed = sorted(k for k, v in vars(d1).items() if before.get(k) != id(v))
            del rec[:]
            mB1 = make_mol("b")
            out1 = call(d1, mB1)
            rec1 = list(rec)
            del rec[:]
            d2 = mk()
            mB2 = make_mol("b")
            out2 = call(d2, mB2)
            rec2 = list(rec)
            del rec[:]
            return out1, out2, rec1, rec2, mB1, mB2, changed

        ex = ctx.explore(thunk, stubs=stubs, name="reuse:" + label)
        if len(ex.paths) != 1 or ex.paths[0].raised is not None:
            ctx.error(label + ".paths", "expected one path: %r %s" % ([p.raised for p in ex.paths], ex.paths[0].notes.get("traceback", "")[-800:] if ex.paths else ""))
            continue
        out1, out2, rec1, rec2, mB1, mB2, changed = ex.paths[0].value
        if len(rec1) == 0:
            ctx.error(label + ".vacuous", "no callee was reached")
        diffs = []
        if [r[0] for r in rec1] != [r[0] for r in rec2]:
            diffs.append("callee sequence %r vs %r" % ([r[0] for r in rec1], [r[0] for r in rec2]))
        else:
            for k, ((n1, a1), (n2, a2)) in enumerate(zip(rec1, rec2)):
                _same(a1, a2, "%s#%d" % (n1, k), diffs)
        name = label + ".second-job-on-a-used-driver.callees-receive-the-arguments-a-fresh-driver-passes"
        if diffs:
            ctx.fail(name, "arguments that differ (used driver vs fresh driver): " + "; ".join(diffs[:4]), replay=_quiet(replay_driver_reuse), witness_class="driver-object-carries-state-between-jobs")
        else:
            ctx.ok(name, "two-run-structural-identity", detail="%d callee calls compared; driver attributes rebound by a call: %r" % (len(rec1), changed))
        diffs = []
        _same(out1, out2, "result", diffs)
        name = label + ".second-job-on-a-used-driver.returns-what-a-fresh-driver-returns"
        (ctx.fail(name, "; ".join(diffs[:4]), replay=_quiet(replay_driver_reuse), witness_class="driver-object-carries-state-between-jobs") if diffs else ctx.ok(name, "two-run-structural-identity"))
        diffs = []
        skip = {"tag", "const"}
        _same({k: v for k, v in vars(mB1).items() if k not in skip}, {k: v for k, v in vars(mB2).items() if k not in skip}, "molecule", diffs)
        name = label + ".second-job-on-a-used-driver.publishes-what-a-fresh-driver-publishes"
        (ctx.fail(name, "; ".join(diffs[:4]), replay=_quiet(replay_driver_reuse), witness_class="driver-object-carries-state-between-jobs") if diffs else ctx.ok(name, "two-run-structural-identity"))
    # canary: the comparison does notice a value taken from job A
    d = []
    _same(st.symbolic((2,), "a_alpha"), st.symbolic((2,), "b_alpha"), "canary", d)
    (ctx.ok if d else ctx.error)("canary.two-run-comparison-distinguishes-jobs", "two-run-structural-identity" if d else "comparison is vacuous")
    ctx.assume_note("two jobs of the same shapes (batch [OH, HH]) and different symbolic values; callees (hamiltonian, pair_nuclear_energy, elec_energy, dipole) are recorders returning job-tagged symbols")


def replay_md_driver_reuse(model):
    """real code: a Langevin driver that first ran water [8,1,1] and then HCN [7,6,1] (same shape, other masses), against a fresh
    driver running HCN with the same seed: bitwise the same trajectory."""
    import io, contextlib, os, tempfile, shutil
    import torch
    from seqm.seqm_functions.constants import Constants
    from seqm.Molecule import Molecule
    import seqm.MolecularDynamics as M

    torch.set_default_dtype(torch.float64)
    params = {"method": "AM1", "scf_eps": 1e-7, "scf_converger": [1], "sp2": [False, 1e-5], "elements": [0, 1, 6, 7, 8], "learned": [], "pair_outer_cutoff": 1e10, "eig": True}
    geo = {"water": ([[8, 1, 1]], [[[0.0, 0, 0], [0.96, 0.05, 0], [-0.24, 0.93, 0]]]), "HCN": ([[7, 6, 1]], [[[0.0, 0, 0], [1.16, 0.02, 0], [2.22, 0.05, 0.01]]])}
    d = tempfile.mkdtemp(prefix="pyvc_c15_")

    def driver():
        return M.Molecular_Dynamics_Langevin(damp=10.0, seqm_parameters=dict(params), timestep=0.5, Temp=300.0, output={"molid": [0], "prefix": os.path.join(d, "md"), "print every": 0, "checkpoint every": 0, "xyz": 0, "h5": {}})

    def run(md, name):
        mol = Molecule(Constants(), dict(params), torch.tensor(geo[name][1]), torch.tensor(geo[name][0]))
        with contextlib.redirect_stdout(io.StringIO()):
            md.run(mol, 3, seed=11)
        return mol.coordinates.detach().clone(), mol.velocities.detach().clone()

    try:
        fresh = run(driver(), "HCN")
        used = driver()
        run(used, "water")
        again = run(used, "HCN")
        dev = max(float((fresh[0] - again[0]).abs().max()), float((fresh[1] - again[1]).abs().max()))
        # second scenario: a plain NVE driver first used with angular centre-of-mass removal, then without any
        def basic():
            return M.Molecular_Dynamics_Basic(seqm_parameters=dict(params), timestep=0.5, Temp=300.0, output={"molid": [0], "prefix": os.path.join(d, "nve"), "print every": 0, "checkpoint every": 0, "xyz": 0, "h5": {}})

        def ndof(md, name, rc):
            mol = Molecule(Constants(), dict(params), torch.tensor(geo[name][1]), torch.tensor(geo[name][0]))
            with contextlib.redirect_stdout(io.StringIO()):
                md.run(mol, 1, seed=5, remove_com=rc)
            return [float(x) for x in torch.as_tensor(md.n_dof, dtype=torch.float64).reshape(-1)]

        fresh_dof = ndof(basic(), "water", None)
        usedb = basic()
        ndof(usedb, "water", ("angular", 1))
        used_dof = ndof(usedb, "water", None)
        return {"reproduced": dev > 0.0 or fresh_dof != used_dof, "max_abs_difference_fresh_vs_reused_driver": dev, "history": "water (3 steps), then HCN (3 steps), seed 11",
                "n_dof of an NVE run without COM removal: fresh driver": fresh_dof, "same run on a driver that first removed angular COM motion": used_dof}
    finally:
        shutil.rmtree(d, ignore_errors=True)


def task_md_driver_reuse(ctx):
    """O1 for the MD engines (two-run contract, symbolic): what initialize() leaves on a thermostatted driver for job B (thermostat
    coefficients, degrees of freedom) is what a fresh driver computes for job B, whatever job A was -- same shapes, other masses."""
    import seqm.MolecularDynamics as M
    from contracts import C12_langevin as C12

    MDM = "seqm.MolecularDynamics"
    rep = []
    rp = lambda mdl: (rep or rep.append(_quiet(replay_md_driver_reuse)) or rep)[0]
    for cls, extra in (("Molecular_Dynamics_Basic", {}), ("Molecular_Dynamics_Langevin", {}), ("XL_BOMD", {"xl_bomd_params": {"k": 3}})):
        ctx.under_contract(MDM + ":%s.initialize" % cls, stubs=["esdriver", "initialize_velocity"])

        def make():
            kw = dict(seqm_parameters={"method": "AM1"}, timestep=0.5, Temp=300.0, output={"h5": {}, "print every": 0, "checkpoint every": 0})
            kw.update(extra)
            md = getattr(M, cls)(**kw) if cls == "Molecular_Dynamics_Basic" else getattr(M, cls)(damp=20.0, **kw)
            md.esdriver.behaviour = C12._driver_behaviour
            return md

        def molecule(tag):
            mol = C12._mol(2)
            minv = [real("minv_%s%d" % (tag, i)) for i in range(2)]
            for v in minv:
                assume(v > 0)
            mol.mass_inverse = st.tensor([[[x] for x in minv]])
            mol.mass = st.tensor([[[1 / x] for x in minv]])
            return mol

        def thunk():
            used, fresh = make(), make()
            # job A removes the angular momentum of the centre of mass (6 constraints), job B removes nothing
            used.initialize(molecule("A"), remove_com=("angular", 5))
            mb1, mb2 = molecule("B"), molecule("B")
            used.initialize(mb1)
            fresh.initialize(mb2)
            return used, fresh

        ex = ctx.explore(thunk, stubs=C12.STUBS, name="%s.initialize twice" % cls, max_paths=16)
        n = 0
        for p in ex.paths:
            if p.raised is not None:
                if isinstance(p.raised, Unmodelled):
                    raise p.raised
                ctx.fail("md_driver_reuse.%s.raises@p%d" % (cls, p.path_id), repr(p.raised) + p.notes.get("traceback", "")[-600:])
                continue
            n += 1
            used, fresh = p.value
            for attr in ("langevin_c1", "langevin_c2", "n_dof", "do_remove_com"):  # remove_com_angular may stay stale: it is read only when do_remove_com is set
                a, b = getattr(used, attr, None), getattr(fresh, attr, None)
                if a is None and b is None:
                    continue
                if (a is None) != (b is None):
                    ctx.fail("md_driver_reuse.%s.%s@p%d" % (cls, attr, p.path_id), "set on one driver only", replay=rp(None))
                    continue
                if isinstance(a, bool) or isinstance(b, bool):
                    (ctx.ok("md_driver_reuse.%s.%s-on-a-used-driver=on-a-fresh-driver@p%d" % (cls, attr, p.path_id), "two-run-structural-identity") if a == b else
                     ctx.fail("md_driver_reuse.%s.%s-on-a-used-driver=on-a-fresh-driver@p%d" % (cls, attr, p.path_id), "%r on the used driver, %r on a fresh one" % (a, b), replay=rp(None)))
                    continue
                av = a.a.reshape(-1) if isinstance(a, st.T) else np.array([S(a)], dtype=object)
                bv = b.a.reshape(-1) if isinstance(b, st.T) else np.array([S(b)], dtype=object)
                if av.shape != bv.shape:
                    ctx.fail("md_driver_reuse.%s.%s@p%d" % (cls, attr, p.path_id), "shapes differ", replay=rp(None))
                    continue
                for k in range(av.shape[0]):
                    ctx.prove_eq("md_driver_reuse.%s.%s[%d]-on-a-used-driver=on-a-fresh-driver@p%d" % (cls, attr, k, p.path_id), av[k], bv[k], pc=p.pc, replay=rp,
                                 classify=lambda m_, r: "md-driver-carries-state-between-runs")
        if n == 0:
            ctx.error("md_driver_reuse.%s.paths" % cls, "no returning path")
    ctx.assume_note("md_driver_reuse: one molecule of two atoms per job, symbolic inverse masses (different symbols for jobs A and B), concrete dt / damp / Temp; only what initialize() leaves on the driver is compared")


_GLOBAL_FRAME_SCRIPT = r"""
import json, os, sys, tempfile, contextlib, io
import torch
out = {}
def snap():
    return {"default_dtype": str(torch.get_default_dtype()), "grad_enabled": torch.is_grad_enabled(), "num_threads": torch.get_num_threads()}
from seqm.seqm_functions.constants import Constants
from seqm.Molecule import Molecule
from seqm.ElectronicStructure import Electronic_Structure
import seqm.MolecularDynamics as M
dt = torch.float64
def job_b():
    # job B: a float32 single point with whatever the process default is (a fresh process: float32)
    params = {"method": "AM1", "scf_eps": 1e-5, "scf_converger": [1], "sp2": [False, 1e-5], "elements": [0, 1], "learned": [], "pair_outer_cutoff": 1e10, "eig": True}
    try:
        mol = Molecule(Constants(), params, torch.tensor([[[0.0, 0, 0], [0.74, 0, 0]]], dtype=torch.float32), torch.tensor([[1, 1]]))
        Electronic_Structure(params)(mol)
        return {"Etot": float(mol.Etot[0]), "dtype": str(mol.Etot.dtype)}
    except Exception as exc:
        return {"raised": repr(exc)[:160]}
with contextlib.redirect_stdout(io.StringIO()):
    b_first = job_b()
    d = tempfile.mkdtemp(prefix="pyvc_c15_")
    params = {"method": "AM1", "scf_eps": 1e-7, "scf_converger": [1], "sp2": [False, 1e-5], "elements": [0, 1], "learned": [], "pair_outer_cutoff": 1e10, "eig": True}
    # a float64 MD job with an explicit dtype everywhere (the user sets the default for this job and restores it, as a careful caller would)
    prev = torch.get_default_dtype()
    torch.set_default_dtype(dt)
    mol = Molecule(Constants(), params, torch.tensor([[[0.0, 0, 0], [0.80, 0, 0]]], dtype=dt), torch.tensor([[1, 1]]))
    md = M.Molecular_Dynamics_Basic(params, timestep=0.5, Temp=0.0, output={"molid": [0], "prefix": os.path.join(d, "md"), "print every": 0, "checkpoint every": 2, "xyz": 0, "h5": {"data": 1}})
    s0 = snap()
    md.run(mol, 4)
    out["run"] = {"before": s0, "after": snap()}
    torch.set_default_dtype(prev)
    s1 = snap()
    M.Molecular_Dynamics_Basic.run_from_checkpoint(os.path.join(d, "md.restart.pt"))
    out["run_from_checkpoint"] = {"before": s1, "after": snap()}
    b_after = job_b()
out["job_B_first_in_process"] = b_first
out["job_B_after_resume"] = b_after
import shutil; shutil.rmtree(d, ignore_errors=True)
print("RESULT" + json.dumps(out))
"""


def _global_frame_run():
    import json, subprocess, sys, os

    env = dict(os.environ, PYTHONWARNINGS="ignore", OMP_NUM_THREADS="2")
    p = subprocess.run([sys.executable, "-c", _GLOBAL_FRAME_SCRIPT], capture_output=True, text=True, timeout=600, env=env)
    for line in p.stdout.splitlines():
        if line.startswith("RESULT"):
            return json.loads(line[6:])
    raise Unmodelled("global-state probe did not finish: " + (p.stderr or p.stdout)[-400:])


def task_global_state_frame(ctx):
    """O6 (run-time contract, BOUNDED): public entry points leave process-global torch state as they found it -- default dtype,
    grad mode, thread count -- so that a later job behaves as if it were the first thing the process does.  The real code
    runs in a fresh interpreter (default dtype float32): a float64 MD run, a resume of it with run_from_checkpoint, and a
    float32 single point before and after."""
    ctx.under_contract(MD + ":Molecular_Dynamics_Basic.run", note="run-time frame on global torch state (bounded)") if False else None
    ctx.under_contract("seqm.MolecularDynamics:Molecular_Dynamics_Basic.run_from_checkpoint", note="run-time frame on global torch state (bounded)")
    ctx.under_contract("seqm.MolecularDynamics:Molecular_Dynamics_Basic._load_checkpoint_base")
    ctx.under_contract("seqm.MolecularDynamics:Molecular_Dynamics_Basic.run", note="run-time frame on global torch state (bounded)")
    # static part: where the package writes global state at all (reported in the notes)
    import seqm, pkgutil, importlib

    setters = {"set_default_dtype", "set_default_device", "set_default_tensor_type", "set_num_threads", "set_num_interop_threads", "use_deterministic_algorithms"}
    sites = []
    for mi in pkgutil.walk_packages(seqm.__path__, "seqm."):
        try:
            src = open(importlib.util.find_spec(mi.name).origin).read()
        except Exception:  # noqa
            continue
        try:
            tree = ast.parse(src)
        except SyntaxError:
            continue
        for n in ast.walk(tree):
            if isinstance(n, ast.Call) and isinstance(n.func, ast.Attribute) and n.func.attr in setters:
                sites.append("%s:%d %s" % (mi.name, n.lineno, ast.unparse(n)[:60]))
    ctx.notes.append("calls of process-global torch setters in the package: %s" % (sites or "none"))
    res = _global_frame_run()
    rep = {"reproduced": res["job_B_first_in_process"] != res["job_B_after_resume"], "job_B_first_in_process": res["job_B_first_in_process"], "job_B_after_run_from_checkpoint": res["job_B_after_resume"],
           "global_state_around_run_from_checkpoint": res["run_from_checkpoint"]}
    for entry in ("run", "run_from_checkpoint"):
        b, a = res[entry]["before"], res[entry]["after"]
        for key in ("default_dtype", "grad_enabled", "num_threads"):
            name = "%s.leaves-%s-as-it-found-it" % (entry, key)
            if b[key] == a[key]:
                ctx.ok(name, "bounded:runtime-contract")
            else:
                ctx.fail(name, "%s: %s before the call, %s after it; static call sites: %s" % (key, b[key], a[key], sites), replay=rep, witness_class="process-global-state-written", backend="bounded:runtime-contract")
    name = "a-later-job-behaves-as-the-first-job-of-a-process"
    if res["job_B_first_in_process"] == res["job_B_after_resume"]:
        ctx.ok(name, "bounded:runtime-contract")
    else:
        ctx.fail(name, "float32 single point: %r as the first job, %r after a float64 resume in the same process" % (res["job_B_first_in_process"], res["job_B_after_resume"]), replay=rep,
                 witness_class="process-global-state-written", backend="bounded:runtime-contract")
    hist = replay_dtype_history()
    name = "a-float64-job-after-a-float32-job-returns-what-it-returns-as-the-first-job-of-a-process"
    if "error" in hist:
        ctx.error(name, hist["error"])
    elif hist["reproduced"]:
        ctx.fail(name, "AM1 water, Etot %s as the first job, %s after a float32 job" % (hist["float64_water_as_first_job"]["Etot"], hist["float64_water_after_a_float32_job_in_the_same_process"]["Etot"]), replay=hist,
                 witness_class="result-depends-on-dtype-history", backend="bounded:runtime-contract")
    else:
        ctx.ok(name, "bounded:runtime-contract", detail="bitwise equal Etot and 9 force components")
    ctx.bounded.append({"what": "dtype history", "bound": "one concrete history in fresh interpreters: float32 AM1 water then float64 AM1 water, against float64 AM1 water alone", "why_not_proved": "as above"})
    ctx.bounded.append({"what": "frame on process-global torch state", "bound": "one concrete history in a fresh interpreter: float32 H2 single point, float64 H2 MD run (4 steps, checkpoint every 2), run_from_checkpoint, float32 single point again",
                        "why_not_proved": "global interpreter state is outside the symbolic shim; the static list of setter call sites is in the notes"})


TASKS_QUICK = ["global_state_frame", "autograd_functions", "caches", "mutable_defaults", "settings_dict", "driver_reuse", "md_driver_reuse"]
TASKS_THOROUGH = TASKS_QUICK
