"""C19 -- pair cutoff acts as documented; the monopole channel of all pair interactions uses one integral.

Functions under contract: seqm.basics:Parser.forward, energy.pair_nuclear_energy (leading term), w_withquaternion e1b/e2a[0,0]
(through C02's obligations, re-proved here for the monopole entries)."""
from fractions import Fraction

import numpy as np

from pyvc.api import *
from pyvc import symtorch as st, expr as E, poly as P
from contracts.md_common import Obj
from contracts.es_common import tore_table

BAS = "seqm.basics"


def make_parser(cutoff):
    import seqm.basics as B
    import torch as rt

    ps = object.__new__(B.Parser)
    rt.nn.Module.__init__(ps)
    ps.__dict__.update(outercutoff=cutoff, elements=[0, 1, 8], uhf=False, hipnn_automatic_doublet=False)
    return ps


def parser_molecule(species, prefix="x"):
    mol = Obj()
    mol.species = st.tensor(species)
    nmol, molsize = len(species), len(species[0])
    mol.coordinates = st.symbolic((nmol, molsize, 3), prefix)
    tore = st.zeros(10, dtype=st.float64)
    for z, v in ((1, 1.0), (6, 4.0), (7, 5.0), (8, 6.0)):
        tore.a[z] = S(v)
    mol.const = Obj(tore=tore, length_conversion_factor=real("lcf"))
    mol.tot_charge = st.zeros(nmol, dtype=st.int64)
    mol.mult = st.ones(nmol, dtype=st.int64)
    return mol


def replay_cutoff(species):
    def rp(model):
        """real Parser.forward at the model's coordinates and cutoff: listed pairs against {distance < cutoff}."""
        import torch
        import seqm.basics as B
        from seqm.seqm_functions.constants import Constants

        torch.set_default_dtype(torch.float64)
        nmol, molsize = len(species), len(species[0])
        x = torch.tensor([[[model_float(model, "x_%d_%d_%d" % (m, i, c), 0.0) for c in range(3)] for i in range(molsize)] for m in range(nmol)])
        cutoff = model_float(model, "cutoff", 1.0)
        ps = B.Parser({"elements": [0, 1, 8], "pair_outer_cutoff": cutoff})
        mol = Obj(species=torch.tensor(species), coordinates=x, const=Constants(), tot_charge=torch.zeros(nmol, dtype=torch.int64), mult=torch.ones(nmol, dtype=torch.int64))
        out = ps(mol, "AM1")
        idxi, idxj = [int(v) for v in out[13]], [int(v) for v in out[14]]
        flat = [(m, i) for m in range(nmol) for i in range(molsize) if species[m][i] > 0]
        listed = set(zip(idxi, idxj))
        wrong = []
        for a in range(len(flat)):
            for b in range(len(flat)):
                if flat[a][0] == flat[b][0] and flat[a][1] < flat[b][1]:
                    d = float((x[flat[a][0], flat[a][1]] - x[flat[b][0], flat[b][1]]).norm())
                    if ((a, b) in listed) != (d < cutoff):
                        wrong.append({"pair": [a, b], "distance": d, "listed": (a, b) in listed})
        return {"reproduced": bool(wrong), "cutoff": cutoff, "coordinates": x.tolist(), "pairs_disagreeing_with_distance<cutoff": wrong}
    return rp


def check_parser_paths(ctx, ex, species, cutoff, tag):
    """Per path: the listed pairs are exactly {same molecule, both real, i<j, |ri-rj|^2 < cutoff^2}; index maps decode correctly."""
    nmol, molsize = len(species), len(species[0])
    flat = [(m, i) for m in range(nmol) for i in range(molsize) if species[m][i] > 0]
    cand = [(a, b) for a in range(len(flat)) for b in range(len(flat)) if flat[a][0] == flat[b][0] and flat[a][1] < flat[b][1]]
    n_ok = 0
    for p in ex.paths:
        if p.raised is not None:
            ctx.fail("%s.raises@p%d" % (tag, p.path_id), repr(p.raised) + p.notes.get("traceback", "")[-600:])
            continue
        n_ok += 1
        mol, out = p.value
        (nm, ms, nSH, nHeavy, nHydro, nocc, Z, maskd, atom_molid, mask, pair_molid, ni, nj, idxi, idxj, xij, rij) = out
        listed = list(zip([int(v) for v in idxi.a], [int(v) for v in idxj.a]))
        x = mol.coordinates
        for (a, b) in cand:
            (m, i), (_, j) = flat[a], flat[b]
            d2 = sum((x.a[m, j, c] - x.a[m, i, c]) ** 2 for c in range(3))
            inside = d2 < S(cutoff) * S(cutoff)
            if (a, b) in listed:
                ctx.prove("%s@p%d.pair(%d,%d)-listed=>inside-cutoff" % (tag, p.path_id, a, b), inside, pc=p.pc, replay=replay_cutoff(species), classify=lambda m_, r: "pair-list-vs-cutoff")
            else:
                ctx.prove("%s@p%d.pair(%d,%d)-dropped=>beyond-cutoff" % (tag, p.path_id, a, b), ~inside, pc=p.pc, replay=replay_cutoff(species), classify=lambda m_, r: "pair-list-vs-cutoff")
        extra = [pr for pr in listed if pr not in cand]
        ctx.prove("%s@p%d.no-cross-molecule/padding/duplicate-pairs" % (tag, p.path_id), E.const(not extra and len(set(listed)) == len(listed)))
        lcf = real("lcf")
        for k, (a, b) in enumerate(listed):
            (m, i), (_, j) = flat[a], flat[b]
            d2 = sum((x.a[m, j, c] - x.a[m, i, c]) ** 2 for c in range(3))
            ctx.prove_eq("%s@p%d.rij[%d]^2" % (tag, p.path_id, k), rij.a[k] * rij.a[k], d2 * lcf * lcf, pc=p.pc)
            for c in range(3):
                ctx.prove_eq("%s@p%d.xij[%d,%d]*|r|=rj-ri" % (tag, p.path_id, k, c), xij.a[k, c] * rij.a[k], (x.a[m, j, c] - x.a[m, i, c]) * lcf, pc=p.pc)
            ctx.prove("%s@p%d.index-maps[%d]" % (tag, p.path_id, k), E.const(
                int(mask.a[k]) == m * molsize * molsize + i * molsize + j and int(pair_molid.a[k]) == m and int(ni.a[k]) == species[m][i] and int(nj.a[k]) == species[m][j]
                and int(maskd.a[a]) == m * molsize * molsize + i * molsize + i and int(atom_molid.a[a]) == m))
            # non-interference: the pair geometry mentions only its own two atoms (in particular no padding slot, no other molecule)
            names = P.free_atoms(P.to_poly((rij.a[k] * rij.a[k]).n))
            own = {"x_%d_%d_%d" % (m, q, c) for q in (i, j) for c in range(3)} | {"lcf"}
            if names <= own:
                ctx.ok("%s@p%d.rij[%d]-depends-only-on-its-two-atoms" % (tag, p.path_id, k), "free-symbol-containment")
            else:
                ctx.fail("%s@p%d.rij[%d]-depends-only-on-its-two-atoms" % (tag, p.path_id, k), "mentions %r" % sorted(names - own))
    return n_ok


def task_cutoff(ctx):
    """Parser.forward lists a pair iff same molecule, both atoms real, i < j and |ri-rj|^2 < cutoff^2 (every in/out combination of the candidate pairs; symbolic coordinates and cutoff), with correct index maps and pair geometry."""
    fn = ctx.under_contract(BAS + ":Parser.forward")
    species = [[8, 1, 1], [1, 1, 0]] if ctx.tier == "quick" else [[8, 1, 1], [6, 1, 1]]
    cutoff = real("cutoff")

    def thunk():
        assume(cutoff > 0)
        ps = make_parser(cutoff)
        mol = parser_molecule(species)
        return mol, fn(ps, mol, "AM1")

    ex = ctx.explore(thunk, name="Parser.forward", max_paths=2048)
    n = check_parser_paths(ctx, ex, species, cutoff, "cutoff")
    npairs = sum(len([z for z in row if z > 0]) * (len([z for z in row if z > 0]) - 1) // 2 for row in species)
    if n != 2 ** npairs:
        ctx.error("paths", "expected 2^%d in/out combinations of the candidate pairs, got %d" % (npairs, n))
    ctx.assume_note("shape-bounded: batch [O,H,H],[H,H,pad]; coordinates (incl. the padding slot's) and the cutoff are symbolic")


def replay_default_cutoff(model):
    """real code: settings WITHOUT pair_outer_cutoff, two H2 molecules 150 A apart in one 'molecule': every one of the 6 atom pairs
    must be listed (the default cutoff drops no interaction at any distance)."""
    import torch
    from seqm.seqm_functions.constants import Constants
    from seqm.Molecule import Molecule

    torch.set_default_dtype(torch.float64)
    params = {"method": "AM1", "scf_eps": 1e-7, "scf_converger": [1], "sp2": [False, 1e-5], "elements": [0, 1], "learned": [], "eig": True}
    mol = Molecule(Constants(), params, torch.tensor([[[0.0, 0, 0], [0.74, 0, 0], [150.0, 3.0, 1.0], [150.74, 3.0, 1.0]]]), torch.tensor([[1, 1, 1, 1]]))
    n = int(len(mol.idxi))
    return {"reproduced": n != 6, "pairs_listed": n, "pairs_expected": 6, "largest_distance_A": 150.8}


def task_default_cutoff(ctx):
    """default cutoff: Parser.__init__ reads pair_outer_cutoff with default 1e10 (Angstrom): nothing is dropped below 1e10 A."""
    import seqm.basics as B

    ctx.under_contract(BAS + ":Parser.__init__")

    def thunk():
        ps = B.Parser({"elements": [0, 1, 8]})
        return ps.outercutoff

    ex = ctx.explore(thunk, name="Parser.__init__")
    v = ex.paths[0].value
    ctx.prove("default-cutoff=1e10", S(v) == S(Fraction(10) ** 10), replay=replay_default_cutoff)
    import seqm.seqm_functions.constants as C

    ctx.prove("overlap-cutoff-documented (40 bohr; dropped terms < e^-40)", S(E.frac_of_float(C.overlap_cutoff)) == 40)
    ctx.undecided_clause("asymptotic fall-off rate of fragment interaction energies (a limit)")
    ctx.undecided_clause("the separate overlap cutoff (rij <= 40 bohr) drops resonance integrals of magnitude < e^-40: documented, not a violation of the stated pair-cutoff semantics")


def replay_monopole(model):
    """real pair_nuclear_energy (MNDO) for an O-C pair at the model's distance (and at 10 / 30 / 100 bohr) with (ss|ss) handed in:
    the result must be Z_A Z_B (ss|ss) (1 + exp(-alpha_A R) + exp(-alpha_B R)) at every distance."""
    import math
    import torch
    from seqm.seqm_functions.energy import pair_nuclear_energy
    from seqm.seqm_functions.constants import Constants
    import seqm.seqm_functions.constants as C

    torch.set_default_dtype(torch.float64)
    const = Constants()
    rows, bad = [], False
    rs = [abs(model_float(model, "rij_0", 50.0)) or 50.0, 10.0, 30.0, 100.0]
    for r in rs:
        gam = C.ev / math.sqrt(r * r + 1.5 ** 2)
        al = torch.tensor([3.16, 2.55])
        got = float(pair_nuclear_energy(None, const, 1, torch.tensor([8]), torch.tensor([6]), torch.tensor([0]), torch.tensor([1]), torch.tensor([r]), None, None, None, None,
                                        gam=torch.tensor([gam]), method="MNDO", parameters=(al,))[0])
        R = r * C.a0
        want = 6.0 * 4.0 * gam * (1 + math.exp(-3.16 * R) + math.exp(-2.55 * R))
        rows.append({"r_bohr": r, "computed_eV": got, "Z_A Z_B (ss|ss)(1+...)_eV": want, "difference_eV": got - want})
        bad = bad or abs(got - want) > 1e-9
    return {"reproduced": bad, "pair": "O-C, MNDO, (ss|ss) = ev/sqrt(r^2 + 1.5^2)", "rows": rows}


def task_monopole(ctx):
    """The monopole part of core-core, core-electron and electron-electron interaction uses the one integral (ss|ss)."""
    from contracts import C02_rigid_motion as C02
    from spec import nddo

    fw = ctx.under_contract(C02.TGT_W, stubs=[C02.TGT_ROT])
    fp = ctx.under_contract("seqm.seqm_functions.energy:pair_nuclear_energy")
    ni, nj, xij, ri, riXH, wHH, tore = C02._pairs_setup()
    Rsym = st.symbolic((3, 3, 3), "R")

    def thunk():
        e1b, e2a, wXH, w = fw(None, tore, ni, nj, xij, riXH, ri, wHH)
        gam = st.tensor([w.a[0, 0], wXH.a[0, 0], wHH.a[0]])
        const = Obj(tore=tore, atomic_num=None)
        alpha = st.symbolic((6,), "alpha")
        idxi, idxj = st.tensor([0, 2, 4]), st.tensor([1, 3, 5])
        En = fp(None, const, 1, ni, nj, idxi, idxj, st.symbolic((3,), "rij"), None, None, None, None, gam=gam, method="MNDO", parameters=(alpha,))
        return e1b, e2a, w, wXH, En, gam

    ex = ctx.explore(thunk, stubs={C02.TGT_ROT: lambda v, calculate_gradient=False: Rsym}, constants={"a0": real("a0"), "ev": real("ev")}, name="monopole")
    if len(ex.paths) != 1 or ex.paths[0].raised is not None:
        ctx.error("paths", "%r %s" % ([p.raised for p in ex.paths], ex.paths[0].notes.get("traceback", "")[-700:] if ex.paths else ""))
        return
    e1b, e2a, w, wXH, En, gam = ex.paths[0].value
    Zs = {0: (real("tore8"), real("tore6")), 1: (real("tore8"), real("tore1")), 2: (real("tore1"), real("tore1"))}
    ss = {0: ri.a[0, 0], 1: riXH.a[0, 0], 2: wHH.a[0]}
    a0 = real("a0")
    expf = lambda z: Sym(E.fn("exp", E.node_of(z)))
    for p in range(3):
        ZA, ZB = Zs[p]
        ctx.prove_eq("pair%d.(ss|ss)-in-w" % p, gam.a[p], ss[p])
        ctx.prove_eq("pair%d.core-electron(A<-B)=-Z_B(ss|ss)" % p, e1b.a[p, 0, 0], -ZB * ss[p])
        ctx.prove_eq("pair%d.core-electron(B<-A)=-Z_A(ss|ss)" % p, e2a.a[p, 0, 0], -ZA * ss[p])
        R = real("rij_%d" % p) * a0
        al = (real("alpha_%d" % (2 * p)), real("alpha_%d" % (2 * p + 1)))
        want = nddo.core_core("MNDO", ZA, ZB, ss[p], R, al[0], al[1], p == 1, [], [], expf)
        ctx.prove_eq("pair%d.core-core=Z_A Z_B (ss|ss)(1+...)" % p, En.a[p], want, replay=replay_monopole, classify=lambda m_, r: "core-core-not-the-monopole-integral")
    ctx.assume_note("(ss|ss) -> ev/sqrt(r^2 + (rho0A+rho0B)^2) is proved in C06 (local_frame); with it the monopole parts of core-core, core-electron and electron-electron terms cancel for neutral spherical populations")


def task_hcore_far_pairs(ctx):
    """Long-range cancellation needs all four Coulomb terms of a far pair: the core Hamiltonian's diagonal block of EVERY atom
    contains the attraction to the core of every listed partner, also beyond the overlap cutoff (40 bohr), where only the
    resonance (overlap) block is dropped.  Contract shared with C06's hcore_assembly (every near/far pattern of a four-pair batch)."""
    from contracts.C06_nddo_model import task_hcore_assembly

    task_hcore_assembly(ctx)


TASKS_QUICK = ["cutoff", "default_cutoff", "monopole", "hcore_far_pairs"]
TASKS_THOROUGH = TASKS_QUICK
