"""C01 -- forces are the exact negative gradient: analytical integral-derivative layer and plumbing.

Sign convention (from the call sites in scf_analytic_grad / contract_ao_derivatives_with_density and the
comment "when I want to do Xi+delta I have to subtract delta from Xij"): Xij = X_j - X_i, every *_x array is the
derivative with respect to the position of the pair's FIRST atom i, r0 = |Xij|/a0, xij = Xij/|Xij|.
"""
from fractions import Fraction

from pyvc.api import *
from pyvc import symtorch as st, expr as E, poly as P

M2 = "seqm.seqm_functions.two_elec_two_center_int"
TGT_LF = "seqm.seqm_functions.two_elec_two_center_int_local_frame:two_elec_two_center_int_local_frame"
TGT_W = M2 + ":w_withquaternion"
TGT_ROT = M2 + ":rotate_with_quaternion"
TGT_DER = "seqm.seqm_functions.anal_grad:der_TETCILF"
TGT_WDER = "seqm.seqm_functions.anal_grad:w_der"

CONSTS = {"ev": real("ev"), "a0": real("a0")}


def _inputs():
    ni = st.tensor([8, 8, 1])
    nj = st.tensor([6, 1, 1])
    names = ["r0", "da0", "db0", "qa0", "qb0", "rho0a", "rho0b", "rho1a", "rho1b", "rho2a", "rho2b"]
    a = {n: st.symbolic((3,), n) for n in names}
    tore = st.zeros(10)
    for z in (1, 6, 8):
        tore.a[z] = real("tore%d" % z)
    xij = st.symbolic((3, 3), "x")
    Xij = st.symbolic((3, 3), "X")
    return ni, nj, a, tore, xij, Xij


def task_chain_lemma(ctx):
    """r0 = |Xij|/a0, xij = Xij/|Xij|, Xij = Xj - Xi  =>  d r0/d Xi_c = -Xij_c/(r0 a0^2) and
    d(-xij_b)/d Xi_c = (delta_bc - v_b v_c)/(r0 a0) with v = -xij."""
    a0 = real("a0")
    Xi = [real("Xi%d" % c) for c in range(3)]
    Xj = [real("Xj%d" % c) for c in range(3)]
    X = [Xj[c] - Xi[c] for c in range(3)]
    nrm = Sym(E.sqrt((X[0] * X[0] + X[1] * X[1] + X[2] * X[2]).n))
    r0 = nrm / a0
    v = [-(X[c] / nrm) for c in range(3)]
    for c in range(3):
        ctx.prove_eq("dr0/dXi[%d]" % c, Sym(E.diff(r0.n, Xi[c].n)), -X[c] / (r0 * a0 * a0))
        for b in range(3):
            ctx.prove_eq("dv[%d]/dXi[%d]" % (b, c), Sym(E.diff(v[b].n, Xi[c].n)), ((1 if b == c else 0) - v[b] * v[c]) / (r0 * a0))
    ctx.canary_eq("wrong-sign", Sym(E.diff(r0.n, Xi[0].n)), X[0] / (r0 * a0 * a0))


def _run_energy_and_derivative(ctx):
    f_lf = ctx.under_contract(TGT_LF)
    f_w = ctx.under_contract(TGT_W, stubs=[TGT_ROT])
    f_der = ctx.under_contract(TGT_DER, stubs=[TGT_ROT])
    ni, nj, a, tore, xij, Xij = _inputs()
    Rsym = st.symbolic((3, 3, 3), "R")
    dRsym = st.symbolic((3, 3, 3, 3), "dR")  # dR[p, b, i, j] = d rot[p,i,j] / d v_b

    def rot_stub(v, calculate_gradient=False):
        return (Rsym, dRsym) if calculate_gradient else Rsym

    def thunk():
        riHH, riXH, ri, _, _, _ = f_lf(ni, nj, a["r0"], tore, a["da0"], a["db0"], a["qa0"], a["qb0"], a["rho0a"], a["rho0b"], a["rho1a"], a["rho1b"], a["rho2a"], a["rho2b"], "AM1")
        e1b, e2a, wXH, w = f_w(None, tore, ni, nj, xij, riXH, ri, riHH)
        w_x = st.zeros(3, 3, 10, 10)
        f_der(w_x, ni, nj, xij, Xij, a["r0"], a["da0"], a["db0"], a["qa0"], a["qb0"], a["rho0a"], a["rho0b"], a["rho1a"], a["rho1b"], a["rho2a"], a["rho2b"], riXH, ri)
        return riHH, wXH, w, w_x

    ex = ctx.explore(thunk, stubs={TGT_ROT: rot_stub}, constants=CONSTS, name="der_TETCILF")
    if len(ex.paths) != 1 or ex.paths[0].raised is not None:
        ctx.error("paths", "expected one straight-line path: %r %s" % ([p.raised for p in ex.paths], ex.paths[0].notes.get("traceback") if ex.paths else ""))
        return None
    return a, xij, Xij, Rsym, dRsym, ex.paths[0].value


def _total_derivative(expr, p, c, a, xij, Xij, Rsym, dRsym):
    """d expr / d Xi_c for pair p, expr a function of r0[p] and R[p]."""
    a0 = CONSTS["a0"]
    r0 = a["r0"].a[p]
    dr0 = -Xij.a[p, c] / (r0 * a0 * a0)
    v = [-xij.a[p, b] for b in range(3)]
    tot = Sym(E.diff(expr.n, r0.n)) * dr0
    for i in range(3):
        for j in range(3):
            dW = E.diff(expr.n, Rsym.a[p, i, j].n)
            if dW.op == "const" and dW.val == 0:
                continue
            dRdX = 0
            for b in range(3):
                dRdX = dRdX + dRsym.a[p, b, i, j] * (((1 if b == c else 0) - v[b] * v[c]) / (r0 * a0))
            tot = tot + Sym(dW) * dRdX
    return tot


def replay_der(model, p, c, ia, ib):
    """Real der_TETCILF vs central finite difference of the real energy routines (real torch, float64)."""
    import torch
    from seqm.seqm_functions.two_elec_two_center_int_local_frame import two_elec_two_center_int_local_frame as lf
    from seqm.seqm_functions.two_elec_two_center_int import w_withquaternion
    from seqm.seqm_functions.anal_grad import der_TETCILF
    from seqm.seqm_functions.constants import a0

    torch.set_default_dtype(torch.float64)
    ni = torch.tensor([8, 8, 1])
    nj = torch.tensor([6, 1, 1])
    tore = torch.zeros(10)
    tore[1], tore[6], tore[8] = 1.0, 4.0, 6.0
    g = lambda n, lo, hi: torch.tensor([min(max(abs(model_float(model, "%s_%d" % (n, q), 1.0)), lo), hi) for q in range(3)])
    par = {n: g(n, 0.1, 3.0) for n in ["da0", "db0", "qa0", "qb0", "rho0a", "rho0b", "rho1a", "rho1b", "rho2a", "rho2b"]}
    r0 = g("r0", 1.5, 6.0)
    x = torch.tensor([[model_float(model, "x_%d_%d" % (q, k), 0.3 + 0.2 * k) for k in range(3)] for q in range(3)])
    x = x / x.norm(dim=1, keepdim=True)
    X = x * r0[:, None] * a0

    def energy_w(Xd):
        r = Xd.norm(dim=1) / a0
        xx = Xd / Xd.norm(dim=1, keepdim=True)
        riHH, riXH, ri, _, _, _ = lf(ni, nj, r, tore, par["da0"], par["db0"], par["qa0"], par["qb0"], par["rho0a"], par["rho0b"], par["rho1a"], par["rho1b"], par["rho2a"], par["rho2b"], "AM1")
        _, _, wXH, w = w_withquaternion(None, tore, ni, nj, xx, riXH, ri, riHH)
        out = torch.zeros(3, 10, 10)
        out[0] = w.reshape(10, 10)
        out[1, :, 0] = wXH[0]
        out[2, 0, 0] = riHH[0]
        return out, riXH, ri

    w0, riXH, ri = energy_w(X)
    w_x = torch.zeros(3, 3, 10, 10)
    der_TETCILF(w_x, ni, nj, x, X.clone(), r0, par["da0"], par["db0"], par["qa0"], par["qb0"], par["rho0a"], par["rho0b"], par["rho1a"], par["rho1b"], par["rho2a"], par["rho2b"], riXH, ri)
    d = 1e-5
    Xp, Xm = X.clone(), X.clone()
    Xp[:, c] -= d  # moving atom i by +d changes Xij = Xj - Xi by -d
    Xm[:, c] += d
    fd = (energy_w(Xp)[0] - energy_w(Xm)[0]) / (2 * d)
    got, want = float(w_x[p, c, ia, ib]), float(fd[p, ia, ib])
    return {"reproduced": bool(abs(got - want) > 1e-6 * max(1.0, abs(want))), "analytical": got, "central_difference_of_energy_routine": want,
            "pair": ["O-C", "O-H", "H-H"][p], "component": c, "entry": [ia, ib], "r0_bohr": r0.tolist(), "xij": x.tolist()}


def _der_task(ctx, kinds):
    from spec import nddo

    got = _run_energy_and_derivative(ctx)
    if got is None:
        return
    a, xij, Xij, Rsym, dRsym, (riHH, wXH, w, w_x) = got
    order = nddo.pair_order()
    if "XX" in kinds:
        cs = kinds["XX"]
        for c in cs:
            for ia, (kk, ll) in enumerate(order):
                for ib, (mm, nn) in enumerate(order):
                    rhs = _total_derivative(w.a[0, ia * 10 + ib], 0, c, a, xij, Xij, Rsym, dRsym)
                    ctx.prove_eq("XX.w_x[%d,(%d%d|%d%d)]" % (c, kk, ll, mm, nn), w_x.a[0, c, ia, ib], rhs, replay=lambda m, c=c, ia=ia, ib=ib: replay_der(m, 0, c, ia, ib))
    if "XH" in kinds:
        for c in range(3):
            for ia, (kk, ll) in enumerate(order):
                rhs = _total_derivative(wXH.a[0, ia], 1, c, a, xij, Xij, Rsym, dRsym)
                ctx.prove_eq("XH.w_x[%d,(%d%d|ss)]" % (c, kk, ll), w_x.a[1, c, ia, 0], rhs, replay=lambda m, c=c, ia=ia: replay_der(m, 1, c, ia, 0))
                for ib in range(1, 10):
                    ctx.prove_eq("XH.w_x[%d,%d,%d]=0" % (c, ia, ib), w_x.a[1, c, ia, ib], 0)
    if "HH" in kinds:
        for c in range(3):
            rhs = _total_derivative(riHH.a[0], 2, c, a, xij, Xij, Rsym, dRsym)
            ctx.prove_eq("HH.w_x[%d,(ss|ss)]" % c, w_x.a[2, c, 0, 0], rhs, replay=lambda m, c=c: replay_der(m, 2, c, 0, 0))
        ctx.canary_eq("HH-derivative-not-energy", w_x.a[2, 0, 0, 0], riHH.a[0])
    ctx.assume_note("callee contract assumed here and proved in C02: rotate_with_quaternion(v,True) returns (rot, dRdv) with dRdv the Jacobian of rot w.r.t. v")
    ctx.assume_note("preconditions (chain lemma, proved in task chain_lemma): r0 = |Xij|/a0, xij = Xij/|Xij|, Xij = Xj - Xi")
    ctx.assume_note("physical constants ev, a0 enter as named symbols (float-constant rule ii); shape: one pair of each kind, pointwise in the pair axis")


def task_der_XX_x(ctx):
    """O1: every X-X entry of der_TETCILF's w_x, x component, is d/dX_i of the molecular-frame integral the energy routines produce (symbolic differentiation of the energy routine's own output)."""
    _der_task(ctx, {"XX": [0]})


def task_der_XX_y(ctx):
    """O1, y component (see der_XX_x)."""
    _der_task(ctx, {"XX": [1]})


def task_der_XX_z(ctx):
    """O1, z component (see der_XX_x)."""
    _der_task(ctx, {"XX": [2]})


def task_der_XH_HH(ctx):
    """O1 for the X-H (30 entries) and H-H (3 entries) pair kinds."""
    _der_task(ctx, {"XH": True, "HH": True})


def replay_clamp(model):
    """Real code: PM3 CH3Cl (g_pp - g_p2 of Cl is below 0.2 eV, so the energy path clamps h_pp to 0.1): analytical force
    vs central difference of the real total energy."""
    import torch
    from seqm.seqm_functions.constants import Constants
    from seqm.Molecule import Molecule
    from seqm.ElectronicStructure import Electronic_Structure

    torch.set_default_dtype(torch.float64)
    species = torch.tensor([[17, 6, 1, 1, 1]])
    coords = torch.tensor([[[0.0, 0.0, 1.80], [0.02, -0.01, 0.0], [1.03, 0.05, -0.35], [-0.51, 0.90, -0.36], [-0.52, -0.88, -0.33]]])

    def energy(c, analytical):
        params = {"method": "PM3", "scf_eps": 1e-10, "scf_converger": [2, 0.0], "sp2": [False, 1e-5], "elements": [0, 1, 6, 17], "learned": [], "pair_outer_cutoff": 1e10, "eig": True}
        if analytical:
            params["analytical_gradient"] = [True]
        mol = Molecule(Constants(), params, c.clone(), species)
        Electronic_Structure(params)(mol)
        return mol

    m = energy(coords, True)
    fz = float(m.force[0, 0, 2])
    d = 1e-4
    cp, cm = coords.clone(), coords.clone()
    cp[0, 0, 2] += d
    cm[0, 0, 2] -= d
    fd = -(float(energy(cp, False).Etot[0]) - float(energy(cm, False).Etot[0])) / (2 * d)
    return {"reproduced": bool(abs(fz - fd) > 1e-3), "molecule": "PM3 CH3Cl", "analytical_Fz(Cl)_eV_per_A": fz, "minus_central_difference_of_Etot": fd}


def task_prologue(ctx):
    """O3 (relational): the multipole parameters w_der hands to der_TETCILF are those two_elec_two_center_int hands to
    rotate for the energy (dd, qq, rho0, rho1, rho2 per atom)."""
    from contracts.md_common import Obj
    from contracts.es_common import tore_table

    M2 = "seqm.seqm_functions.two_elec_two_center_int"
    AG = "seqm.seqm_functions.anal_grad"
    fe = ctx.under_contract(M2 + ":two_elec_two_center_int", stubs=["rotate", "additive_term_rho1/2", "dd_qq", "POIJ"])
    fw = ctx.under_contract(AG + ":w_der", stubs=["der_TETCILF", "additive_term_rho1/2", "dd_qq"])
    cap = {}

    def uf_tensor(name, *args):
        n = len(args[0])
        return st.tensor([Sym(E.uf(name, tuple(a.a[k].n for a in args), E.R)) for k in range(n)]) if n else st.zeros(0)

    rho1 = Obj(apply=lambda hsp, dd: uf_tensor("rho1", hsp, dd))
    rho2 = Obj(apply=lambda hpp, qq: uf_tensor("rho2", hpp, qq))

    def ddqq(qn, zs, zp):
        return uf_tensor("dd", qn, zs, zp), uf_tensor("qq", qn, zs, zp)

    def rotate_stub(ni, nj, xij, rij, tore, da, db, qa, qb, dpa, dpb, dsa, dsb, dda, ddb, rho0a, rho0b, rho1a, rho1b, rho2a, rho2b, *rest, **kw):
        cap["energy"] = dict(da=da, db=db, qa=qa, qb=qb, rho0a=rho0a, rho0b=rho0b, rho1a=rho1a, rho1b=rho1b, rho2a=rho2a, rho2b=rho2b)
        n = len(ni)
        return st.zeros(n, 10, 10), st.zeros(n, 4, 4), st.zeros(n, 4, 4), st.zeros(0, 4), st.zeros(n, 22)

    def der_stub(w_x, ni, nj, xij, Xij, r0, da0, db0, qa0, qb0, rho0a, rho0b, rho1a, rho1b, rho2a, rho2b, riXH, ri):
        cap["deriv"] = dict(da=da0, db=db0, qa=qa0, qb=qb0, rho0a=rho0a, rho0b=rho0b, rho1a=rho1a, rho1b=rho1b, rho2a=rho2a, rho2b=rho2b)

    Z = st.tensor([8, 6])
    names = ["zetas", "zetap", "gss", "gpp", "gp2", "hsp"]
    par = {n: st.symbolic((2,), n) for n in names}
    const = Obj(tore=tore_table(), qn=st.tensor([0.0, 1, 1, 2, 2, 2, 2, 2, 2, 2]), qnD_int=st.zeros(10, dtype=st.int64))
    idxi, idxj = st.tensor([0]), st.tensor([1])
    ni, nj = st.tensor([8]), st.tensor([6])
    xij, rij = st.symbolic((1, 3), "x"), st.symbolic((1,), "rij")
    zeros = st.zeros(2)

    def thunk():
        fe(const, idxi, idxj, ni, nj, xij, rij, Z, par["zetas"], par["zetap"], zeros, zeros, zeros, zeros, par["gss"], par["gpp"], par["gp2"], par["hsp"], zeros, zeros, zeros, None, None, "AM1")
        fw(const, Z, const.tore, ni, nj, st.zeros(1, 3, 10, 10), rij, xij, st.symbolic((1, 3), "X"), idxi, idxj, par["gss"], par["gpp"], par["gp2"], par["hsp"], par["zetas"], par["zetap"], None, st.zeros(1, 22))
        return dict(cap)

    stubs = {M2 + ":rotate": rotate_stub, M2 + ":additive_term_rho1": rho1, M2 + ":additive_term_rho2": rho2, M2 + ":dd_qq": ddqq,
             M2 + ":POIJ": lambda l, d, fg: st.zeros(len(d)) if isinstance(d, st.T) else st.zeros(len(fg)),
             AG + ":der_TETCILF": der_stub, AG + ":additive_term_rho1": rho1, AG + ":additive_term_rho2": rho2, AG + ":dd_qq": ddqq}
    ex = ctx.explore(thunk, stubs=stubs, constants=CONSTS, name="prologue")
    ok = [p for p in ex.paths if p.raised is None]
    for p in ex.paths:
        if p.raised is not None:
            ctx.fail("raises@p%d" % p.path_id, repr(p.raised) + p.notes.get("traceback", "")[-800:])
    for p in ok:
        c = p.value
        for key in ("da", "db", "qa", "qb", "rho0a", "rho0b", "rho1a", "rho1b", "rho2a", "rho2b"):
            ctx.prove("same-%s-for-energy-and-derivative@p%d" % (key, p.path_id), c["energy"][key].a[0] == c["deriv"][key].a[0], pc=p.pc,
                      replay=replay_clamp, classify=lambda m, r: "hpp-clamp-missing-in-derivative-prologue")
    ctx.assume_note("rho1/rho2 secant solvers, dd_qq and POIJ are uninterpreted functions of their arguments (same function in both call sites)")


def task_core_core_der(ctx):
    """O2: core_core_der = d/dX_i of pair_nuclear_energy (MNDO, AM1, PM3; N-H/O-H form; Gaussians), given the callee
    contract w_x[:, :, 0, 0] = d(ss|ss)/dX_i (task der_*)."""
    from contracts.C06_nddo_model import _pair_setup
    from contracts.md_common import Obj

    fe = ctx.under_contract("seqm.seqm_functions.energy:pair_nuclear_energy")
    fd = ctx.under_contract("seqm.seqm_functions.anal_grad:core_core_der")
    a0 = CONSTS["a0"]
    for method, ng in (("MNDO", 1), ("AM1", 4), ("PM3", 2)):
        Z, idxi, idxj, ni, nj, const, alpha, K, L, M, rij, gam = _pair_setup(ng)
        xij = st.symbolic((len(idxi), 3), "x")
        WX = st.symbolic((len(idxi), 3), "dgam")  # d(ss|ss)/dX_i

        def thunk():
            pars = (alpha,) if method == "MNDO" else (alpha, K, L, M)
            En = fe(None, const, 1, ni, nj, st.tensor(idxi), st.tensor(idxj), rij, None, None, None, None, gam=gam, method=method, parameters=pars)
            mol = Obj(ni=ni, nj=nj, idxi=st.tensor(idxi), idxj=st.tensor(idxj), xij=xij, rij=rij, const=const)
            w_x = st.zeros(len(idxi), 3, 10, 10)
            for k in range(len(idxi)):
                for c in range(3):
                    w_x.a[k, c, 0, 0] = WX.a[k, c]
            pars2 = (alpha.clone(),) if method == "MNDO" else (alpha.clone(), K, L, M)
            g = fd(mol, gam, w_x, method, pars2)
            return En, g

        ex = ctx.explore(thunk, constants=CONSTS, name="core_core_der " + method)
        if len(ex.paths) != 1 or ex.paths[0].raised is not None:
            ctx.error(method + ".paths", "%r %s" % ([p.raised for p in ex.paths], ex.paths[0].notes.get("traceback", "")[-600:] if ex.paths else ""))
            continue
        En, g = ex.paths[0].value
        for k in range(len(idxi)):
            dEdr = Sym(E.diff(En.a[k].n, rij.a[k].n))
            dEdg = Sym(E.diff(En.a[k].n, gam.a[k].n))
            for c in range(3):
                want = dEdr * (-xij.a[k, c] / a0) + dEdg * WX.a[k, c]
                ctx.prove_eq("%s.pair[%d-%d].dE/dX_i[%d]" % (method, Z[idxi[k]], Z[idxj[k]], c), g.a[k, c], want)
    ctx.assume_note("chain rule: r_ij = |X_j - X_i|/a0 and x_ij = (X_j - X_i)/|X_j - X_i| give d r_ij/d X_i = -x_ij/a0 (task chain_lemma)")


def replay_uhf_batch_forces(model):
    """real code: analytical vs reverse-mode forces for a UHF batch of two different doublets (CH3, distorted CH3)."""
    import torch
    from seqm.seqm_functions.constants import Constants
    from seqm.Molecule import Molecule
    from seqm.ElectronicStructure import Electronic_Structure

    torch.set_default_dtype(torch.float64)
    species = torch.tensor([[6, 1, 1, 1], [6, 1, 1, 1]])
    coords = torch.tensor([[[0.0, 0, 0.05], [1.08, 0, 0], [-0.54, 0.94, 0], [-0.54, -0.94, 0]], [[0.0, 0, 0.15], [1.12, 0.05, 0], [-0.50, 0.98, 0.03], [-0.58, -0.90, -0.04]]])

    def forces(analytical):
        params = {"method": "AM1", "scf_eps": 1e-10, "scf_converger": [1], "sp2": [False, 1e-5], "elements": [0, 1, 6], "learned": [], "pair_outer_cutoff": 1e10, "eig": True, "UHF": True}
        if analytical:
            params["analytical_gradient"] = [True]
        mol = Molecule(Constants(), params, coords.clone(), species, mult=torch.tensor([2, 2]))
        Electronic_Structure(params)(mol)
        return mol.force.detach().clone()

    fa, fb = forces(True), forces(False)
    d = float((fa - fb).abs().max())
    return {"reproduced": bool(d > 1e-5), "input": "AM1 UHF batch [CH3, distorted CH3], doublets", "max|analytical - reverse-mode| eV/A": d}


def _contraction(ctx, padded, uhf=False):
    """O4 (Dewar-Yamaguchi contraction): with the density fixed, the gradient assembled from the AO-basis derivative blocks
    equals the first-order variation of  elec_energy(P, fock(P, M, w), Hcore) + pair terms  computed with the REAL fock and
    elec_energy (the energy is linear in (M, w) at fixed P, so the variation is the same functional evaluated on the
    derivative blocks with the geometry-independent one-centre integrals set to zero)."""
    from contracts.C06_nddo_model import fock_inputs
    from contracts.md_common import Obj

    AG = "seqm.seqm_functions.anal_grad"
    fc = ctx.under_contract(AG + ":contract_ao_derivatives_with_density")
    ff = ctx.under_contract("seqm.seqm_functions.fock:fock")
    fe = ctx.under_contract("seqm.seqm_functions.energy:elec_energy")
    d, P, Mfull, M, w, onec = fock_inputs(padded)
    if uhf:
        ffu = ctx.under_contract("seqm.seqm_functions.fock_u_batch:fock_u_batch")
        n_ = 4 * d.molsize
        P = st.zeros(d.nmol, 2, n_, n_)
        Pc = fock_inputs(padded)[1]
        for m in range(d.nmol):
            for s_, nm in enumerate(("Pa", "Pb")):
                for i in range(n_):
                    for j in range(i, n_):
                        # same sparsity as the closed-shell trial density (nothing on padding / hydrogen p slots), different values per spin
                        if isinstance(Pc.a[m, i, j], Sym) and not (Pc.a[m, i, j].n.op == "const" and Pc.a[m, i, j].n.val == 0):
                            P.a[m, s_, i, j] = P.a[m, s_, j, i] = real("%s_%d_%d_%d" % (nm, m, i, j))
    npairs = len(d.pairs)
    ov = st.symbolic((npairs, 3, 4, 4), "ov")      # 2 * d M_AB / d X_i  (= (beta_i+beta_j) dS/dX_i, see overlap_der_finiteDiff)
    wx = st.symbolic((npairs, 3, 10, 10), "wx")    # d w / d X_i
    pg = st.symbolic((npairs, 3), "pg")            # d EnucAB / d X_i
    e1 = st.zeros(npairs, 3, 4, 4)
    e2 = st.zeros(npairs, 3, 4, 4)
    for k in range(npairs):
        for c in range(3):
            for i in range(4):
                for j in range(i, 4):
                    e1.a[k, c, i, j] = real("e1_%d_%d_%d_%d" % (k, c, i, j))
                    e2.a[k, c, i, j] = real("e2_%d_%d_%d_%d" % (k, c, i, j))
    zero_onec = st.zeros(len(d.flat))
    mol = Obj(species=d.species)

    def thunk():
        grad = fc(P.clone(), mol, d.molsize, ov.clone(), e1.clone(), e2.clone(), wx.clone(), pg.clone(), d.mask, d.maskd, d.idxi, d.idxj)
        specs = {}
        for a, (m, ia, z) in enumerate(d.flat):
            for c in range(3):
                sgn = [(1 if int(d.idxi.a[k]) == a else (-1 if int(d.idxj.a[k]) == a else 0)) for k in range(npairs)]
                if not any(sgn):
                    specs[(a, c)] = S(0.0)
                    continue
                M1 = st.zeros(d.nmol * d.molsize * d.molsize, 4, 4)
                w1 = st.zeros(npairs, 10, 10)
                nuc = 0
                for k in range(npairs):
                    if not sgn[k]:
                        continue
                    M1.a[int(d.mask.a[k])] = M1.a[int(d.mask.a[k])] + sgn[k] * (ov.a[k, c] * Fraction(1, 2))
                    bi, bj = int(d.maskd.a[int(d.idxi.a[k])]), int(d.maskd.a[int(d.idxj.a[k])])
                    M1.a[bi] = M1.a[bi] + sgn[k] * e1.a[k, c]
                    M1.a[bj] = M1.a[bj] + sgn[k] * e2.a[k, c]
                    w1.a[k] = sgn[k] * wx.a[k, c]
                    nuc = nuc + sgn[k] * pg.a[k, c]
                F1 = (ffu if uhf else ff)(d.nmol, d.molsize, P, M1, d.maskd, d.mask, d.idxi, d.idxj, w1, None, zero_onec, zero_onec, zero_onec, zero_onec, zero_onec, "AM1",
                                          None, None, None, d.Z, None, None)
                H1 = M1.reshape(d.nmol, d.molsize, d.molsize, 4, 4).transpose(2, 3).reshape(d.nmol, 4 * d.molsize, 4 * d.molsize)
                Ee = fe(P, F1, H1)
                specs[(a, c)] = Ee.a[m] + nuc
        return grad, specs

    ex = ctx.explore(thunk, name="contract_ao_derivatives")
    if len(ex.paths) != 1 or ex.paths[0].raised is not None:
        ctx.error("paths", "%r %s" % ([p.raised for p in ex.paths], ex.paths[0].notes.get("traceback", "")[-800:] if ex.paths else ""))
        return
    grad, specs = ex.paths[0].value
    tag = ("padded" if padded else "dense") + (".uhf" if uhf else "")
    for a, (m, ia, z) in enumerate(d.flat):
        for c in range(3):
            ctx.prove_eq("%s.grad[mol%d,atom%d,%d]=variation-of-the-energy-functional" % (tag, m, ia, c), grad.a[m, ia, c], specs[(a, c)], shape="batch " + ("[OHH, HH+pad]" if padded else "[OH, HH]"),
                         replay=replay_uhf_batch_forces if uhf else None, classify=(lambda m_, r: "uhf-batch-layout") if uhf else None)
    if padded:
        for c in range(3):
            ctx.prove_eq(tag + ".grad[padding-slot,%d]=0" % c, grad.a[1, 2, c], 0)
    ctx.canary_eq(tag + ".sign-of-second-atom", grad.a[0, 1, 0], specs[(0, 0)])
    ctx.assume_note("interface precondition: overlap_KAB_x = (beta_i+beta_j) dS/dX_i = 2 dM_AB/dX_i (task overlap_scaling); e1b_x/e2a_x carry the upper triangle; all *_x blocks are derivatives w.r.t. the pair's first atom and the pair terms depend on X_j - X_i only (translation: dE/dX_j = -dE/dX_i)")


def replay_nac_covariance(model):
    """real code: AM1/CIS nonadiabatic coupling vectors of a tilted, distorted formaldehyde before and after a generic rotation +
    translation: each NAC vector must rotate with the molecule (up to the arbitrary sign of a CIS state)."""
    import io, contextlib, math
    import torch
    from seqm.seqm_functions.constants import Constants
    from seqm.Molecule import Molecule
    from seqm.ElectronicStructure import Electronic_Structure

    torch.set_default_dtype(torch.float64)
    sp = torch.tensor([[8, 6, 1, 1]])
    x0 = torch.tensor([[[0.03, 0.02, -0.01], [1.19, 0.31, 0.22], [1.71, 1.21, 0.35], [1.85, -0.55, 0.41]]])

    def rot(a, b, c):
        ca, sa, cb, sb, cc, sc = math.cos(a), math.sin(a), math.cos(b), math.sin(b), math.cos(c), math.sin(c)
        Rz = torch.tensor([[ca, -sa, 0], [sa, ca, 0], [0, 0, 1.0]])
        Ry = torch.tensor([[cb, 0, sb], [0, 1.0, 0], [-sb, 0, cb]])
        Rx = torch.tensor([[1.0, 0, 0], [0, cc, -sc], [0, sc, cc]])
        return Rz @ Ry @ Rx

    def nac(x):
        params = {"method": "AM1", "scf_eps": 1e-10, "scf_converger": [1], "sp2": [False, 1e-5], "elements": [0, 1, 6, 8], "learned": [], "pair_outer_cutoff": 1e10, "eig": True,
                  "excited_states": {"n_states": 3, "method": "cis", "tolerance": 1e-10}, "nonadiabatic": {"compute_nac": True}, "active_state": 1, "analytical_gradient": [True]}
        mol = Molecule(Constants(), params, x, sp)
        with contextlib.redirect_stdout(io.StringIO()):
            Electronic_Structure(params)(mol)
        return {k: v[0].detach().clone() for k, v in mol.nac.items()}

    R = rot(0.7, -0.4, 1.1)
    a = nac(x0)
    b = nac(x0 @ R.T + torch.tensor([0.3, -1.2, 0.8]))
    worst = 0.0
    for k in a:
        ra = a[k] @ R.T
        dev = min(float((ra - b[k]).abs().max()), float((ra + b[k]).abs().max()))
        worst = max(worst, dev / max(1e-12, float(a[k].abs().max())))
    return {"reproduced": worst > 1e-6, "max_relative_deviation_from_covariance": worst, "state_pairs": [str(k) for k in a]}


def nac_contraction(ctx, padded=False):
    """the derivative operators nac.py assembles (overlap / exchange block, Coulomb-dressed core-attraction blocks, upper triangles
    doubled) contracted with a SYMMETRIC transition density B equal  sum_(mu nu) B_(mu nu) dF_(mu nu)/dX  with F the REAL fock at the
    ground-state density (F is linear in (M, w) at fixed P, so dF/dX is fock evaluated on the derivative blocks with the
    geometry-independent one-centre integrals set to zero).  Hence the coupling vectors are covariant whenever the integral
    derivatives are (C01 / C02 tasks) -- and every entry of both core-attraction blocks must carry its weight."""
    from contracts.C06_nddo_model import fock_inputs
    from contracts.md_common import Obj
    import seqm.seqm_functions.nac as NAC

    NM = "seqm.seqm_functions.nac"
    fb = ctx.under_contract(NM + ":_build_nac_derivative_operators", stubs=["overlap_der_finiteDiff", "w_der"])
    fcn = ctx.under_contract(NM + ":_contract_nac_density_batch")
    ff = ctx.under_contract("seqm.seqm_functions.fock:fock")
    from contracts.es_common import batch_description

    # [CO, CH]: a pair of two heavy atoms (the second atom's core-attraction block has all ten entries) and a heavy-hydrogen pair
    d = batch_description(False, species=[[8, 6], [6, 1]])
    npairs = len(d.pairs)
    n = 4 * d.molsize
    P = st.zeros(d.nmol, n, n)
    B = st.zeros(d.nmol, n, n)
    for m in range(d.nmol):
        for i in range(n):
            for j in range(i, n):
                # nothing on the p slots of hydrogen (atom 1 of molecule 1)
                if m == 1 and (i > 4 or j > 4):
                    continue
                P.a[m, i, j] = P.a[m, j, i] = real("P_%d_%d_%d" % (m, i, j))
                B.a[m, i, j] = B.a[m, j, i] = real("B_%d_%d_%d" % (m, i, j))
    ov = st.symbolic((npairs, 3, 4, 4), "ov")
    wx = st.symbolic((npairs, 3, 10, 10), "wx")
    e1 = st.zeros(npairs, 3, 4, 4)
    e2 = st.zeros(npairs, 3, 4, 4)
    for k in range(npairs):
        for c in range(3):
            for i in range(4):
                for j in range(i, 4):
                    e1.a[k, c, i, j] = real("e1_%d_%d_%d_%d" % (k, c, i, j))
                    e2.a[k, c, i, j] = real("e2_%d_%d_%d_%d" % (k, c, i, j))
    zero_onec = st.zeros(len(d.flat))
    nat = len(d.flat)
    mol = Obj(rij=st.symbolic((npairs,), "rij"), xij=st.symbolic((npairs, 3), "xij"), idxi=d.idxi, idxj=d.idxj, ni=d.ni, nj=d.nj, Z=d.Z, mask=d.mask, maskd=d.maskd,
              parameters={k: st.symbolic((nat,), k) for k in ("zeta_s", "zeta_p", "g_ss", "g_pp", "g_p2", "h_sp")}, const=Obj(qn_int=st.tensor([0, 1, 1, 2, 2, 2, 2, 2, 2, 2]), tore=st.zeros(10)))
    mol.parameters["beta"] = st.symbolic((nat, 2), "beta")

    def ov_stub(overlap_x, *a):
        overlap_x.a[...] = ov.a
        return None

    def wder_stub(const, Z, tore, ni, nj, w_x, *a):
        w_x.a[...] = wx.a
        return e1.clone(), e2.clone()

    def blocks(X):
        return X.reshape(d.nmol, d.molsize, 4, d.molsize, 4).transpose(2, 3).reshape(d.nmol * d.molsize * d.molsize, 4, 4).clone()

    def thunk():
        Pb = blocks(P)
        ops = fb(mol, Pb, object(), object(), st.float64, st._CPU)
        Bb = blocks(B).reshape(d.nmol * d.molsize * d.molsize, 1, 4, 4)
        nacv = fcn(mol, Bb, ops[0], ops[1], ops[2], d.nmol, d.molsize)
        specs = {}
        for a, (m, ia, z) in enumerate(d.flat):
            for c in range(3):
                sgn = [(1 if int(d.idxi.a[k]) == a else (-1 if int(d.idxj.a[k]) == a else 0)) for k in range(npairs)]
                if not any(sgn):
                    specs[(a, c)] = S(0.0)
                    continue
                M1 = st.zeros(d.nmol * d.molsize * d.molsize, 4, 4)
                w1 = st.zeros(npairs, 10, 10)
                for k in range(npairs):
                    if not sgn[k]:
                        continue
                    M1.a[int(d.mask.a[k])] = M1.a[int(d.mask.a[k])] + sgn[k] * (ov.a[k, c] * Fraction(1, 2))
                    bi, bj = int(d.maskd.a[int(d.idxi.a[k])]), int(d.maskd.a[int(d.idxj.a[k])])
                    M1.a[bi] = M1.a[bi] + sgn[k] * e1.a[k, c]
                    M1.a[bj] = M1.a[bj] + sgn[k] * e2.a[k, c]
                    w1.a[k] = sgn[k] * wx.a[k, c]
                F1 = ff(d.nmol, d.molsize, P, M1, d.maskd, d.mask, d.idxi, d.idxj, w1, None, zero_onec, zero_onec, zero_onec, zero_onec, zero_onec, "AM1", None, None, None, d.Z, None, None)
                specs[(a, c)] = sum((B.a[m, i, j] * F1.a[m, i, j] for i in range(n) for j in range(n)), S(0))
        return nacv, specs

    ex = ctx.explore(thunk, stubs={NM + ":overlap_der_finiteDiff": ov_stub, NM + ":w_der": wder_stub}, name="nac operators", constants={"a0": real("a0")})
    if len(ex.paths) != 1 or ex.paths[0].raised is not None:
        p0 = ex.paths[0] if ex.paths else None
        if p0 is not None and isinstance(p0.raised, Unmodelled):
            raise p0.raised
        ctx.error("nac_contraction.paths", "%r %s" % ([p.raised for p in ex.paths], p0.notes.get("traceback", "")[-900:] if p0 else ""))
        return
    nacv, specs = ex.paths[0].value
    tag = "nac_contraction." + ("padded" if padded else "dense")
    rep = []
    rp = lambda mdl: (rep or rep.append(_rquiet(replay_nac_covariance)) or rep)[0]
    for a, (m, ia, z) in enumerate(d.flat):
        for c in range(3):
            ctx.prove_eq("%s.nac[mol%d,atom%d,%d]=sum B dF/dX" % (tag, m, ia, c), nacv.a[m, 0, ia, c], specs[(a, c)], shape="batch [CO, CH]", replay=rp,
                         classify=lambda m_, r: "nac-derivative-operator-weights")
    ctx.assume_note("nac_contraction: interface as in the gradient contraction (overlap block = 2 dM_AB/dX_i, upper triangles of the core-attraction blocks, derivatives w.r.t. the pair's first atom); one state pair; the division by the energy gap and the construction of B from CIS amplitudes are not covered; batch [CO, CH]")


def _rquiet(fn):
    import contextlib, io

    with contextlib.redirect_stdout(io.StringIO()):
        try:
            return fn({})
        except Exception as exc:  # noqa
            return {"reproduced": False, "error": repr(exc)[:300]}


def task_contraction_uhf(ctx):
    """O4, unrestricted reference: the contraction with different alpha / beta densities (batch of two molecules) equals the
    variation of the real open-shell elec_energy(P, fock_u_batch(P))."""
    _contraction(ctx, False, uhf=True)


def task_contraction_uhf_padded(ctx):
    """O4, unrestricted reference on a zero-padded batch."""
    _contraction(ctx, True, uhf=True)


def task_contraction(ctx):
    """O4: the Dewar-Yamaguchi contraction of the analytical gradient equals d/dX of the real elec_energy(P, fock(P)) at fixed density (dense batch)."""
    _contraction(ctx, False)


def task_contraction_padded(ctx):
    """O4 on a zero-padded batch (padding slots contribute nothing)."""
    _contraction(ctx, True)


def task_overlap_scaling(ctx):
    """overlap_der_finiteDiff scales the finite-difference overlap derivative by (beta_i + beta_j), i.e. by twice the factor
    hcore uses for the off-diagonal core-Hamiltonian block."""
    AG = "seqm.seqm_functions.anal_grad"
    fo = ctx.under_contract(AG + ":overlap_der_finiteDiff", stubs=["diatom_overlap_matrix_PM6_SP"])
    calls = []

    def ov_stub(ni, nj, xij, rij, za, zb, qn):
        n = len(ni)
        t = st.symbolic((n, 4, 4), "S%d" % len([c for c in calls if c.shape[0] == 2]))
        calls.append(t)
        return t

    beta = st.symbolic((2, 2), "beta")

    def thunk():
        calls.clear()
        out = st.zeros(1, 3, 4, 4)
        fo(out, st.tensor([0]), st.tensor([1]), st.symbolic((1,), "rij"), st.symbolic((1, 3), "X"), beta, st.tensor([8]), st.tensor([6]), st.symbolic((2, 2), "zeta"), st.tensor([0, 1, 1, 2, 2, 2, 2, 2, 2, 2]))
        return out, list(calls)

    ex = ctx.explore(thunk, stubs={AG + ":diatom_overlap_matrix_PM6_SP": ov_stub}, constants=dict(CONSTS, delta=real("delta")), name="overlap_der_finiteDiff", max_paths=64)
    ok = [p for p in ex.paths if p.raised is None]
    if not ok:
        ctx.error("paths", "%r %s" % ([p.raised for p in ex.paths], ex.paths[0].notes.get("traceback", "")[-700:] if ex.paths else ""))
        return
    import seqm.seqm_functions.anal_grad as A

    dl = real("delta")
    ctx.prove("finite-difference-step-is-1e-5", S(E.frac_of_float(A.delta)) == S(Fraction(1, 10**5)))
    for p in ok:
        out, cl = p.value
        cl = [t for t in cl if t.shape[0] == 2]
        if len(cl) != 3:
            # beyond the overlap cutoff no overlap is evaluated and the derivative block is zero
            ctx.prove("beyond-overlap-cutoff=>zero@p%d" % p.path_id, E.and_(*[E.eq(v.n, E.const(Fraction(0), E.R)) for v in out.a.reshape(-1)]), pc=p.pc)
            continue
        for c in range(3):
            for i in range(4):
                for j in range(4):
                    fd = (cl[c].a[0, i, j] - cl[c].a[1, i, j]) / (2 * dl)
                    bi = beta.a[0, 0 if i == 0 else 1]
                    bj = beta.a[1, 0 if j == 0 else 1]
                    ctx.prove_eq("ov_x[%d,%d,%d]=(beta_i+beta_j)*central-difference@p%d" % (c, i, j, p.path_id), out.a[0, c, i, j], (bi + bj) * fd, pc=p.pc)
    ctx.undecided_clause("accuracy of the finite-difference overlap derivative itself (step 1e-5 A)")


TASKS_QUICK = ["chain_lemma", "core_core_der", "prologue", "contraction", "contraction_padded", "contraction_uhf", "contraction_uhf_padded", "overlap_scaling", "der_XX_x", "der_XX_y", "der_XX_z", "der_XH_HH"]
TASKS_THOROUGH = TASKS_QUICK
