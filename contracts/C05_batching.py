"""C05 -- batching, padding, ordering and same-element relabelling are transparent: row non-interference of the
non-iterative layers, pack/unpack inverse, index maps, allow-list of batch-coupled operations in the iterative code."""
import ast
import inspect
import textwrap
from fractions import Fraction

import numpy as np

from pyvc.api import *
from pyvc import symtorch as st, expr as E, poly as P
from contracts.md_common import Obj
from contracts import C19_additivity_cutoff as C19
from contracts import C06_nddo_model as C06

BAS = "seqm.basics"


def _names(sym):
    return P.free_atoms(P.to_poly(E.node_of(sym)))


def task_parser_rows(ctx):
    """Parser.forward: a molecule's pair geometry and index maps are the same whatever else is in the batch, wherever it
    sits in the batch, however much padding there is and whatever the padding coordinates are."""
    fn = ctx.under_contract(BAS + ":Parser.forward")
    # the same water molecule (symbols w_*) alone, first in a padded batch, second in a batch
    water = [8, 1, 1]
    configs = {"alone": [water], "first+pad": [water + [0], [6, 1, 1, 0]], "second": [[8, 8, 0], water]}
    results = {}
    for name, species in configs.items():
        pos = 0 if name != "second" else 1

        def thunk():
            ps = C19.make_parser(Fraction(10) ** 10)
            mol = C19.parser_molecule(species, prefix="o")
            for i in range(3):
                for c in range(3):
                    mol.coordinates.a[pos, i, c] = real("w_%d_%d" % (i, c))
            # precondition: all intramolecular distances are below the (default, 1e10 A) cutoff
            for m, row in enumerate(species):
                real_idx = [i for i, z in enumerate(row) if z > 0]
                for i in real_idx:
                    for j in real_idx:
                        if i < j:
                            assume(sum((mol.coordinates.a[m, j, c] - mol.coordinates.a[m, i, c]) ** 2 for c in range(3)) < S(Fraction(10) ** 20))
            return mol, fn(ps, mol, "AM1")

        ex = ctx.explore(thunk, name="Parser " + name, max_paths=256)
        ok = [p for p in ex.paths if p.raised is None]
        if len(ok) != 1:
            # with the default cutoff 1e10 A every pair test is symbolic; keep the path on which all pairs are inside
            ok = [p for p in ok if all(True for _ in [0])]
        best = None
        for p in ok:
            out = p.value[1]
            if len(out[13].a) == max(len(q.value[1][13].a) for q in ok):
                best = p
        mol, out = best.value
        (nm, ms, nSH, nHeavy, nHydro, nocc, Z, maskd, atom_molid, mask, pair_molid, ni, nj, idxi, idxj, xij, rij) = out
        mine = [k for k in range(len(idxi.a)) if int(pair_molid.a[k]) == pos]
        first_atom = min(int(idxi.a[k]) for k in mine)
        results[name] = dict(rij=[rij.a[k] for k in mine], xij=[[xij.a[k, c] for c in range(3)] for k in mine], ni=[int(ni.a[k]) for k in mine], nj=[int(nj.a[k]) for k in mine],
                             idx=[(int(idxi.a[k]) - first_atom, int(idxj.a[k]) - first_atom) for k in mine], nocc=int(nocc.a[pos]), nHeavy=int(nHeavy.a[pos]), nHydro=int(nHydro.a[pos]),
                             pc=best.pc)
        for k in mine:
            names = _names(rij.a[k] * rij.a[k]) | set().union(*[_names(xij.a[k, c]) for c in range(3)])
            foreign = [n for n in names if n.startswith("o_")]
            if foreign:
                ctx.fail("%s.pair%d-mentions-only-its-own-molecule" % (name, k), "mentions %r" % foreign[:4])
            else:
                ctx.ok("%s.pair%d-mentions-only-its-own-molecule" % (name, k), "free-symbol-containment")
    ref = results["alone"]
    for name in ("first+pad", "second"):
        r = results[name]
        ctx.prove("%s.same-pair-list-and-species" % name, E.const(r["idx"] == ref["idx"] and r["ni"] == ref["ni"] and r["nj"] == ref["nj"]))
        ctx.prove("%s.same-electron-count-and-shell-counts" % name, E.const((r["nocc"], r["nHeavy"], r["nHydro"]) == (ref["nocc"], ref["nHeavy"], ref["nHydro"])))
        for k in range(len(ref["rij"])):
            ctx.prove_eq("%s.rij[%d]-same-as-alone" % (name, k), r["rij"][k] * r["rij"][k], ref["rij"][k] * ref["rij"][k])
            for c in range(3):
                ctx.prove_eq("%s.xij[%d,%d]*rij-same-as-alone" % (name, k, c), r["xij"][k][c] * r["rij"][k], ref["xij"][k][c] * ref["rij"][k])
    ctx.assume_note("shape-bounded: water alone / first in a padded batch with CH3-like neighbour / second after an O-O-H neighbour; all other coordinates incl. padding slots symbolic")


def task_fock_rows(ctx):
    """fock: row m of the Fock matrix mentions only molecule m's density, core Hamiltonian, integrals and atoms."""
    fn = ctx.under_contract("seqm.seqm_functions.fock:fock")
    for padded in (False, True):
        d, Pm, Mfull, M, w, onec = C06.fock_inputs(padded)

        def thunk():
            return fn(d.nmol, d.molsize, Pm, M, d.maskd, d.mask, d.idxi, d.idxj, w, None, onec["gss"], onec["gpp"], onec["gsp"], onec["gp2"], onec["hsp"], "AM1",
                      None, None, None, d.Z, None, None)

        ex = ctx.explore(thunk, name="fock rows")
        F = ex.paths[0].value
        n = 4 * d.molsize
        for m in range(d.nmol):
            allowed = {"P_%d_" % m, "H_%d_" % m}
            own_pairs = {k for k, (a, b) in enumerate(d.pairs) if d.flat[a][0] == m}
            own_atoms = {a for a, (mm, i, z) in enumerate(d.flat) if mm == m}
            bad = set()
            for i in range(n):
                for j in range(n):
                    for nm in _names(F.a[m, i, j]):
                        if nm.startswith("P_") or nm.startswith("H_"):
                            if not any(nm.startswith(a) for a in allowed):
                                bad.add(nm)
                        elif nm.startswith("w_"):
                            if int(nm.split("_")[1]) not in own_pairs:
                                bad.add(nm)
                        elif nm.split("_")[0] in ("gss", "gpp", "gsp", "gp2", "hsp"):
                            if int(nm.split("_")[1]) not in own_atoms:
                                bad.add(nm)
            tag = "%s.mol%d" % ("padded" if padded else "dense", m)
            if bad:
                ctx.fail(tag + ".fock-row-mentions-only-own-inputs", "foreign symbols: %r" % sorted(bad)[:6])
            else:
                ctx.ok(tag + ".fock-row-mentions-only-own-inputs", "free-symbol-containment")
        if padded:
            # padding orbitals: rows/columns of the padding slot of molecule 1 (atom index 2) carry no two-electron terms
            for i in range(8, 12):
                for j in range(12):
                    names = {nm for nm in _names(F.a[1, i, j]) if nm.startswith("w_") or nm.split("_")[0] in ("gss", "gpp", "gsp", "gp2", "hsp")}
                    if names:
                        ctx.fail("padded.padding-slot-gets-no-integral-terms[%d,%d]" % (i, j), "mentions %r" % sorted(names)[:4])
                        break
            else:
                ctx.ok("padded.padding-slot-gets-no-integral-terms", "free-symbol-containment")
    ctx.assume_note("shape-bounded: batches [OH, HH] and [OHH, HH+pad]")


def replay_pack(shells, molsize):
    def rp(model):
        import torch
        from seqm.seqm_functions.pack import pack, unpack

        torch.set_default_dtype(torch.float64)
        size = 4 * molsize
        nH = torch.tensor([s[0] for s in shells])
        nHy = torch.tensor([s[1] for s in shells])
        x = torch.arange(len(shells) * size * size, dtype=torch.float64).reshape(len(shells), size, size) + 1.0
        x0 = pack(x, nH, nHy)
        back = unpack(x0, nH, nHy, size)
        bad = []
        for m, (h, hy) in enumerate(shells):
            ph = list(range(4 * h)) + [4 * h + 4 * k for k in range(hy)]
            want = torch.zeros(size, size)
            for i in ph:
                for j in ph:
                    want[i, j] = x[m, i, j]
            if not torch.equal(back[m], want):
                bad.append(m)
        return {"reproduced": bool(bad), "shell_patterns(nHeavy,nHydro)": shells, "molecules_with_wrong_round_trip": bad}
    return rp


def task_pack_unpack(ctx):
    """unpack(pack(x)) = x on the physical orbitals and 0 elsewhere; pack(unpack(y)) = y  (single-matrix, same-shape and
    mixed-shape batch code paths)."""
    import seqm.seqm_functions.pack as PK

    fp = ctx.under_contract("seqm.seqm_functions.pack:pack")
    fu = ctx.under_contract("seqm.seqm_functions.pack:unpack")
    for t in ("packone", "unpackone", "_pack_batch_same", "_unpack_batch_same"):
        ctx.under_contract("seqm.seqm_functions.pack:" + t)

    def phys(nH, nHy):
        return list(range(4 * nH)) + [4 * nH + 4 * k for k in range(nHy)]

    # every unordered pair of shell patterns from a grid that contains equal orbital counts with different composition
    # ((1,4) and (2,0): 8 orbitals), no hydrogens, no heavy atoms, equal patterns
    grid = [(1, 4), (2, 0), (1, 2), (0, 2), (2, 1), (1, 0), (0, 4)]
    if ctx.tier != "quick":
        grid += [(3, 0), (2, 4), (1, 8), (0, 1), (3, 2), (2, 2), (0, 8)]  # more equal-count/different-composition pairs: (3,0)/(2,4)/(1,8): 12 orbitals; (2,0)/(1,4)/(0,8): 8
    cases = []
    for a in range(len(grid)):
        for b in range(a, len(grid)):
            sh = [grid[a], grid[b]]
            cases.append(("%d%d+%d%d" % (grid[a] + grid[b]), sh, max(h + y for h, y in sh)))
            if a != b:
                cases.append(("%d%d+%d%d" % (grid[b] + grid[a]), sh[::-1], max(h + y for h, y in sh)))
    for name, shells, molsize in cases:
        size = 4 * molsize
        nH = st.tensor([s[0] for s in shells])
        nHy = st.tensor([s[1] for s in shells])

        def thunk():
            x = st.symbolic((len(shells), size, size), "x")
            x0 = fp(x, nH, nHy)
            back = fu(x0, nH, nHy, size)
            y = st.symbolic(tuple(x0.shape), "y")
            yy = fp(fu(y, nH, nHy, size), nH, nHy)
            return x, x0, back, y, yy

        ex = ctx.explore(thunk, name="pack " + name)
        if len(ex.paths) != 1 or ex.paths[0].raised is not None:
            ctx.error(name + ".paths", "%r %s" % ([p.raised for p in ex.paths], ex.paths[0].notes.get("traceback", "")[-500:] if ex.paths else ""))
            continue
        x, x0, back, y, yy = ex.paths[0].value
        for m, (h, hy) in enumerate(shells):
            ph = phys(h, hy)
            norb = 4 * h + hy
            g1 = []
            for i in range(size):
                for j in range(size):
                    want = x.a[m, i, j] if (i in ph and j in ph) else S(0.0)
                    g1.append(E.eq(back.a[m, i, j].n, E.node_of(want)))
            ctx.prove("%s.mol%d.unpack(pack(x))=x-on-physical-orbitals-and-0-elsewhere" % (name, m), E.and_(*g1), replay=replay_pack(shells, molsize))
            g2, g3 = [], []
            for i in range(norb):
                for j in range(norb):
                    g2.append(E.eq(yy.a[m, i, j].n, y.a[m, i, j].n))
                    g3.append(E.eq(x0.a[m, i, j].n, x.a[m, ph[i], ph[j]].n))
            if g2:
                ctx.prove("%s.mol%d.pack(unpack(y))=y" % (name, m), E.and_(*g2), replay=replay_pack(shells, molsize))
                ctx.prove("%s.mol%d.pack-picks-the-physical-orbitals" % (name, m), E.and_(*g3), replay=replay_pack(shells, molsize))
    ctx.assume_note("shape-bounded: every ordered pair of (nHeavy, nHydro) from {(1,4),(2,0),(1,2),(0,2),(2,1),(1,0),(0,4)} (includes equal orbital counts with different composition); all matrix entries symbolic")


ALLOWED_COUPLINGS = {
    # (function, normalised source of the batch-coupled expression): why it cannot change a molecule's numbers
    ("get_error", "dm_mask.any()"): "guards an empty masked assignment only",
    ("get_error", "dm_err.max()"): "returned for printing",
    ("get_error", "dm_element_err.max()"): "returned for printing",
}


def task_dipole_rows(ctx):
    """the dipole of molecule m mentions only molecule m's real atoms: no padding coordinate, no batch mate, whatever the total
    charges are (contract shared with C14's dipole task; dense and zero-padded batch)."""
    from contracts.C14_observables import dipole_contract

    dipole_contract(ctx)


def task_response_rows(ctx):
    """Canon_DM_PRT (density response used by the KSA kernels): row b of the response mentions only molecule b (contract shared
    with C09's canon_dm_prt)."""
    from contracts.C09_xlbomd import task_canon_dm_prt

    task_canon_dm_prt(ctx)


def task_coupled_ops(ctx):
    """Batch-coupled reductions in the iterative SCF code are enumerated and compared with a declared allow-list."""
    import seqm.seqm_functions.scf_loop as S_

    ctx.under_contract("seqm.seqm_functions.scf_loop:get_error", note="enumeration of reductions over the batch axis")
    tree = ast.parse(textwrap.dedent(inspect.getsource(S_.get_error)))
    found = set()
    for n in ast.walk(tree):
        if isinstance(n, ast.Call) and isinstance(n.func, ast.Attribute) and n.func.attr in ("any", "all", "max", "min", "sum", "mean", "amax") and not n.args and not n.keywords:
            found.add(("get_error", ast.unparse(n)))
    for f in sorted(found):
        if f in ALLOWED_COUPLINGS:
            ctx.ok("coupling[%s:%s]" % f, "allow-list: " + ALLOWED_COUPLINGS[f])
        else:
            ctx.fail("coupling[%s:%s]" % f, "a reduction over the whole batch that is not on the declared allow-list")
    if not found:
        ctx.error("vacuous", "no reductions found")
    ctx.undecided_clause("numerical benignity of the allowed couplings (Nnot == 0 exits, DIIS resets, SP2's shared while loop); MD-trajectory independence beyond one step (C08/C20 prove one step); CIS batches")



def replay_fermi_rows(model):
    """real Fermi_Q (finite electronic temperature, 1500 K) on the Fock matrix of OH-: alone, and zero-padded to the size of a
    larger batch mate.  The padded orbital slots must not take part in fixing the chemical potential: same mu, same occupations."""
    import torch
    from seqm.seqm_functions.fermi_q import Fermi_Q

    torch.set_default_dtype(torch.float64)
    g = torch.Generator().manual_seed(3)
    A = torch.randn(5, 5, generator=g)
    H = (A + A.T) * 2.0 + 6.0 * torch.eye(5)          # 5 physical orbitals (one heavy atom + one hydrogen), levels around +6 eV (anion-like)
    # block layout of a molsize-2 molecule: atoms 0 (heavy, 4 orbitals) and 1 (hydrogen, 1 orbital + 3 padding slots)
    def embed(Hphys, molsize):
        n = 4 * molsize
        out = torch.zeros(1, n, n)
        idx = [0, 1, 2, 3, 4]
        for a, ia in enumerate(idx):
            for b, ib in enumerate(idx):
                out[0, ia, ib] = Hphys[a, b]
        return out
    kB = 8.61739e-5
    nocc = torch.tensor([4])
    one, h1 = torch.tensor([1]), torch.tensor([1])
    alone = Fermi_Q(embed(H, 2), 1500.0, nocc, one, h1, kB, 0)
    # in a batch with a molecule of 2 heavy atoms + 1 hydrogen (9 orbitals): molecule 0 gets 4 padded eigenvalue columns
    A2 = torch.randn(9, 9, generator=g)
    H2 = (A2 + A2.T) - 8.0 * torch.eye(9)
    big = torch.zeros(2, 12, 12)
    big[0, :5, :5] = H
    big[1, :9, :9] = H2
    # layouts: molecule 0 = heavy, hydrogen, padding ; molecule 1 = heavy, heavy, hydrogen
    both = Fermi_Q(big, 1500.0, torch.tensor([4, 6]), torch.tensor([1, 2]), torch.tensor([1, 1]), kB, 0)
    mu_alone, mu_batch = float(alone[5][0, 0]), float(both[5][0, 0])
    f_alone, f_batch = alone[4][0, :5], both[4][0, :5]
    dev = max(abs(mu_alone - mu_batch), float((f_alone - f_batch).abs().max()))
    return {"reproduced": bool(dev > 1e-8), "mu_alone": mu_alone, "mu_in_batch": mu_batch, "occupations_alone": f_alone.tolist(), "occupations_in_batch": f_batch.tolist(), "padded_occupations_in_batch": both[4][0, 5:].tolist()}


def replay_fermi_root(model):
    """real Fermi_Q at a high electronic temperature (20 000 K), where the mid-gap starting guess does not give the electron
    count: the occupations returned must sum to the number of electron pairs (the Newton iteration must walk TOWARDS the root)."""
    import torch
    from seqm.seqm_functions.fermi_q import Fermi_Q

    torch.set_default_dtype(torch.float64)
    g = torch.Generator().manual_seed(5)
    A = torch.randn(5, 5, generator=g)
    H = torch.zeros(1, 8, 8)
    H[0, :5, :5] = (A + A.T) * 1.5 - 4.0 * torch.eye(5)
    out = Fermi_Q(H, 20000.0, torch.tensor([2]), torch.tensor([1]), torch.tensor([1]), 8.61739e-5, 0)
    f = out[4][0, :5]
    dev = abs(float(f.sum()) - 2.0)
    return {"reproduced": bool(not (dev < 1e-6)), "T_el": 20000.0, "occupations": f.tolist(), "sum_of_occupations": float(f.sum()), "electron_pairs": 2, "chemical_potential": float(out[5][0, 0])}


def replay_fermi(model):
    a = replay_fermi_rows(model)
    b = replay_fermi_root(model)
    return {"reproduced": bool(a.get("reproduced") or b.get("reproduced")), "padding_transparency": a, "root_finding": b}


def task_fermi_rows(ctx):
    """Fermi_Q (finite electronic temperature occupations, used by the KSA drivers): one Newton step for the chemical potential of
    molecule m is mu + (N_m - sum_phys f_i) / max(tiny, sum_phys beta f_i (1 - f_i)) with f_i = sigmoid(-beta (e_i - mu)) over
    molecule m's PHYSICAL orbitals only -- zero-padded orbital slots and other molecules do not enter; the occupations returned are
    f_i on the physical orbitals and 0 on the padding; the density is 2 Q f Q^T.  Real function, eigensolver and unpack replaced by
    recorders; the path with exactly one Newton update (guided) and the path with none."""
    import seqm.seqm_functions.fermi_q as FQ
    from contracts.C07_differentiability import _quiet

    FQM = "seqm.seqm_functions.fermi_q"
    fn = ctx.under_contract(FQM + ":Fermi_Q", stubs=["sym_eig_trunc", "unpack"])
    M = 3
    rec = {}
    rep = []
    rp = lambda mdl: (rep or rep.append(_quiet(replay_fermi)) or rep)[0]
    T, kB = real("Tel"), real("kB")

    def eig_stub(H0, nHeavy, nHydro, Nocc, eig_only=False):
        rec["e"] = st.symbolic((2, M), "e")
        rec["Q"] = st.symbolic((2, M, M), "Q")
        return rec["e"], rec["Q"]

    def unpack_stub(D, nh, nhy, size):
        rec["unpacked"] = D.clone()
        return D

    for updates in (1, 0):
        count = [0]

        def guide(n):
            count[0] += 1
            return count[0] > updates  # `all converged` is False for the first `updates` iterations

        def thunk():
            count[0] = 0
            H0 = st.symbolic((2, 4, 4), "H")
            return fn(H0, T, st.tensor([1, 1]), st.tensor([0, 0]), st.tensor([3, 2]), kB, 0)

        ex = ctx.explore(thunk, stubs={FQM + ":sym_eig_trunc": eig_stub, FQM + ":unpack": unpack_stub}, name="Fermi_Q[%d update(s)]" % updates, guide=guide, constants={})
        if len(ex.paths) != 1 or ex.paths[0].raised is not None:
            p0 = ex.paths[0] if ex.paths else None
            if p0 is not None and isinstance(p0.raised, Unmodelled):
                raise p0.raised
            ctx.error("fermi_rows.paths[%d]" % updates, "expected one path: %r %s" % ([p.raised for p in ex.paths], p0.notes.get("traceback", "")[-800:] if p0 else ""))
            continue
        p = ex.paths[0]
        D0, S_, QQ, e, Fe, mu, mask = p.value
        beta = 1 / (kB * T)
        norb = [3, 2]
        tag = "fermi_rows[%d-update]" % updates
        for m in range(2):
            mu0 = (rec["e"].a[m, 0] + rec["e"].a[m, 1]) / 2
            f0 = [st.sigmoid(st.T(np.array([-beta * (rec["e"].a[m, i] - mu0)], dtype=object), st.float64, True)).a[0] for i in range(norb[m])]
            if updates:
                tiny = S(E.frac_of_float(1e-30))
                den = sum((beta * f * (1 - f) for f in f0), S(0))
                den = Sym(E.ite((den >= tiny).n, den.n, tiny.n))
                mu_spec = mu0 + (1 - sum(f0, S(0))) / den
            else:
                mu_spec = mu0
            # (an identity of expressions: stated without the path condition, whose `converged after the update` clause no
            # sampled valuation satisfies, so that a wrong update is refuted numerically instead of staying undecided)
            ctx.prove_eq("%s.mu[%d]=Newton-step-over-its-own-physical-orbitals" % (tag, m), mu.a[m, 0], mu_spec, pc=[T > 0, kB > 0], replay=rp, classify=lambda m_, r: "chemical-potential-update")
            foreign = {v.val for v in E.free_vars(mu.a[m, 0].n)} & ({"e_%d_%d" % (1 - m, i) for i in range(M)} | {"e_%d_%d" % (m, i) for i in range(norb[m], M)})
            (ctx.ok if not foreign else ctx.fail)("%s.mu[%d].mentions-only-its-own-physical-levels" % (tag, m), "frame" if not foreign else "mentions %s" % sorted(foreign), **({} if not foreign else {"replay": rp(None)}))
            # occupations: f on the physical orbitals at the chemical potential of the LAST evaluation (mu0 after one update: the
            # loop evaluates f before it updates mu; with one update the second evaluation uses the updated mu)
            for i in range(M):
                if i < norb[m]:
                    want = st.sigmoid(st.T(np.array([-beta * (rec["e"].a[m, i] - mu.a[m, 0])], dtype=object), st.float64, True)).a[0]
                    ctx.prove_eq("%s.f[%d,%d]=sigmoid(-beta(e-mu))" % (tag, m, i), Fe.a[m, i], want, pc=p.pc, replay=rp)
                else:
                    ctx.prove_eq("%s.f[%d,%d]=0-on-padding" % (tag, m, i), Fe.a[m, i], S(0), pc=p.pc, replay=rp)
            for a in range(M):
                for b in range(M):
                    want = 2 * sum((rec["Q"].a[m, a, i] * Fe.a[m, i] * rec["Q"].a[m, b, i] for i in range(M)), S(0))
                    ctx.prove_eq("%s.D[%d][%d,%d]=2 Q f Q^T" % (tag, m, a, b), D0.a[m, a, b], want, pc=p.pc)
    ctx.assume_note("fermi_rows: batch of two molecules with 3 and 2 physical orbitals (one padded slot), one electron pair each; eigenpairs are free symbols (A2); two paths: no Newton update, exactly one")
    ctx.undecided_clause("convergence of the Newton iteration for the chemical potential; the batch-wide exit test keeps updating an already converged molecule while another is not (within occ_tol)")


def replay_density_rows(model):
    """real code: a batch of two molecules with the same orbital layout and different electron counts (N2, O2), against each
    molecule computed alone."""
    import torch
    from seqm.seqm_functions.constants import Constants
    from seqm.Molecule import Molecule
    from seqm.ElectronicStructure import Electronic_Structure

    torch.set_default_dtype(torch.float64)
    params = {"method": "AM1", "scf_eps": 1e-8, "scf_converger": [1], "sp2": [False, 1e-5], "elements": [0, 7, 8], "learned": [], "pair_outer_cutoff": 1e10, "eig": True}
    geo = {"N2": ([7, 7], [[0.0, 0, 0], [1.10, 0, 0]]), "O2": ([8, 8], [[0.0, 0, 0], [1.21, 0, 0]])}

    def run(names):
        sp = torch.tensor([geo[k][0] for k in names])
        xyz = torch.tensor([geo[k][1] for k in names])
        mol = Molecule(Constants(), params, xyz, sp)
        Electronic_Structure(params)(mol)
        return [float(v) for v in mol.Etot], [float(v) for v in mol.dm.diagonal(dim1=1, dim2=2).sum(1)]

    alone = {k: run([k]) for k in geo}
    rows, bad = [], False
    for batch in (["N2", "O2"], ["O2", "N2"]):
        try:
            Et, tr = run(batch)
        except Exception as exc:  # noqa
            return {"reproduced": False, "error": repr(exc)[:200]}
        names = batch
        for i, k in enumerate(names):
            if abs(Et[i] - alone[k][0][0]) > 1e-5 or abs(tr[i] - alone[k][1][0]) > 1e-6:
                bad = True
                rows.append({"batch": names, "molecule": k, "Etot_in_batch": Et[i], "Etot_alone": alone[k][0][0], "trace_P_in_batch": tr[i], "trace_P_alone": alone[k][1][0]})
    return {"reproduced": bad, "rows": rows[:4]}


def replay_density_rows_trunc1(model):
    """real sym_eig_trunc1 (the differentiable twin used by the SCF backward): two molecules of the same layout (one heavy atom,
    three hydrogens) with 4 and 3 occupied orbitals; each density must be 2 C_occ C_occ^T of its own eigenvectors and ITS count."""
    import torch
    from seqm.seqm_functions.diag import sym_eig_trunc1
    from seqm.seqm_functions.pack import pack

    torch.set_default_dtype(torch.float64)
    g = torch.Generator().manual_seed(9)
    F = torch.zeros(2, 16, 16)
    idx = [0, 1, 2, 3, 4, 8, 12]
    for m in range(2):
        A = torch.randn(7, 7, generator=g)
        A = A + A.T
        for a, ia in enumerate(idx):
            for b, ib in enumerate(idx):
                F[m, ia, ib] = A[a, b]
    nh, nhy, nocc = torch.tensor([1, 1]), torch.tensor([3, 3]), torch.tensor([4, 3])
    out = sym_eig_trunc1(F, nh, nhy, nocc)
    P = out[1]
    worst = 0.0
    for m in range(2):
        e, V = torch.linalg.eigh(pack(F[m], nh[m], nhy[m]))
        want = 2.0 * V[:, : int(nocc[m])] @ V[:, : int(nocc[m])].T
        got = pack(P[m], nh[m], nhy[m])
        worst = max(worst, float((got - want).abs().max()))
    return {"reproduced": worst > 1e-9, "max |P - 2 C_occ C_occ^T with its own occupation|": worst, "occupations": [4, 3]}


def _density_rows(ctx, fname):
    """sym_eig_trunc (restricted, batched; LAPACK replaced by arbitrary eigenvectors): the density returned for molecule m is
    unpack(2 C_occ C_occ^T) built from molecule m's own eigenvectors and molecule m's own number of occupied orbitals --
    for batches with equal orbital layout and DIFFERENT electron counts, and with different layouts."""
    fn = ctx.under_contract("seqm.seqm_functions.diag:" + fname, stubs=["degen_symeig / pytorch_symeig (LAPACK, A2): arbitrary eigenvector matrices"])
    pre = "" if fname == "sym_eig_trunc" else fname + "."
    cases = {"same-layout-different-nocc": ([1, 1], [1, 1], [4, 3]), "same-layout-same-nocc": ([1, 1], [1, 1], [4, 4]), "different-layouts": ([1, 0], [1, 2], [4, 1]),
             "three-molecules": ([1, 1, 1], [1, 1, 1], [3, 4, 2])}
    for tag, (nh, nhy, nocc) in cases.items():
        nmol = len(nh)
        molsize = max(a + b for a, b in zip(nh, nhy))
        norb = [4 * a + b for a, b in zip(nh, nhy)]
        size = max(norb)
        V = st.symbolic((nmol, size, size), "V")

        calls = [0]

        class EighStub:
            @staticmethod
            def apply(x0):
                if x0.a.ndim == 2:
                    # one matrix per call (sym_eig_trunc1 maps over the molecules): the m-th call is molecule m
                    m_ = calls[0] % nmol
                    calls[0] += 1
                    k_ = x0.a.shape[-1]
                    return st.symbolic((k_,), "eval%d" % m_), st.T(V.a[m_, :k_, :k_].copy(), st.float64, True)
                return st.symbolic((x0.shape[0], x0.shape[-1]), "eval"), V

        def eigh_fn(x0):
            return EighStub.apply(x0)

        def thunk():
            calls[0] = 0
            F = st.symbolic((nmol, 4 * molsize, 4 * molsize), "F")
            return fn(F, st.tensor(nh), st.tensor(nhy), st.tensor(nocc))

        ex = ctx.explore(thunk, stubs={"seqm.seqm_functions.diag:degen_symeig": EighStub, "seqm.seqm_functions.diag:pytorch_symeig": eigh_fn}, name="%s[%s]" % (fname, tag))
        for p in ex.paths:
            if p.raised is not None:
                ctx.fail("%s.%s.raises@p%d" % (fname, tag, p.path_id), repr(p.raised) + p.notes.get("traceback", "")[-600:])
                continue
            e, Pm = p.value[0], p.value[1]
            for m in range(nmol):
                # physical orbital slots of molecule m in the unpacked 4*molsize layout
                slots = [4 * a + k for a in range(nh[m]) for k in range(4)] + [4 * (nh[m] + b) for b in range(nhy[m])]
                for i_, si in enumerate(slots):
                    for j_, sj in enumerate(slots):
                        want = 2 * sum(V.a[m, i_, k] * V.a[m, j_, k] for k in range(nocc[m]))
                        ctx.prove_eq("%s%s.P[mol%d][%d,%d]=2 sum over its own %d occupied orbitals@p%d" % (pre, tag, m, si, sj, nocc[m], p.path_id), Pm.a[m, si, sj], want, pc=p.pc,
                                     replay=(replay_density_rows if fname == "sym_eig_trunc" else replay_density_rows_trunc1), classify=lambda m_, r: "occupation-of-another-molecule")
                others = [q for q in range(4 * molsize) if q not in slots]
                if others:
                    ctx.prove("%s%s.P[mol%d]-vanishes-on-padding-slots@p%d" % (pre, tag, m, p.path_id),
                              E.and_(*[E.eq(E.node_of(Pm.a[m, q, r_]), E.const(0)) for q in others for r_ in range(4 * molsize)]), pc=p.pc)
    ctx.assume_note("A2: the eigen-solver returns some eigenvector matrix per molecule (columns ascending in energy); CHECK_DEGENERACY off (module default)")


def task_density_rows(ctx):
    """sym_eig_trunc and its differentiable twin sym_eig_trunc1 (restricted, batched; LAPACK replaced by arbitrary eigenvectors): the
    density returned for molecule m is unpack(2 C_occ C_occ^T) built from molecule m's own eigenvectors and molecule m's own number
    of occupied orbitals -- for batches with equal orbital layout and DIFFERENT electron counts, and with different layouts."""
    _density_rows(ctx, "sym_eig_trunc")
    _density_rows(ctx, "sym_eig_trunc1")


TASKS_QUICK = ["density_rows", "fermi_rows", "response_rows", "dipole_rows", "parser_rows", "fock_rows", "pack_unpack", "coupled_ops"]
TASKS_THOROUGH = TASKS_QUICK
