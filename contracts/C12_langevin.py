"""C12 -- Langevin thermostat: fluctuation-dissipation identity, Bussi-Parrinello splitting in every engine that
inherits the update, limits, units."""
from fractions import Fraction

import numpy as np

from pyvc.api import *
from pyvc import symtorch as st, expr as E
from contracts.md_common import *


def _mol(nat=1, pad=False):
    mol = ghost_molecule(0)
    n = nat + (1 if pad else 0)
    mol.species = st.tensor([[1] * nat + ([0] if pad else [])])
    mol.num_atoms = st.tensor([nat])
    mol.coordinates = st.symbolic((1, n, 3), "x")
    mol.velocities = st.symbolic((1, n, 3), "v")
    mol.acc = st.symbolic((1, n, 3), "a")
    minv = [real("minv%d" % i) for i in range(nat)] + ([Sym(E.const(Fraction(0), E.R))] if pad else [])
    mass = [real("m%d" % i) for i in range(nat)] + ([Sym(E.const(Fraction(0), E.R))] if pad else [])
    mol.mass_inverse = st.tensor([[[x] for x in minv]])
    mol.mass = st.tensor([[[x] for x in mass]])
    mol.force = st.symbolic((1, n, 3), "F0")
    return mol


def _force_of(x, tag="F"):
    """A6: the force is an (uninterpreted) function of the coordinates only."""
    flat = tuple(v.n for v in x.a.reshape(-1))
    out = np.empty(x.a.shape, dtype=object)
    for k, pos in enumerate(np.ndindex(*x.a.shape)):
        out[pos] = Sym(E.uf("%s%d" % (tag, k), flat, E.R))
    return st.T(out, st.float64, True)


def _driver_behaviour(molecule, *a, **kw):
    molecule.force = _force_of(molecule.coordinates)
    molecule.Etot = st.symbolic((1,), "Etot_new")
    molecule.Electronic_entropy = st.zeros(1)


def _init_langevin(ctx, cls="Molecular_Dynamics_Langevin", nat=1, pad=False, extra=None):
    """Run the real constructor + initialize(steps=None) and return (md, molecule, symbols)."""
    import seqm.MolecularDynamics as M

    dt, damp, Temp = real("dt"), real("damp"), real("Temp")
    kw = dict(seqm_parameters={"method": "AM1"}, timestep=dt, Temp=Temp, output={"h5": {}, "print every": 0, "checkpoint every": 0})
    kw.update(extra or {})
    assume(damp > 0)
    md = getattr(M, cls)(damp=damp, **kw)
    mol = _mol(nat, pad)
    md.esdriver.behaviour = _driver_behaviour
    md.initialize(mol)
    return md, mol, (dt, damp, Temp)


def replay_fd(model):
    """Real torch: c1, c2 from the real Langevin.initialize at the model's (dt, damp, T, 1/m)."""
    import torch
    import seqm.MolecularDynamics as M

    torch.set_default_dtype(torch.float64)
    g = lambda k, d: abs(model_float(model, k, d)) or d
    dt, damp, T, minv = g("dt", 0.5), g("damp", 20.0), g("Temp", 300.0), g("minv0", 1.0)
    md = object.__new__(M.Molecular_Dynamics_Langevin)
    torch.nn.Module.__init__(md)
    md.damp, md.timestep, md.Temp = damp, dt, T
    mol = Obj(coordinates=torch.zeros(1, 1, 3), mass_inverse=torch.tensor([[[minv]]]))
    saved = M.Molecular_Dynamics_Basic.initialize
    M.Molecular_Dynamics_Basic.initialize = lambda self, *a, **k: None
    try:
        md.initialize(mol)
    finally:
        M.Molecular_Dynamics_Basic.initialize = saved
    c1, c2 = float(md.langevin_c1), float(md.langevin_c2.reshape(-1)[0])
    s2 = M.CONSTANTS.VEL_SCALE ** 2 * T * minv
    lhs = c1 * c1 * s2 + c2 * c2
    return {"reproduced": bool(abs(lhs - s2) > 1e-9 * s2), "dt": dt, "damp": damp, "T": T, "inverse_mass": minv, "c1^2 s^2 + c2^2": lhs, "s^2": s2}


STUBS = {MD + ":esdriver": DummyDriver, MD + ":Molecular_Dynamics_Basic.initialize_velocity": lambda self, molecule, vel_com=True: molecule.velocities}


def task_fluctuation_dissipation(ctx):
    """O1: c1^2 sigma^2 + c2^2 = sigma^2 with sigma^2 = VEL_SCALE^2 T / m, for all dt, damping time, T, mass."""
    ctx.under_contract(MD + ":Molecular_Dynamics_Langevin.initialize", stubs=["esdriver", "initialize_velocity"])
    ctx.under_contract(MD + ":Molecular_Dynamics_Langevin._apply_langevin_thermostat")
    import seqm.MolecularDynamics as M

    res = {}

    def thunk():
        md, mol, syms = _init_langevin(ctx, nat=1, pad=True)
        return md, mol, syms

    ex = ctx.explore(thunk, stubs=STUBS, name="langevin.initialize")
    for p in ex.paths:
        if p.raised is not None:
            ctx.fail("initialize.raises@p%d" % p.path_id, repr(p.raised) + p.notes.get("traceback", "")[-600:])
            continue
        md, mol, (dt, damp, Temp) = p.value
        VS = Sym(E.const(E.frac_of_float(M.CONSTANTS.VEL_SCALE), E.R))
        c1 = md.langevin_c1
        c1 = c1.a.reshape(-1)[0] if isinstance(c1, st.T) else S(c1)
        c2 = md.langevin_c2.a.reshape(-1)
        minv = mol.mass_inverse.a.reshape(-1)
        sigma2 = VS * VS * Temp * minv[0]
        ctx.prove_eq("fluctuation-dissipation: c1^2 s^2 + c2^2 = s^2", c1 * c1 * sigma2 + c2[0] * c2[0], sigma2, pc=p.pc, replay=replay_fd)
        s = -dt / damp
        ctx.prove_eq("c1 = exp(-dt/(2 damp))", c1, Sym(E.fn("exp", (s / 2).n)), pc=p.pc, replay=replay_fd)
        ctx.prove_eq("c2^2 = (1-exp(-dt/damp)) kT/m", c2[0] * c2[0], (1 - Sym(E.fn("exp", s.n))) * sigma2, pc=p.pc)
        ctx.prove_eq("padding-atom: c2 = 0", c2[1], 0, pc=p.pc)
        # the update itself: v' = c1 v + c2 xi with one fresh unit-variance draw per component
        v0 = mol.velocities.clone()
        st.GHOST["rng_draws"].clear()
        with W.World(stubs=STUBS):
            md._apply_langevin_thermostat(mol)
        draws = list(st.GHOST["rng_draws"])
        if len(draws) != 1 or draws[0][0] != "randn" or tuple(draws[0][2]) != tuple(v0.shape):
            ctx.fail("update.draws-one-standard-normal-per-component", "draws: %r" % (draws,))
        else:
            ctx.ok("update.draws-one-standard-normal-per-component", "ghost-rng")
            base = draws[0][1]
            for k, pos in enumerate(np.ndindex(*v0.a.shape)):
                xi = real("%s_%d" % (base, k))
                ctx.prove_eq("update.v'=c1 v+c2 xi[%d]" % k, mol.velocities.a[pos], c1 * v0.a[pos] + md.langevin_c2.a[0, pos[1], 0] * xi, pc=p.pc)
        # O3: limits as exact statements (A5 axioms for exp)
        pos = [dt > 0, damp > 0, Temp >= 0, minv[0] > 0]
        ctx.prove("limit.T=0: c2 = 0", c2[0] == 0, pc=list(p.pc) + pos + [Temp == 0])
        ctx.prove("limit.T=0: 0 < c1 < 1 (only removes energy)", (c1 > 0) & (c1 < 1), pc=list(p.pc) + pos)
        ctx.prove("c2 is real: radicand >= 0", (1 - Sym(E.fn("exp", s.n))) * Temp * minv[0] >= 0, pc=list(p.pc) + pos)
        ctx.cover("pre", pos)
    ctx.canary("c1>1", S(1) < S(0))
    ctx.assume_note("A5: exp is positive, strictly monotone, exp(0)=1, exp(a)exp(b)=exp(a+b), expm1(s)=exp(s)-1")
    ctx.assume_note("A4: randn_like returns independent standard normal draws (each draw is a fresh symbol in the ghost RNG)")
    ctx.undecided_clause("the statistical statement over seeds (follows from the invariance of N(0,sigma^2) under the proved update); quality of randn")


def _spec_step(x, v, a, dt, minv, ACC, thermo=None):
    """Bussi-Parrinello splitting written from the publication: O(1/2) B(1/2) A [force] B(1/2) O(1/2)."""
    if thermo:
        c1, c2, xi1, xi2 = thermo
        v = c1 * v + c2 * xi1
    v = v + Fraction(1, 2) * a * dt
    x = x + v * dt
    F = _force_of(x)
    a2 = F * minv * ACC
    v = v + Fraction(1, 2) * a2 * dt
    if thermo:
        v = c1 * v + c2 * xi2
    return x, v, a2


def task_splitting(ctx):
    """O2: every engine's one_step is O(1/2) B(1/2) A [force] B(1/2) O(1/2) with the same c1, c2."""
    import seqm.MolecularDynamics as M

    engines = [("Molecular_Dynamics_Langevin", {}), ("XL_BOMD", {"xl_bomd_params": {"k": 3}}), ("KSA_XL_BOMD", {"xl_bomd_params": {"k": 3}}), ("XL_ESMD", {"xl_bomd_params": {"k": 3}})]
    for cls, extra in engines:
        ctx.under_contract(MD + ":%s.one_step" % cls, stubs=["esdriver"])

        def thunk():
            md, mol, syms = _init_langevin(ctx, cls=cls, nat=1, extra=extra)
            x0, v0, a0 = mol.coordinates.clone(), mol.velocities.clone(), mol.acc.clone()
            st.GHOST["rng_draws"].clear()
            if cls == "Molecular_Dynamics_Langevin":
                md.one_step(mol)
            else:
                P = st.symbolic((1, 1, 1), "P")
                Pt = P.unsqueeze(0).expand((md.m, 1, 1, 1)).clone()
                mol.dP2dt2 = st.zeros(1, 1, 1)
                if cls == "XL_ESMD":
                    xi_ = st.symbolic((1, 1, 1, 1), "xiamp")
                    xit = xi_.unsqueeze(0).expand((md.m, 1, 1, 1, 1)).clone()
                    mol.dxi2dt2 = st.zeros(1, 1, 1, 1)
                    md.one_step(mol, 0, P, Pt, xi_, xit)
                else:
                    md.one_step(mol, 0, P, Pt)
            return md, mol, syms, (x0, v0, a0), list(st.GHOST["rng_draws"])

        ex = ctx.explore(thunk, stubs=STUBS, name=cls + ".one_step")
        for p in ex.paths:
            if p.raised is not None:
                ctx.fail("%s.raises@p%d" % (cls, p.path_id), repr(p.raised) + p.notes.get("traceback", "")[-700:])
                continue
            md, mol, (dt, damp, Temp), (x0, v0, a0), draws = p.value
            if len(draws) != 2:
                ctx.fail("%s.two-thermostat-half-steps@p%d" % (cls, p.path_id), "expected 2 random draws per step, got %r" % (draws,))
                continue
            xi = [st.T(np.array([real("%s_%d" % (d[1], k)) for k in range(3)], dtype=object).reshape(1, 1, 3), st.float64, True) for d in draws]
            ACC = Sym(E.const(E.frac_of_float(M.CONSTANTS.ACC_SCALE), E.R))
            xs, vs, as_ = _spec_step(x0, v0, a0, dt, mol.mass_inverse, ACC, (md.langevin_c1, md.langevin_c2, xi[0], xi[1]))
            for c in range(3):
                ctx.prove_eq("%s.x'[%d]@p%d" % (cls, c, p.path_id), mol.coordinates.a[0, 0, c], xs.a[0, 0, c], pc=p.pc)
                ctx.prove_eq("%s.v'[%d]@p%d" % (cls, c, p.path_id), mol.velocities.a[0, 0, c], vs.a[0, 0, c], pc=p.pc)
                ctx.prove_eq("%s.acc'[%d]@p%d" % (cls, c, p.path_id), mol.acc.a[0, 0, c], as_.a[0, 0, c], pc=p.pc)
    ctx.assume_note("A6: electronic-structure driver stubbed; force is an uninterpreted function of the coordinates")


def replay_nad_step(model):
    """Real SurfaceHoppingDynamics._do_integrator_step with real torch: one atom, force = -x, prescribed normal draws (randn_like
    replaced by a recorder that hands them out in order); compared with the Bussi-Parrinello composition written out in floats."""
    import torch
    import seqm.MolecularDynamics as M
    import seqm.NonadiabaticDynamics as N

    torch.set_default_dtype(torch.float64)
    sh = object.__new__(N.SurfaceHoppingDynamics)
    torch.nn.Module.__init__(sh)
    c1, c2, dt, minv = 0.9, 0.3, 0.5, 0.25
    seen = {}
    sh.__dict__.update(timestep=dt, step_offset=0, _tdc_method="hamiltonian_fd", _cache_old={"energies": torch.zeros(1, 2), "nac_dot": torch.zeros(1, 2, 2)}, _cache_new=None,
                       _cache_prev_cis_amp=False, _electronic_substeps=1, _h5_writer=None, _active_states=torch.tensor([1]), _coords_prev=None, _mos_prev=None,
                       post_hop_holdoff=torch.zeros(1, dtype=torch.int64), _trivial_crossing_mask=None, damp=10.0, langevin_c1=c1, langevin_c2=torch.full((1, 1, 1), c2))

    def es(molecule, learned_parameters, **kw):
        molecule.force = -molecule.coordinates.detach().clone()
        sh._cache_new = {"energies": torch.zeros(1, 2), "cis_amp": None}
        return sh._cache_new["energies"]

    sh._compute_electronic_structure = es
    sh._detect_crossings = lambda co, cn: None
    sh._propagate_electronic = lambda co, cn, substeps=None: None
    sh._after_electronic_update = lambda molecule, excitation_energies=None, step=None: seen.__setitem__("v", molecule.velocities.clone())
    mol = type("Mol", (), {})()
    mol.coordinates = torch.tensor([[[0.3, -0.2, 0.1]]])
    mol.velocities = torch.tensor([[[0.05, 0.02, -0.04]]])
    mol.acc = torch.tensor([[[0.01, -0.03, 0.02]]])
    mol.mass_inverse = torch.full((1, 1, 1), minv)
    mol.force = torch.zeros(1, 1, 3)
    x, v, a = [t.clone() for t in (mol.coordinates, mol.velocities, mol.acc)]
    xi = [torch.tensor([[[0.7, -1.1, 0.4]]]), torch.tensor([[[-0.6, 0.2, 1.3]]])]
    draws = []
    saved_fd, saved_rn = N.compute_tdc_hamiltonian_fd, torch.randn_like
    N.compute_tdc_hamiltonian_fd = lambda *a_, **k_: torch.zeros(1, 2, 2)
    torch.randn_like = lambda t, **k_: (draws.append(1), xi[min(len(draws), 2) - 1].clone())[1]
    try:
        sh._do_integrator_step(0, mol, {})
    finally:
        N.compute_tdc_hamiltonian_fd, torch.randn_like = saved_fd, saved_rn
    ACC = M.CONSTANTS.ACC_SCALE
    v = c1 * v + c2 * xi[0]
    v = v + 0.5 * a * dt
    x = x + v * dt
    a2 = -x * minv * ACC
    v = v + 0.5 * a2 * dt
    v = c1 * v + c2 * xi[1]
    dv = float((mol.velocities - v).abs().max())
    dx = float((mol.coordinates - x).abs().max())
    ds = float((seen.get("v", mol.velocities) - v).abs().max())
    return {"reproduced": bool(max(dv, dx, ds) > 1e-12 or len(draws) != 2), "c1": c1, "c2": c2, "dt": dt, "draws": len(draws), "velocity_after_step": mol.velocities.reshape(-1).tolist(),
            "velocity_expected_O(1/2)B(1/2)A B(1/2)O(1/2)": v.reshape(-1).tolist(), "max_abs_velocity_difference": dv, "max_abs_coordinate_difference": dx,
            "max_abs_difference_of_the_velocity_seen_by_the_electronic_update": ds}


def nad_nuclear_step(ctx, thermostat):
    """The nuclear part of the surface-hopping engine's _do_integrator_step (real code; electronic-structure call, coupling,
    crossing detection, electronic propagation and hop handling replaced by recorders): exactly velocity Verlet, with the
    thermostat half-steps outside the two kicks when a damping time is set; the electronic update runs after the nuclear step."""
    import seqm.MolecularDynamics as M
    import seqm.NonadiabaticDynamics as N
    import torch as rt

    NADM = "seqm.NonadiabaticDynamics"
    ctx.under_contract(NADM + ":NonadiabaticDynamicsBase._do_integrator_step", stubs=["_compute_electronic_structure", "compute_tdc_hamiltonian_fd", "_detect_crossings", "_propagate_electronic", "_after_electronic_update", "_copy_cache_entry"])
    order = []
    tag = "thermostat" if thermostat else "nve"

    def es_stub(self, molecule, learned_parameters, **kw):
        order.append("force")
        molecule.force = _force_of(molecule.coordinates)
        self._cache_new = {"energies": st.symbolic((1, 2), "en"), "cis_amp": None}
        return self._cache_new["energies"]

    def after_stub(self, molecule, excitation_energies=None, step=None):
        order.append("electronic-update")
        self.__dict__["_v_at_electronic_update"] = molecule.velocities.clone()

    stubs = dict(STUBS)
    stubs.update({NADM + ":NonadiabaticDynamicsBase._compute_electronic_structure": es_stub,
                  NADM + ":compute_tdc_hamiltonian_fd": lambda self, molecule, cache_new, lp, v_old, a_old: st.symbolic((1, 2, 2), "tdc"),
                  NADM + ":NonadiabaticDynamicsBase._detect_crossings": lambda self, co, cn: None,
                  NADM + ":NonadiabaticDynamicsBase._propagate_electronic": lambda self, co, cn, substeps=None: order.append("propagate"),
                  NADM + ":SurfaceHoppingDynamics._after_electronic_update": after_stub,
                  NADM + ":NonadiabaticDynamicsBase._after_electronic_update": after_stub,
                  NADM + ":NonadiabaticDynamicsBase._copy_cache_entry": staticmethod(lambda cache, key, value: cache.__setitem__(key, value))})

    def thunk():
        del order[:]
        sh = object.__new__(N.SurfaceHoppingDynamics)
        rt.nn.Module.__init__(sh)
        dt = real("dt")
        d = sh.__dict__
        d.update(timestep=dt, step_offset=0, _tdc_method="hamiltonian_fd", _cache_old={"energies": st.symbolic((1, 2), "e0"), "nac_dot": st.symbolic((1, 2, 2), "d0")}, _cache_new=None,
                 _cache_prev_cis_amp=False, _electronic_substeps=1, _h5_writer=None, _active_states=st.tensor([1]), _coords_prev=None, _mos_prev=None,
                 post_hop_holdoff=st.zeros(1, dtype=st.int64), _trivial_crossing_mask=None)
        mol = _mol(1)
        syms = None
        if thermostat:
            c1 = real("c1")
            c2 = st.symbolic((1, 1, 1), "c2")
            d.update(damp=real("damp"), langevin_c1=c1, langevin_c2=c2)
        else:
            d.update(damp=None)
        x0, v0, a0 = mol.coordinates.clone(), mol.velocities.clone(), mol.acc.clone()
        st.GHOST["rng_draws"].clear()
        sh._do_integrator_step(0, mol, {})
        return sh, mol, (x0, v0, a0), list(st.GHOST["rng_draws"]), list(order)

    ex = ctx.explore(thunk, stubs=stubs, name="NAD._do_integrator_step[%s]" % tag)
    if not ex.paths:
        ctx.error(tag + ".paths", "no path")
    for p in ex.paths:
        if p.raised is not None:
            ctx.fail("%s.raises@p%d" % (tag, p.path_id), repr(p.raised) + p.notes.get("traceback", "")[-800:])
            continue
        sh, mol, (x0, v0, a0), draws, seq = p.value
        ACC = Sym(E.const(E.frac_of_float(M.CONSTANTS.ACC_SCALE), E.R))
        thermo = None
        if thermostat:
            if len(draws) != 2:
                ctx.fail("%s.two-thermostat-half-steps@p%d" % (tag, p.path_id), "expected 2 random draws per step, got %r" % (draws,))
                continue
            xi = [st.T(np.array([real("%s_%d" % (dr[1], k)) for k in range(3)], dtype=object).reshape(1, 1, 3), st.float64, True) for dr in draws]
            thermo = (sh.langevin_c1, sh.langevin_c2, xi[0], xi[1])
        else:
            ctx.prove("%s.no-random-draw-without-a-damping-time@p%d" % (tag, p.path_id), E.const(len(draws) == 0))
        xs, vs, as_ = _spec_step(x0, v0, a0, real("dt"), mol.mass_inverse, ACC, thermo)
        for c in range(3):
            rp = replay_nad_step if thermostat else None
            ctx.prove_eq("%s.x'[%d]@p%d" % (tag, c, p.path_id), mol.coordinates.a[0, 0, c], xs.a[0, 0, c], pc=p.pc, replay=rp)
            ctx.prove_eq("%s.v'[%d]@p%d" % (tag, c, p.path_id), mol.velocities.a[0, 0, c], vs.a[0, 0, c], pc=p.pc, replay=rp)
            ctx.prove_eq("%s.acc'[%d]@p%d" % (tag, c, p.path_id), mol.acc.a[0, 0, c], as_.a[0, 0, c], pc=p.pc)
            ctx.prove_eq("%s.electronic-update-sees-the-completed-nuclear-step[%d]@p%d" % (tag, c, p.path_id), sh._v_at_electronic_update.a[0, 0, c], vs.a[0, 0, c], pc=p.pc, replay=rp)
        ctx.prove("%s.hop-handling-comes-after-the-force-evaluation-and-the-propagation@p%d" % (tag, p.path_id),
                  E.const("electronic-update" in seq and "force" in seq and "propagate" in seq and seq.index("electronic-update") > max(i_ for i_, q in enumerate(seq) if q in ("force", "propagate"))))
    ctx.assume_note("A6: force is an uninterpreted function of the coordinates; one trajectory, one atom; tdc method hamiltonian_fd")


def task_nad_step(ctx):
    """O2 for the surface-hopping engine (damping time set)."""
    nad_nuclear_step(ctx, True)


def replay_dof(model):
    """real Langevin driver on the zero-padded batch [water, H2]: degrees of freedom per molecule must be 3 x (its real atoms) =
    [9, 6], and the kinetic temperature of the freshly drawn velocities must be the target for BOTH molecules."""
    import io, contextlib, os, tempfile, shutil
    import torch
    from seqm.seqm_functions.constants import Constants
    from seqm.Molecule import Molecule
    import seqm.MolecularDynamics as M

    torch.set_default_dtype(torch.float64)
    d = tempfile.mkdtemp(prefix="pyvc_c12_")
    try:
        params = {"method": "AM1", "scf_eps": 1e-7, "scf_converger": [1], "sp2": [False, 1e-5], "elements": [0, 1, 8], "learned": [], "pair_outer_cutoff": 1e10, "eig": True}
        mol = Molecule(Constants(), params, torch.tensor([[[0.0, 0, 0], [0.96, 0, 0], [-0.24, 0.93, 0]], [[0.0, 0, 0], [0.74, 0, 0], [0.0, 0, 0]]]), torch.tensor([[8, 1, 1], [1, 1, 0]]))
        md = M.Molecular_Dynamics_Langevin(damp=20.0, seqm_parameters=params, timestep=0.5, Temp=300.0, output={"molid": [0], "prefix": os.path.join(d, "md"), "print every": 0, "checkpoint every": 0, "xyz": 0, "h5": {}})
        with contextlib.redirect_stdout(io.StringIO()):
            torch.manual_seed(3)
            md.initialize(mol)
        ndof = [float(x) for x in torch.as_tensor(md.n_dof, dtype=torch.float64).reshape(-1)]
        mass = 1.0 / mol.mass_inverse.clone()
        mass[~torch.isfinite(mass)] = 0.0
        ek = 0.5 * (mass * mol.velocities ** 2).sum(dim=(1, 2)) * M.CONSTANTS.KINETIC_ENERGY_SCALE
        T = [float(2.0 * ek[m] / (3 * n) * M.CONSTANTS.TEMPERATURE_SCALE) for m, n in enumerate((3, 2))]
        bad = ndof != [9.0, 6.0] or any(abs(t - 300.0) > 1e-6 for t in T)
        return {"reproduced": bool(bad), "n_dof": ndof, "expected": [9.0, 6.0], "kinetic_temperature_of_the_initial_velocities_K": T, "target_K": 300.0}
    finally:
        shutil.rmtree(d, ignore_errors=True)


def task_units(ctx):
    """O4: unit constants mutually consistent; dof counting for thermostatted engines."""
    import seqm.MolecularDynamics as M

    C = M.CONSTANTS
    VS, KES, TS, ACC = [E.frac_of_float(x) for x in (C.VEL_SCALE, C.KINETIC_ENERGY_SCALE, C.TEMPERATURE_SCALE, C.ACC_SCALE)]
    tol = Fraction(1, 10**9)
    ctx.prove("VEL_SCALE^2 * KINETIC_ENERGY_SCALE * TEMPERATURE_SCALE = 1 (1e-9)", S(abs(VS * VS * KES * TS - 1)) <= S(tol))
    ctx.prove("ACC_SCALE * KINETIC_ENERGY_SCALE = 1 (1e-9)", S(abs(ACC * KES - 1)) <= S(tol))
    # independent CODATA-2014-style values quoted in the module docstring: eV, amu, kB
    eV, amu = Fraction("1.602176565e-19"), Fraction("1.66053906660e-27")
    ctx.prove("ACC_SCALE = (eV/Angstrom)/amu in Angstrom/fs^2 = eV/amu * 1e-10 (1e-9 rel)", S(abs(ACC / (eV / amu / 10**10) - 1)) <= S(tol))
    ctx.prove("KINETIC_ENERGY_SCALE = amu (Angstrom/fs)^2 in eV = amu*1e10/eV (1e-9 rel)", S(abs(KES / (amu * 10**10 / eV) - 1)) <= S(tol))
    ctx.prove("TEMPERATURE_SCALE = 1.160451812e4 K/eV", S(TS) == S(Fraction("1.160451812e4")))
    for cls in ("Molecular_Dynamics_Langevin", "XL_BOMD"):
        ctx.under_contract(MD + ":%s.set_dof" % cls)

        def thunk():
            md = object.__new__(getattr(M, cls))
            md.__dict__["damp"] = real("damp")
            # a zero-padded batch: two molecules in 4 slots, N0 and N1 real atoms (symbolic, 1..4)
            n0, n1 = integer("N0"), integer("N1")
            assume((n0 >= 1) & (n0 <= 4) & (n1 >= 1) & (n1 <= 4))
            mol = _mol(4)
            mol.coordinates = st.symbolic((2, 4, 3), "x")
            mol.velocities = st.symbolic((2, 4, 3), "v")
            mol.num_atoms = st.T(np.array([n0, n1], dtype=object), st.int64, True)
            md.set_dof(mol, constraints=6.0)
            return md.n_dof

        with W.World():
            ex = Explorer()
            ex.run(thunk)
        for p in ex.paths:
            if p.raised is not None:
                if isinstance(p.raised, Unmodelled):
                    raise p.raised
                ctx.fail("%s.dof.raises@p%d" % (cls, p.path_id), repr(p.raised))
                continue
            nd = p.value
            if not isinstance(nd, st.T) or nd.a.reshape(-1).shape[0] != 2:
                ctx.fail("%s.dof=3N-per-molecule-with-thermostat@p%d" % (cls, p.path_id), "n_dof is not one number per molecule: %r" % (nd,), replay=replay_dof({}))
                continue
            pc = list(p.pc) + ([real("damp") != 0] if cls == "XL_BOMD" else [])
            for m in range(2):
                ctx.prove("%s.dof[%d]=3N-of-its-own-real-atoms-with-thermostat@p%d" % (cls, m, p.path_id), nd.a.reshape(-1)[m] == 3 * integer("N%d" % m), pc=pc, replay=replay_dof,
                          classify=lambda m_, r: "degrees-of-freedom-from-the-padded-width")
    ctx.canary("per-mille-misscaling-detected", S(abs(VS * VS * KES * TS * Fraction(1001, 1000) - 1)) <= S(tol))


TASKS_QUICK = ["fluctuation_dissipation", "splitting", "nad_step", "units"]
TASKS_THOROUGH = TASKS_QUICK
