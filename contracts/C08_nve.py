"""C08 -- NVE dynamics: exact velocity-Verlet composition, time reversibility, momentum maps, unit constants, and
thermodynamic bookkeeping of the step loop (values written for a label are those of the state of that label)."""
from fractions import Fraction

import numpy as np

from pyvc.api import *
from pyvc import symtorch as st, expr as E
from contracts.md_common import *
from contracts.C12_langevin import _mol, _force_of, _driver_behaviour, _spec_step, STUBS


def _make_basic():
    import seqm.MolecularDynamics as M

    return M.Molecular_Dynamics_Basic(seqm_parameters={"method": "AM1"}, timestep=real("dt"), Temp=real("Temp"), output={"h5": {}, "print every": 0, "checkpoint every": 0})


def _acc_consistent(mol, ACC):
    mol.force = _force_of(mol.coordinates)
    mol.acc = mol.force * mol.mass_inverse * ACC


def _ACC():
    import seqm.MolecularDynamics as M

    return Sym(E.const(E.frac_of_float(M.CONSTANTS.ACC_SCALE), E.R))


def replay_timestep_reassigned(model):
    """real code: a driver constructed with dt = 0.4 fs whose public `timestep` is then set to 0.2 fs (the repository's own
    nonadiabatic tests assign it after construction) must step exactly like a driver constructed with 0.2 fs."""
    import io, contextlib, os, tempfile, shutil
    import torch
    from seqm.seqm_functions.constants import Constants
    from seqm.Molecule import Molecule
    from seqm.MolecularDynamics import Molecular_Dynamics_Basic

    torch.set_default_dtype(torch.float64)

    def run(dt_ctor, dt_run):
        d = tempfile.mkdtemp(prefix="pyvc_c08_")
        try:
            params = {"method": "AM1", "scf_eps": 1e-8, "scf_converger": [1], "sp2": [False, 1e-5], "elements": [0, 1], "learned": [], "pair_outer_cutoff": 1e10, "eig": True}
            mol = Molecule(Constants(), params, torch.tensor([[[0.0, 0, 0], [0.80, 0.1, 0]]]), torch.tensor([[1, 1]]))
            mol.velocities = torch.tensor([[[0.01, 0.0, 0.0], [-0.01, 0.002, 0.0]]])
            md = Molecular_Dynamics_Basic(params, timestep=dt_ctor, Temp=0.0, output={"molid": [0], "prefix": os.path.join(d, "md"), "print every": 0, "checkpoint every": 0, "xyz": 0, "h5": {}})
            md.timestep = dt_run
            with contextlib.redirect_stdout(io.StringIO()):
                md.run(mol, 3, remove_com=None)
            return mol.coordinates.detach().clone(), mol.velocities.detach().clone()
        finally:
            shutil.rmtree(d, ignore_errors=True)

    (xa, va), (xb, vb) = run(0.4, 0.2), run(0.2, 0.2)
    dev = max(float((xa - xb).abs().max()), float((va - vb).abs().max()))
    return {"reproduced": dev > 0.0, "max_abs_difference_after_3_steps": dev, "constructed_with": 0.4, "timestep_set_to": 0.2}


def task_verlet(ctx):
    """O2: one_step is exactly  v+=a dt/2; x+=v dt; a=F(x_new)/m; v+=a dt/2  (the new force, the half-kicked velocity), with dt
    the value of the public attribute `timestep` AT THE TIME OF THE STEP (second variant: the attribute is reassigned after
    construction, as the repository's own tests do)."""
    ctx.under_contract(MD + ":Molecular_Dynamics_Basic.one_step", stubs=["esdriver"])
    ctx.under_contract(MD + ":Molecular_Dynamics_Basic._do_integrator_step")
    from contracts.C07_differentiability import _quiet

    rep = []
    for nat, reassigned in ([(n, False) for n in ((1, 2) if ctx.tier == "quick" else (1, 2, 3))] + [(1, True)]):
        def thunk():
            md = _make_basic()
            if reassigned:
                import seqm.MolecularDynamics as M

                md = M.Molecular_Dynamics_Basic(seqm_parameters={"method": "AM1"}, timestep=real("dt_at_construction"), Temp=real("Temp"), output={"h5": {}, "print every": 0, "checkpoint every": 0})
                md.timestep = real("dt")
            md.esdriver.behaviour = _driver_behaviour
            mol = _mol(nat)
            x0, v0, a0 = mol.coordinates.clone(), mol.velocities.clone(), mol.acc.clone()
            md._do_integrator_step(0, mol, {})
            return md, mol, (x0, v0, a0), md.esdriver.calls

        ex = ctx.explore(thunk, stubs=STUBS, name="one_step")
        for p in ex.paths:
            if p.raised is not None:
                ctx.fail("raises[n=%d]@p%d" % (nat, p.path_id), repr(p.raised) + p.notes.get("traceback", "")[-600:])
                continue
            md, mol, (x0, v0, a0), calls = p.value
            xs, vs, as_ = _spec_step(x0, v0, a0, real("dt"), mol.mass_inverse, _ACC())
            pre = "timestep-reassigned-after-construction." if reassigned else ""
            rp = (lambda m_: (rep or rep.append(_quiet(replay_timestep_reassigned)) or rep)[0]) if reassigned else None
            for k, pos in enumerate(np.ndindex(*x0.a.shape)):
                ctx.prove_eq("%sn=%d.x'[%d]" % (pre, nat, k), mol.coordinates.a[pos], xs.a[pos], pc=p.pc, shape="atoms=%d" % nat, replay=rp)
                ctx.prove_eq("%sn=%d.v'[%d]" % (pre, nat, k), mol.velocities.a[pos], vs.a[pos], pc=p.pc, shape="atoms=%d" % nat, replay=rp)
                ctx.prove_eq("%sn=%d.acc'[%d]" % (pre, nat, k), mol.acc.a[pos], as_.a[pos], pc=p.pc, shape="atoms=%d" % nat)
            # how often the driver is called and what initial density it is handed are efficiency matters the property does not
            # fix: recorded, not obliged (the equalities above already pin which force enters the second half-kick)
            ctx.notes.append("n=%d: electronic-structure driver called %d time(s) per step; P0 handed over: %s" % (nat, len(calls), "molecule.dm" if calls and calls[0].get("P0") is mol.dm else "other"))
    ctx.assume_note("A6: force = uninterpreted function of the coordinates of the same molecule; shapes: 1 and 2 atoms, one molecule")


def task_reversibility(ctx):
    """O1: step, negate v, step, negate v  =  identity on (x, v, acc), whenever acc is the acceleration of x."""
    ctx.under_contract(MD + ":Molecular_Dynamics_Basic.one_step", stubs=["esdriver"])
    for nat in ((1, 2) if ctx.tier == "quick" else (1, 2, 3)):
        def thunk():
            md = _make_basic()
            md.esdriver.behaviour = _driver_behaviour
            mol = _mol(nat)
            _acc_consistent(mol, _ACC())
            x0, v0, a0 = mol.coordinates.clone(), mol.velocities.clone(), mol.acc.clone()
            md.one_step(mol)
            mol.velocities = -mol.velocities
            md.one_step(mol)
            mol.velocities = -mol.velocities
            return mol, (x0, v0, a0)

        ex = ctx.explore(thunk, stubs=STUBS, name="reversibility")
        for p in ex.paths:
            mol, (x0, v0, a0) = p.value
            for k, pos in enumerate(np.ndindex(*x0.a.shape)):
                ctx.prove_eq("n=%d.x-retraced[%d]" % (nat, k), mol.coordinates.a[pos], x0.a[pos], pc=p.pc, shape="atoms=%d" % nat)
                ctx.prove_eq("n=%d.v-retraced[%d]" % (nat, k), mol.velocities.a[pos], v0.a[pos], pc=p.pc, shape="atoms=%d" % nat)
                ctx.prove_eq("n=%d.acc-retraced[%d]" % (nat, k), mol.acc.a[pos], a0.a[pos], pc=p.pc, shape="atoms=%d" % nat)
    x = real("x")
    ctx.canary_eq("uf-args-are-compared", Sym(E.uf("F0", (x.n,), E.R)), Sym(E.uf("F0", ((x + 1).n,), E.R)))


def task_momentum(ctx):
    """O3: sum m v' - sum m v = dt*ACC*(1/2) sum (F + F'), so linear momentum is conserved when the net force vanishes;
    padding atoms (m^-1 = 0) are not accelerated."""
    ctx.under_contract(MD + ":Molecular_Dynamics_Basic.one_step", stubs=["esdriver"])

    def thunk():
        md = _make_basic()
        md.esdriver.behaviour = _driver_behaviour
        mol = _mol(2, pad=True)
        # m * m^-1 = 1 on real atoms
        minv = [1 / mol.mass.a[0, i, 0] for i in range(2)] + [mol.mass_inverse.a[0, 2, 0]]
        mol.mass_inverse = st.tensor([[[q] for q in minv]])
        _acc_consistent(mol, _ACC())
        F0 = mol.force.clone()
        v0 = mol.velocities.clone()
        md.one_step(mol)
        return mol, F0, v0

    ex = ctx.explore(thunk, stubs=STUBS, name="momentum")
    for p in ex.paths:
        mol, F0, v0 = p.value
        dt, ACC = real("dt"), _ACC()
        for c in range(3):
            dP = sum(mol.mass.a[0, i, 0] * (mol.velocities.a[0, i, c] - v0.a[0, i, c]) for i in range(3))
            rhs = dt * ACC * Fraction(1, 2) * sum(F0.a[0, i, c] + mol.force.a[0, i, c] for i in range(2))
            ctx.prove_eq("dP[%d] = dt ACC (F+F')/2 summed over real atoms" % c, dP, rhs, pc=p.pc, shape="2 atoms + 1 padding slot")
            ctx.prove_eq("padding-velocity-unchanged[%d]" % c, mol.velocities.a[0, 2, c], v0.a[0, 2, c], pc=p.pc)
    ctx.assume_note("A6: net force and net torque vanish (C01/C02 statements) -- the momentum map is proved, conservation follows under A6")
    ctx.undecided_clause("order of accuracy and absence of energy drift (follow from the proved symmetric composition by the standard symplectic argument; limits are not decided)")


def task_kinetic(ctx):
    """_kinetic_energy = KES * 1/2 sum m v^2 per molecule; _calc_temperature = Ek*TS/(dof/2)."""
    import seqm.MolecularDynamics as M

    fk = ctx.under_contract(MD + ":Molecular_Dynamics_Basic._kinetic_energy")
    ft = ctx.under_contract(MD + ":Molecular_Dynamics_Basic._calc_temperature")

    def thunk():
        md = _make_basic()
        mol = _mol(2, pad=True)
        md.n_dof = st.tensor([real("dof")])
        ek = md._kinetic_energy(mol)
        return mol, ek, md._calc_temperature(ek)

    ex = ctx.explore(thunk, stubs=STUBS, name="kinetic")
    mol, ek, T = ex.paths[0].value
    KES = Sym(E.const(E.frac_of_float(M.CONSTANTS.KINETIC_ENERGY_SCALE), E.R))
    TS = Sym(E.const(E.frac_of_float(M.CONSTANTS.TEMPERATURE_SCALE), E.R))
    spec = KES * Fraction(1, 2) * sum(mol.mass.a[0, i, 0] * sum(mol.velocities.a[0, i, c] ** 2 for c in range(3)) for i in range(3))
    ctx.prove_eq("Ek = KES/2 sum m v^2", ek.a[0], spec)
    ctx.prove_eq("T = Ek*TS/(dof/2)", T.a[0], spec * TS / (real("dof") / 2))
    tol = Fraction(1, 10**9)
    VS, KESf, TSf, ACC = [E.frac_of_float(x) for x in (M.CONSTANTS.VEL_SCALE, M.CONSTANTS.KINETIC_ENERGY_SCALE, M.CONSTANTS.TEMPERATURE_SCALE, M.CONSTANTS.ACC_SCALE)]
    ctx.prove("ACC_SCALE*KINETIC_ENERGY_SCALE = 1 (1e-9)", S(abs(ACC * KESf - 1)) <= S(tol))
    ctx.prove("VEL_SCALE^2*KES*TS = 1 (1e-9)", S(abs(VS * VS * KESf * TSf - 1)) <= S(tol))


def task_thermo_bookkeeping(ctx):
    """O5: in the step loop the T, Ek, V written for label i+1 are those of the state written for label i+1
    (re-uses the C11 loop contract on the data+velocities configuration)."""
    from contracts import C11_cadence as C11

    C11._run_config(ctx, True, (False, True, False), True, True, False)


def task_thermo_with_velocity_scaling(ctx):
    """O5 with run(..., scale_vel=(freq, T)): the values written are those of the velocities AFTER the scaling of that step."""
    from contracts import C11_cadence as C11

    C11._run_config(ctx, True, (False, True, False), False, True, False, run_kwargs={"scale_vel": lambda: (integer("scale_freq"), real("T_target"))})
    ctx.assume_note("scale_freq > 0 is a precondition of run (modulo by it)")


def replay_energy_shift(model):
    """real AM1 H2 NVE run with control_energy_shift=True (dt = 1 fs: the shift to compensate exceeds the kinetic energy at the
    turning points, where the velocities are zeroed): every written Ek / T is recomputed from the velocities written for
    the same label."""
    import os, tempfile, shutil
    import torch, h5py
    from seqm.seqm_functions.constants import Constants
    from seqm.Molecule import Molecule
    from seqm.MolecularDynamics import Molecular_Dynamics_Basic

    torch.set_default_dtype(torch.float64)
    torch.manual_seed(3)
    params = {"method": "AM1", "scf_eps": 1e-8, "scf_converger": [1], "sp2": [False, 1e-5], "elements": [0, 1, 8], "learned": [], "pair_outer_cutoff": 1e10, "eig": True}
    d = tempfile.mkdtemp(prefix="pyvc_c08_")
    try:
        mol = Molecule(Constants(), params, torch.tensor([[[0.0, 0, 0], [0.80, 0, 0]]]), torch.tensor([[1, 1]]))
        md = Molecular_Dynamics_Basic(params, timestep=1.0, Temp=300.0, output={"molid": [0], "prefix": os.path.join(d, "md"), "print every": 0, "checkpoint every": 0, "xyz": 0,
                                                                             "h5": {"data": 1, "coordinates": 0, "velocities": 1, "forces": 0}})
        md.run(mol, 40, control_energy_shift=True)
        with h5py.File(os.path.join(d, "md.0.h5"), "r") as f:
            ek_w = torch.tensor(f["data/thermo/Ek"][...]).reshape(-1)
            t_w = torch.tensor(f["data/thermo/T"][...]).reshape(-1)
            steps_d = [int(x) for x in f["data/steps"][...]]
            vel = torch.tensor(f["velocities/values"][...])
            steps_v = [int(x) for x in f["velocities/steps"][...]]
        worst, rows = 0.0, []
        for r, lab in enumerate(steps_d):
            if lab not in steps_v or lab == 0:
                continue
            mol.velocities = vel[steps_v.index(lab)].reshape(1, 2, 3)
            ek = float(md._kinetic_energy(mol)[0])
            tt = float(md._calc_temperature(md._kinetic_energy(mol))[0])
            err = max(abs(ek - float(ek_w[r])), abs(tt - float(t_w[r])) * 1e-4)
            if err > 1e-9:
                rows.append({"label": lab, "written_Ek": float(ek_w[r]), "Ek_of_written_velocities": ek, "written_T": float(t_w[r]), "T_of_written_velocities": tt})
            worst = max(worst, err)
        return {"reproduced": bool(worst > 1e-9), "input": "AM1 H2 (0.80 A), dt 1 fs, 40 steps, control_energy_shift=True, data and velocities every step", "max_abs_error": worst, "rows": rows[:6]}
    finally:
        shutil.rmtree(d, ignore_errors=True)


def task_thermo_with_energy_shift(ctx):
    """O5 with control_energy_shift=True.  The kinetic energy is interpreted here (the contract proved in task `kinetic`,
    KES/2 m |v|^2) so that the branch `alpha[~isfinite(alpha)] = 0` is decided: isfinite is the definedness condition of the
    expression (divisor Ek != 0, radicand (Ek - Eshift)/Ek >= 0)."""
    from contracts import C11_cadence as C11
    from contracts.C07_differentiability import _quiet

    C11._run_config(ctx, True, (False, True, False), False, True, False, run_kwargs={"control_energy_shift": True}, ek_spec=True,
                    extra_pre=[real("KES_half") > 0, real("mass") > 0], replay=lambda m: _quiet(replay_energy_shift))


def task_thermo_with_com_removal(ctx):
    """O5 with periodic centre-of-mass removal (stride symbolic)."""
    from contracts import C11_cadence as C11

    C11._run_config(ctx, True, (False, True, False), False, True, False, remove_com=("linear", integer("com_stride")))


def task_nad_step(ctx):
    """O2 for the surface-hopping engine without thermostat: its _do_integrator_step is the same velocity-Verlet composition,
    draws no random number, evaluates the force once and runs the electronic update after the completed nuclear step."""
    from contracts.C12_langevin import nad_nuclear_step

    nad_nuclear_step(ctx, False)


def task_com_removal_callee(ctx):
    """The callee contract the momentum clause relies on when centre-of-mass removal is switched on: _zero_com zeroes the linear
    momentum and removes I*omega with the textbook inertia tensor about the centre of mass (shared with C13, run here so that
    the C08 check stands on its own)."""
    from contracts import C13_initial_conditions as C13

    C13.task_zero_com(ctx)


def task_com_removal_callee_angular(ctx):
    """_zero_com with remove_angular: L' = L - I (I^+ L) about the centre of mass, wherever the molecule sits (shared with C13)."""
    from contracts import C13_initial_conditions as C13

    C13.task_zero_com_angular(ctx)


def task_thermo_driver_reuse(ctx):
    """the temperature written is 2 Ek / (kB n_dof) with the degrees of freedom of THIS run: what initialize() leaves on a driver
    that already ran another job (other centre-of-mass setting) is what a fresh driver computes (contract shared with C15's
    md_driver_reuse; Basic, Langevin and damped XL_BOMD engines)."""
    from contracts.C15_history import task_md_driver_reuse

    task_md_driver_reuse(ctx)


TASKS_QUICK = ["verlet", "reversibility", "momentum", "kinetic", "nad_step", "com_removal_callee", "com_removal_callee_angular", "thermo_bookkeeping", "thermo_with_velocity_scaling", "thermo_with_energy_shift", "thermo_with_com_removal", "thermo_driver_reuse"]
TASKS_THOROUGH = TASKS_QUICK
