"""C11 -- each output stream is written at exactly its own cadence.

Functions under contract (real code): HDF5Writer._n_timepoints, HDF5Writer.append_vectors,
HDF5Writer.append_data, XYZWriter.write, HDF5Writer.open/_create_new, OutputConfig.from_dict,
Molecular_Dynamics_Basic.__init__/initialize/run (step loop cut with the per-stream invariant).
"""
import itertools

import numpy as np

from pyvc.api import *
from pyvc import symtorch as st, expr as E, ghostfs as G, world as W
from contracts.md_common import *

STREAMS = ("coordinates", "velocities", "forces")


# ---------------------------------------------------------------------------
# O1


def task_n_timepoints(ctx):
    """_n_timepoints(steps, stride) = steps div stride + 1 for stride > 0 and 0 otherwise (capacity of a stream)."""
    fn = ctx.under_contract(MD + ":HDF5Writer._n_timepoints")
    steps, stride = integer("steps"), integer("stride")
    for inc in (True, False):
        def thunk():
            assume(steps >= 0)
            return fn(steps, stride, include_initial=inc)

        ex = ctx.explore(thunk, name="n_timepoints")
        for p in ex.paths:
            res = p.value
            # number of labels l in [lo, steps] with l % stride == 0 (0 for a non-positive stride)
            if inc:
                spec = Sym(E.ite((stride > 0).n, (steps // stride + 1).n, E.ZERO))
                ctx.prove("initial.count@p%d" % p.path_id, S(res) == spec, pc=p.pc)
            else:
                spec = Sym(E.ite((stride > 0).n, (steps // stride).n, E.ZERO))
                # capacity contract for resumed runs: never smaller than the number of due labels
                ctx.prove("noinitial.capacity-sufficient@p%d" % p.path_id, S(res) >= spec, pc=p.pc)
    ctx.canary("count-off-by-one", (steps + stride) // stride == steps // stride, [steps >= 0, stride > 0])


# ---------------------------------------------------------------------------
# writer fixtures on the ghost disk


def _mk_file(disk, path, cad_pos, data_on, tag):
    """A ghost HDF5 file in the state 'some rows already written' with abstract (uninterpreted) content."""
    f = G.GhostH5File(disk, path, "w")
    disk.h5[path] = f

    def scalar_base(nm):
        return lambda r: Sym(E.uf("pre_%s" % nm, (r,), E.R))

    def vec_base(nm, n):
        def b(r):
            a = np.empty(n, dtype=object)
            for pos in np.ndindex(*n):
                a[pos] = Sym(E.uf("pre_%s" % nm, (r, E.const(int(np.ravel_multi_index(pos, n)))), E.R))
            return a
        return b

    if data_on:
        gd = f.create_group("data")
        for nm in ("steps", "thermo/T", "thermo/Ek", "thermo/Ep"):
            ds = gd.create_dataset(nm, shape=(integer("Tw_data"),))
            ds.base = scalar_base("data_" + nm.replace("/", "_"))
        ds = gd.create_dataset("properties/ground_dipole", shape=(integer("Tw_data"), 3))
        ds.base = vec_base("data_dipole", (3,))
    for name in STREAMS:
        if cad_pos[name]:
            g = f.create_group(name)
            ds = g.create_dataset("steps", shape=(integer("Tw_" + name),))
            ds.base = scalar_base(name + "_steps")
            ds = g.create_dataset("values", shape=(integer("Tw_" + name), 1, 3))
            ds.base = vec_base(name + "_values", (1, 3))
    return f


def _mk_writer(disk, cad, cad_pos, data_every, path="md.0.h5"):
    """Real HDF5Writer (real __init__) wired to a ghost file with symbolic cursors and capacities."""
    from seqm.MolecularDynamics import HDF5Writer, OutputConfig

    h5cfg = dict(cad)
    h5cfg["data"] = data_every
    cfg = OutputConfig(molid=[0], prefix="md", h5_config=h5cfg)
    w = HDF5Writer(cfg, {}, 1.0)
    data_on = not (isinstance(data_every, int) and data_every == 0)
    f = _mk_file(disk, path, cad_pos, data_on, "")
    w.handles[0] = f
    w.i_vec[0] = {n: (integer("cur_" + n) if cad_pos[n] else 0) for n in STREAMS}
    w.i_data[0] = integer("cur_data") if data_on else 0
    w.i_tdm[0] = 0
    w.i_na[0] = 0
    w.flags[0] = {
        "restricted": True, "Norb": 1, "Nat": 1, "active_slice": slice(0, 1), "n_excited_states": 0, "write_mo": False,
        "write_tdm": False, "write_transition_properties": False, "write_nonadiabatic": False,
        "Tw_data": integer("Tw_data") if data_on else 0, "Tw_tdm": 0, "Tw_na": 0,
        "Tw_vec": {n: (integer("Tw_" + n) if cad_pos[n] else 0) for n in STREAMS},
        "stride": dict(cad), "tdm_stride": 0, "na_stride": 0,
    }
    return w


def _compare_files(ctx, name, fa, fb, pc, skolem):
    da, db = fa.datasets(), fb.datasets()
    if set(da) != set(db):
        ctx.fail(name + ".frame.datasets", "datasets differ: %r vs %r" % (sorted(da), sorted(db)))
        return
    for path in sorted(da):
        ra, rb = da[path].read(skolem.n), db[path].read(skolem.n)
        if isinstance(ra, np.ndarray) or isinstance(rb, np.ndarray):
            ra, rb = np.asarray(ra, dtype=object).reshape(-1), np.asarray(rb, dtype=object).reshape(-1)
            goal = E.and_(*[E.eq(E.node_of(x), E.node_of(y)) for x, y in zip(ra, rb)])
        else:
            goal = E.eq(E.node_of(ra), E.node_of(rb))
        ctx.prove("%s.row[r]%s" % (name, path), goal, pc=pc)


def task_append_vectors(ctx):
    """O2: the real append_vectors has exactly the effect of `vectors_effect` (all strides, cursors, capacities)."""
    fn = ctx.under_contract(MD + ":HDF5Writer.append_vectors")
    step = integer("step_idx")
    r = integer("r")
    cad = {n: integer("d_" + n) for n in STREAMS}
    pos = {n: True for n in STREAMS}
    pre = [step >= 0, r >= 0] + [cad[n] >= 0 for n in STREAMS] + [integer("cur_" + n) >= 0 for n in STREAMS] + [integer("Tw_" + n) >= 0 for n in STREAMS]
    out = {}

    def thunk():
        for c in pre:
            assume(c)
        mol = ghost_molecule(0)
        set_state(mol, step)
        da, dbk = G.GhostDisk(), G.GhostDisk()
        wa = _mk_writer(da, cad, pos, 0)
        wb = _mk_writer(dbk, cad, pos, 0)
        fn(wa, step, mol)
        vectors_effect(wb, step, mol)
        return wa, wb, da, dbk

    ex = ctx.explore(thunk, name="append_vectors", stubs={})
    ctx.notes.append("append_vectors: %d paths" % len(ex.paths))
    for p in ex.paths:
        if p.raised is not None:
            ctx.fail("raises@p%d" % p.path_id, "append_vectors raised %r" % (p.raised,), model=None)
            continue
        wa, wb, da, dbk = p.value
        for n in STREAMS:
            ctx.prove("cursor[%s]@p%d" % (n, p.path_id), S(wa.i_vec[0][n]) == S(wb.i_vec[0][n]), pc=p.pc)
        _compare_files(ctx, "p%d" % p.path_id, wa.handles[0], wb.handles[0], p.pc, r)
    ctx.cover("pre", pre)
    ctx.assume_note("A3: an h5py dataset is an array of rows; ds[i] = v stores v in row i and nothing else")
    ctx.assume_note("shape: molid = [0], one real atom (Nat = 1); rows are (Nat,3) blocks copied whole")


def task_append_data(ctx):
    """HDF5Writer.append_data has exactly its contract effect (row at the cursor gets the label and the values handed in, cursor advances, nothing else changes) for a symbolic cursor and step."""
    fn = ctx.under_contract(MD + ":HDF5Writer.append_data")
    step = integer("step_idx")
    r = integer("r")
    cad = {n: 0 for n in STREAMS}
    pos = {n: False for n in STREAMS}
    dd = integer("d_data")
    pre = [step >= 0, r >= 0, dd > 0, integer("cur_data") >= 0, integer("Tw_data") >= 0]

    def thunk():
        for c in pre:
            assume(c)
        mol = ghost_molecule(0)
        set_state(mol, step)
        T, Ek, Ep = st.symbolic((1,), "T"), st.symbolic((1,), "Ek"), st.symbolic((1,), "Ep")
        da, dbk = G.GhostDisk(), G.GhostDisk()
        wa = _mk_writer(da, cad, pos, dd)
        wb = _mk_writer(dbk, cad, pos, dd)
        fn(wa, step, mol, T, Ek, Ep, mol.e_gap)
        data_effect(wb, step, mol, T, Ek, Ep, mol.e_gap)
        return wa, wb

    ex = ctx.explore(thunk, name="append_data")
    for p in ex.paths:
        if p.raised is not None:
            ctx.fail("raises@p%d" % p.path_id, "append_data raised %r: %s" % (p.raised, p.notes.get("traceback", "")[-600:]))
            continue
        wa, wb = p.value
        ctx.prove("cursor@p%d" % p.path_id, S(wa.i_data[0]) == S(wb.i_data[0]), pc=p.pc)
        _compare_files(ctx, "p%d" % p.path_id, wa.handles[0], wb.handles[0], p.pc, r)
    ctx.undecided_clause("append_data with excited states (state_energies, TDM, MO gap rows) is checked by contract only for the ground-state configuration")


def task_xyz_write(ctx):
    """XYZWriter.write emits one frame labelled step+1 with the atoms of the selected molecule (padding slots skipped)."""
    fn = ctx.under_contract(MD + ":XYZWriter.write")
    step = integer("step")

    def thunk():
        from seqm.MolecularDynamics import XYZWriter, OutputConfig

        assume(step >= -1)
        disk = G.GhostDisk()
        mol = ghost_molecule(0)
        set_state(mol, step + 1)
        w = XYZWriter(OutputConfig(molid=[0], prefix="md"), 0)
        w.files[0] = G.GhostTextFile(disk, "md.0.xyz", "a+")
        fn(w, step, mol, st.symbolic((1,), "Ek"), st.symbolic((1,), "V"))
        return disk, mol

    ex = ctx.explore(thunk, name="xyz_write")
    for p in ex.paths:
        disk, mol = p.value
        frames = disk.text_frames("md.0.xyz")
        if len(frames) != 1:
            ctx.fail("one-frame@p%d" % p.path_id, "expected exactly one frame per call, got %d" % len(frames))
            continue
        lab = G.node_from_placeholder(frames[0][1])
        ctx.prove("label=step+1@p%d" % p.path_id, Sym(lab) == step + 1, pc=p.pc)
        text = [e["text"] for e in disk.events if e["kind"] == "textwrite"][0]
        ok = all(("<sym#%d>" % mol.coordinates.a[0, 0, c].n.id) in text for c in range(3))
        if ok:
            ctx.ok("coordinates-are-current@p%d" % p.path_id, "structural")
        else:
            ctx.fail("coordinates-are-current@p%d" % p.path_id, "frame text does not carry the molecule's current coordinates")


# ---------------------------------------------------------------------------
# O3/O4: the step loop of Molecular_Dynamics_Basic.run, fresh run


class RunLoop(W.LoopContract):
    """Invariant at the head of iteration i = k (k steps done; label k is the last one written):
       for every enabled HDF5 stream s with cadence d_s:  cursor_s = k div d_s + 1  <= capacity_s,
       (skolem row r < cursor_s)  steps_s[r] = r*d_s  and  values_s[r] = hist(field_s, r*d_s);
       XYZ: one frame per due label; molecule state = hist(., k)."""

    def __init__(self, ctx, env):
        self.ctx, self.env = ctx, env

    # helpers
    def _streams(self):
        e = self.env
        out = []
        if e["data_on"]:
            out.append(("data", e["d_data"]))
        for n in STREAMS:
            if e["pos"][n]:
                out.append((n, e["cad"][n]))
        return out

    def _cursor(self, w, s):
        return S(w.i_data[0]) if s == "data" else S(w.i_vec[0][s])

    def _cap(self, w, s):
        return S(w.flags[0]["Tw_data"]) if s == "data" else S(w.flags[0]["Tw_vec"][s])

    def _hist_or_now(self, field, label, k_now, now):
        """ghost history extended by the current state: hist[k_now := now]."""
        h = hist(field, label, FIELDS[field]).a.reshape(-1)
        nowf = now.a.reshape(-1)
        cond = E.eq(E.node_of(label), E.node_of(k_now))
        return [Sym(E.ite(cond, nowf[j].n, h[j].n)) for j in range(len(h))]

    def _inv(self, k, md, mol, tag, emit):
        """emit(name, cond) for every clause of Inv(k) given the current heap."""
        e = self.env
        r = e["r"]
        w = md._h5_writer
        if w is None:
            if self._streams():
                emit(tag + ".h5-writer-exists", E.FALSE)
            return
        f = w.handles[0]
        for s, d in self._streams():
            cur_ = self._cursor(w, s)
            emit("%s.%s.cursor" % (tag, s), cur_ == k // d + 1)
            emit("%s.%s.capacity" % (tag, s), cur_ <= self._cap(w, s))
            inrange = (r >= 0) & (r < cur_)
            steps_ds = f["data/steps"] if s == "data" else f[s + "/steps"]
            emit("%s.%s.labels" % (tag, s), Sym(E.implies(inrange.n, E.eq(E.node_of(steps_ds.read(r.n)), (r * d).n))))
            if s == "data":
                dip = np.asarray(f["data/properties/ground_dipole"].read(r.n), dtype=object).reshape(-1)
                want = self._hist_or_now("dipole", r * d, k, mol.dipole)
                emit("%s.data.values(dipole)" % tag, Sym(E.implies(inrange.n, E.and_(*[E.eq(E.node_of(x), y.n) for x, y in zip(dip, want)]))))
                # thermo values: those of the velocities / potential of the same label
                # Ek(hist[k := now](label)) with the case split lifted out of the (possibly interpreted) kinetic-energy term
                ek_want = E.ite(E.eq(E.node_of(r * d), E.node_of(k)), ek_node([x.n for x in mol.velocities.a.reshape(-1)]),
                                ek_node([x.n for x in hist("velocities", r * d).a.reshape(-1)]))
                emit("%s.data.values(Ek)" % tag, Sym(E.implies(inrange.n, E.eq(E.node_of(f["data/thermo/Ek"].read(r.n)), ek_want))))
                emit("%s.data.values(T)" % tag, Sym(E.implies(inrange.n, E.eq(E.node_of(f["data/thermo/T"].read(r.n)), E.uf("T_of", (ek_want,), E.R)))))
                ep = self._hist_or_now("Etot", r * d, k, mol.Etot)
                emit("%s.data.values(Ep)" % tag, Sym(E.implies(inrange.n, E.eq(E.node_of(f["data/thermo/Ep"].read(r.n)), ep[0].n))))
            else:
                vals = np.asarray(f[s + "/values"].read(r.n), dtype=object).reshape(-1)
                want = self._hist_or_now(VEC_FIELD[s], r * d, k, getattr(mol, VEC_FIELD[s]))
                emit("%s.%s.values" % (tag, s), Sym(E.implies(inrange.n, E.and_(*[E.eq(E.node_of(x), y.n) for x, y in zip(vals, want)]))))
        # disabled streams: no group, no rows
        for n in STREAMS:
            if not e["pos"][n]:
                emit("%s.%s.suppressed" % (tag, n), E.const(n not in f))
        if not e["data_on"]:
            emit("%s.data.suppressed" % tag, E.const("data" not in f))

    def enter(self, L, it):
        md, mol = L["self"], L["molecule"]
        e = self.env
        e["entry_events"] = len(e["disk"].events)
        self._inv(S(e.get("k0", 0)), md, mol, "entry", lambda n, c: oblige(n, c))
        # XYZ: initial frame labelled 0 iff the stream is enabled
        frames = e["disk"].text_frames("md.0.xyz")
        if e.get("resume"):
            oblige("entry.xyz.no-frame-written-on-resume", E.const(len(frames) == 0))
            oblige("entry.no-rows-written-on-resume", E.const(not any(ev["kind"] == "h5write" for ev in e["disk"].events)))
        elif e["xyz_on"]:
            if len(frames) != 1:
                oblige("entry.xyz.initial-frame", E.FALSE)
            else:
                oblige("entry.xyz.initial-frame", Sym(G.node_from_placeholder(frames[0][1])) == 0)
        else:
            oblige("entry.xyz.suppressed", E.const(len(frames) == 0 and md._xyz_writer is None))

    def havoc(self, L, it):
        md, mol = L["self"], L["molecule"]
        e = self.env
        k = fresh_int("k")
        e["k"] = k
        assume((k >= e.get("k0", 0)) & (k <= e["steps"]))
        # havoc: writer cursors, dataset contents, molecule state; then assume Inv(k)
        w = md._h5_writer
        if w is not None:
            f = w.handles[0]
            for ds in f.datasets().values():
                ds.writes = []
                nm = ds.path[1].strip("/").replace("/", "_")
                if len(ds.shape) == 1:
                    ds.base = (lambda nm: lambda r: Sym(E.uf("head_" + nm, (r,), E.R)))(nm)
                else:
                    n = tuple(ds.shape[1:])
                    ds.base = (lambda nm, n: lambda r: np.array([Sym(E.uf("head_" + nm, (r, E.const(j)), E.R)) for j in range(int(np.prod(n)))], dtype=object).reshape(n))(nm, n)
            for s, d in self._streams():
                if s == "data":
                    w.i_data[0] = k // d + 1
                else:
                    w.i_vec[0][s] = k // d + 1
        set_state(mol, k)
        mol.acc = st.symbolic((1, 1, 3), "acc_k")
        e["havoc_events"] = len(e["disk"].events)
        self._inv(k, md, mol, "head", lambda n, c: assume(c, ghost=not n.endswith(".cursor") and not n.endswith(".capacity")))
        e["printed"] = []
        e["ckpts"] = []
        return {"E0": st.symbolic((1,), "E0")}

    def guard(self, L, it):
        return self.env["k"] < self.env["steps"]

    def target(self, L, it):
        return self.env["k"]

    def back(self, L):
        md, mol = L["self"], L["molecule"]
        e = self.env
        k = e["k"]
        self._inv(k + 1, md, mol, "step", lambda n, c: oblige(n, c))
        # XYZ: exactly one frame in this iteration iff k+1 is due, labelled k+1
        frames = [fr for fr in e["disk"].text_frames("md.0.xyz") if fr[0] >= e["havoc_events"]]
        if e["xyz_on"]:
            due = ((k + 1) % e["d_xyz"] == 0)
            if len(frames) == 0:
                oblige("step.xyz.frame-iff-due", ~due)
            elif len(frames) == 1:
                oblige("step.xyz.frame-iff-due", due)
                oblige("step.xyz.label", Sym(G.node_from_placeholder(frames[0][1])) == k + 1)
            else:
                oblige("step.xyz.frame-iff-due", E.FALSE)
        else:
            oblige("step.xyz.suppressed", E.const(len(frames) == 0))
        # screen output and checkpoints at their own cadence, with the right label
        if e["print_on"]:
            due = ((k + 1) % e["d_print"] == 0)
            oblige("step.print.iff-due", due if len(e["printed"]) == 1 else (~due if len(e["printed"]) == 0 else E.FALSE))
            if e["printed"]:
                oblige("step.print.label", S(e["printed"][0]) + 1 == k + 1)
        else:
            oblige("step.print.suppressed", E.const(len(e["printed"]) == 0))
        if e["ckpt_on"]:
            due = ((k + 1) % e["d_ckpt"] == 0)
            oblige("step.checkpoint.iff-due", due if len(e["ckpts"]) == 1 else (~due if len(e["ckpts"]) == 0 else E.FALSE))
            if e["ckpts"]:
                oblige("step.checkpoint.label", S(e["ckpts"][0][0]) == k + 1)
        else:
            oblige("step.checkpoint.suppressed", E.const(len(e["ckpts"]) == 0), replay=replay_checkpoint_off)

    def exit(self, L):
        # k == steps: every allocated row has been written (no filler), i.e. cursor == capacity
        md = L["self"]
        w = md._h5_writer
        if w is not None:
            for s, d in self._streams():
                oblige("exit.%s.no-filler-rows" % s, self._cursor(w, s) == self._cap(w, s))


def _run_config(ctx, data_on, posmask, xyz_on, print_on, ckpt_on, resume=False, on_ckpt=None, run_kwargs=None, remove_com=None, ek_spec=False, replay=None, extra_pre=()):
    tgt_run = MD + ":Molecular_Dynamics_Basic.run"
    ctx.under_contract(tgt_run, loops_cut=["for i in range(self.step_offset, steps)"],
                       stubs=["_do_integrator_step", "append_vectors", "append_data", "_kinetic_energy", "_calc_temperature", "save_checkpoint", "_output_to_screen", "initialize_velocity", "esdriver", "_rotate_existing"])
    for t in (":Molecular_Dynamics_Basic.__init__", ":Molecular_Dynamics_Basic.initialize", ":OutputConfig.from_dict", ":HDF5Writer.open", ":HDF5Writer._create_new", ":XYZWriter.open", ":XYZWriter.write"):
        ctx.under_contract(MD + t)
    pos = dict(zip(STREAMS, posmask))
    cad = {n: (integer("d_" + n) if pos[n] else 0) for n in STREAMS}
    env = dict(cad=cad, pos=pos, data_on=data_on, d_data=integer("d_data") if data_on else 0, xyz_on=xyz_on, d_xyz=integer("d_xyz") if xyz_on else 0,
               print_on=print_on, d_print=integer("d_print") if print_on else 0, ckpt_on=ckpt_on, d_ckpt=integer("d_ckpt") if ckpt_on else 0,
               steps=integer("steps"), r=integer("r"))
    pre = [env["steps"] >= 0]
    if resume:
        c0 = integer("c_resume")
        env["k0"] = c0
        env["resume"] = True
        pre += [c0 >= 1, c0 <= env["steps"]]
    env["on_ckpt"] = on_ckpt
    for n in STREAMS:
        if pos[n]:
            pre.append(cad[n] > 0)
    for flag, key in ((data_on, "d_data"), (xyz_on, "d_xyz"), (print_on, "d_print"), (ckpt_on, "d_ckpt")):
        if flag:
            pre.append(env[key] > 0)
    loop = RunLoop(ctx, env)
    run = W.cut_loops(tgt_run, {0: ("range(self.step_offset, steps)", loop)})

    def stub_integrator(self, i, molecule, learned_parameters, **kw):
        # contract: advances the molecule to the state of label i+1 (proved for the integrators in C08)
        set_state(molecule, S(i) + 1)

    def stub_screen(self, step, T, Ek, V):
        env["printed"].append(step)

    def stub_ckpt(self, molecule, steps, reuse_P, remove_com, *, step_done, path):
        env["ckpts"].append((step_done, len(env["disk"].events)))
        if env.get("on_ckpt"):
            env["on_ckpt"](env, self, molecule, step_done)

    def stub_initvel(self, molecule, vel_com=True):
        return molecule.velocities

    def thunk():
        from seqm.MolecularDynamics import Molecular_Dynamics_Basic

        for c in pre:
            assume(c)
        for c in extra_pre:
            assume(c)
        disk = G.GhostDisk()
        env["disk"] = disk
        env["printed"], env["ckpts"] = [], []
        W.sys.modules[MD].__dict__["h5py"] = disk.h5py_module()
        W.sys.modules[MD].__dict__["open"] = disk.open_fn()
        output = {"molid": [0], "prefix": "md", "print every": env["d_print"], "checkpoint every": env["d_ckpt"], "xyz": env["d_xyz"],
                  "h5": {"data": env["d_data"], "coordinates": cad["coordinates"], "velocities": cad["velocities"], "forces": cad["forces"]}}
        if resume:
            _prepopulate_resume_disk(disk, env)
        md = Molecular_Dynamics_Basic({"method": "AM1"}, timestep=real("dt"), Temp=real("Temp"), step_offset=env.get("k0", 0), output=output)
        mol = ghost_molecule(env.get("k0", 0))
        kw = {}
        for k_, v_ in (run_kwargs or {}).items():
            kw[k_] = v_() if callable(v_) else v_
        run(md, mol, env["steps"], remove_com=remove_com, **kw)
        return "returned"

    def stub_zero_com(self, molecule, remove_angular=True, translate_to_origin=False, restore_kinetic_energy=True):
        # contract (C13): modifies the velocities (and nothing the output reads besides them): arbitrary new values
        molecule.velocities = st.symbolic((1, 1, 3), st._fresh_name("vcom").replace("#", "_"))

    stubs = {
        MD + ":esdriver": DummyDriver,
        MD + ":Molecular_Dynamics_Basic._zero_com": stub_zero_com,
        MD + ":_rotate_existing": lambda *a, **k: None,
        MD + ":Molecular_Dynamics_Basic._do_integrator_step": stub_integrator,
        MD + ":Molecular_Dynamics_Basic._output_to_screen": stub_screen,
        MD + ":Molecular_Dynamics_Basic.save_checkpoint": stub_ckpt,
        MD + ":Molecular_Dynamics_Basic.initialize_velocity": stub_initvel,
        MD + ":Molecular_Dynamics_Basic._kinetic_energy": stub_kinetic_energy,
        MD + ":Molecular_Dynamics_Basic._calc_temperature": stub_calc_temperature,
        MD + ":HDF5Writer.append_vectors": stub_append_vectors,
        MD + ":HDF5Writer.append_data": stub_append_data,
    }
    import h5py as real_h5py
    saved = (W.sys.modules[MD].__dict__.get("h5py"), W.sys.modules[MD].__dict__.get("open", None))
    import contracts.md_common as _mdc
    try:
        _mdc.EK_MODEL["spec"] = bool(ek_spec)
        ex = ctx.explore(thunk, stubs=stubs, name="run", max_paths=2000)
    finally:
        _mdc.EK_MODEL["spec"] = False
        W.sys.modules[MD].__dict__["h5py"] = real_h5py
        if saved[1] is None:
            W.sys.modules[MD].__dict__.pop("open", None)
        else:
            W.sys.modules[MD].__dict__["open"] = saved[1]
    n_ended = sum(1 for p in ex.paths if p.ended)
    n_ret = sum(1 for p in ex.paths if p.value == "returned")
    for p in ex.paths:
        if p.raised is not None:
            ctx.fail("run.raises@p%d" % p.path_id, "run raised %r\n%s" % (p.raised, p.notes.get("traceback", "")[-800:]))
    if n_ended == 0 or n_ret == 0:
        ctx.error("paths", "vacuous exploration: %d back-edge paths, %d returning paths" % (n_ended, n_ret))
    ctx.notes.append("run config data=%s vec=%s xyz=%s print=%s ckpt=%s: %d paths (%d to the back edge, %d returning), explorer %s" % (data_on, posmask, xyz_on, print_on, ckpt_on, len(ex.paths), n_ended, n_ret, ex.stats))
    ctx.cover("pre", pre)
    ctx.hubs = frozenset(["k#1", "steps", "r"])
    ctx.discharge(ex.all_obligations(), replay=replay or (replay_resumed_cadence if resume else replay_cadence), classify=classify_cadence)
    ctx.assume_note("A3 (ghost h5py / text files) as in pyvc.ghostfs; _rotate_existing assumed to find no previous files")
    ctx.assume_note("callee contracts assumed here and proved separately: append_vectors/append_data = vectors_effect/data_effect (tasks append_vectors, append_data); _do_integrator_step advances the molecule to hist(., i+1) (C08); _kinetic_energy/_calc_temperature are functions of the current velocities only (C08/C13)")
    ctx.assume_note("configuration: fresh run (step_offset = 0), molid = [0], ground state, no scale_vel / control_energy_shift / COM removal kwargs")


def _prepopulate_resume_disk(disk, env):
    """Disk state a resumed run starts from, as guaranteed by the crash invariant Recoverable(c) (C10): every stream's file
    has the capacity of the uninterrupted run; rows for labels <= c hold (label, hist(label)); later rows are arbitrary."""
    c0, steps, r = env["k0"], env["steps"], env["r"]
    f = G.GhostH5File(disk, "md.0.h5", "w")
    disk.h5["md.0.h5"] = f
    disk.exists.add("md.0.h5")
    f.create_dataset("atoms", data=np.array([1]))

    def scalar(nm):
        return lambda rr: Sym(E.uf("disk_" + nm, (rr,), E.R))

    def vec(nm, n):
        return lambda rr: np.array([Sym(E.uf("disk_" + nm, (rr, E.const(j)), E.R)) for j in range(int(np.prod(n)))], dtype=object).reshape(n)

    streams = ([("data", env["d_data"])] if env["data_on"] else []) + [(n, env["cad"][n]) for n in STREAMS if env["pos"][n]]
    for s, d in streams:
        cap = (steps + d) // d  # capacity allocated by the fresh run (C11 obligation exit.*.no-filler-rows / _n_timepoints)
        inr = (r >= 0) & (r <= c0 // d)
        if s == "data":
            gd = f.create_group("data")
            names = {"steps": None, "thermo/T": None, "thermo/Ek": None, "thermo/Ep": None}
            for nm in names:
                ds = gd.create_dataset(nm, shape=(cap,))
                ds.base = scalar("data_" + nm.replace("/", "_"))
            dd = gd.create_dataset("properties/ground_dipole", shape=(cap, 3))
            dd.base = vec("data_dipole", (3,))
            assume(Sym(E.implies(inr.n, E.eq(E.node_of(gd["steps"].read(r.n)), (r * d).n))), ghost=True)
            vel = hist("velocities", r * d).a.reshape(-1)
            ek = ek_node([x.n for x in vel])
            assume(Sym(E.implies(inr.n, E.eq(E.node_of(gd["thermo/Ek"].read(r.n)), ek))), ghost=True)
            assume(Sym(E.implies(inr.n, E.eq(E.node_of(gd["thermo/T"].read(r.n)), E.uf("T_of", (ek,), E.R)))), ghost=True)
            assume(Sym(E.implies(inr.n, E.eq(E.node_of(gd["thermo/Ep"].read(r.n)), hist("Etot", r * d).a[0].n))), ghost=True)
            dip = np.asarray(dd.read(r.n), dtype=object).reshape(-1)
            want = hist("dipole", r * d).a.reshape(-1)
            assume(Sym(E.implies(inr.n, E.and_(*[E.eq(E.node_of(x), y.n) for x, y in zip(dip, want)]))), ghost=True)
        else:
            g = f.create_group(s)
            ds = g.create_dataset("steps", shape=(cap,))
            ds.base = scalar(s + "_steps")
            dv = g.create_dataset("values", shape=(cap, 1, 3))
            dv.base = vec(s + "_values", (1, 3))
            assume(Sym(E.implies(inr.n, E.eq(E.node_of(ds.read(r.n)), (r * d).n))), ghost=True)
            vals = np.asarray(dv.read(r.n), dtype=object).reshape(-1)
            want = hist(VEC_FIELD[s], r * d).a.reshape(-1)
            assume(Sym(E.implies(inr.n, E.and_(*[E.eq(E.node_of(x), y.n) for x, y in zip(vals, want)]))), ghost=True)
    disk.events.clear()


def classify_cadence(model, rep):
    """Witness class of a refuted step-loop obligation: which gate the witness step fails."""
    k1 = (model.get("k#1") or 0)
    try:
        k1 = int(k1) + 1
    except Exception:
        return "unclassified"
    ds = {n: model.get("d_" + n) for n in STREAMS}
    pos = [int(v) for v in ds.values() if isinstance(v, int) and v > 0]
    if pos and k1 % min(pos) != 0 and any(isinstance(v, int) and v > 0 and k1 % v == 0 for v in ds.values()):
        return "vector-stream-due-at-a-step-that-is-not-a-multiple-of-the-smallest-vector-cadence"
    return "other"


_RP_ONCE = {}


def replay_checkpoint_off(model):
    """real code: AM1 H2, 105 steps with 'checkpoint every': 0 -- no restart file may appear (a cadence of zero suppresses the stream)."""
    if "r" in _RP_ONCE:
        return _RP_ONCE["r"]
    import os, shutil, tempfile, io, contextlib, glob
    import torch
    from seqm.seqm_functions.constants import Constants
    from seqm.Molecule import Molecule
    from seqm.MolecularDynamics import Molecular_Dynamics_Basic

    torch.set_default_dtype(torch.float64)
    tmp = tempfile.mkdtemp(prefix="pyvc_c11_")
    try:
        params = {"method": "AM1", "scf_eps": 1e-6, "scf_converger": [1], "sp2": [False, 1e-5], "elements": [0, 1], "learned": [], "pair_outer_cutoff": 1e10, "eig": True}
        mol = Molecule(Constants(), params, torch.tensor([[[0.0, 0.0, 0.0], [0.78, 0.0, 0.0]]]), torch.as_tensor([[1, 1]], dtype=torch.int64))
        md = Molecular_Dynamics_Basic(params, timestep=0.2, Temp=100.0, output={"molid": [0], "prefix": os.path.join(tmp, "md"), "print every": 0, "checkpoint every": 0, "xyz": 0, "h5": {}})
        with contextlib.redirect_stdout(io.StringIO()):
            md.run(mol, 105, seed=1)
        files = sorted(os.path.basename(f) for f in glob.glob(os.path.join(tmp, "*")))
        _RP_ONCE["r"] = {"reproduced": any(f.endswith(".pt") for f in files), "steps": 105, "checkpoint every": 0, "files_written": files}
    except Exception as exc:  # noqa
        _RP_ONCE["r"] = {"reproduced": False, "error": repr(exc)[:300]}
    finally:
        shutil.rmtree(tmp, ignore_errors=True)
    return _RP_ONCE["r"]


def replay_cadence(model):
    """Drive the real Molecular_Dynamics_Basic (real torch, real h5py, AM1 H2) with the model's cadences and compare every
    stream with the set of due labels."""
    import os, shutil, tempfile, io, contextlib
    import torch, h5py
    from seqm.seqm_functions.constants import Constants
    from seqm.Molecule import Molecule
    from seqm.MolecularDynamics import Molecular_Dynamics_Basic

    def gi(k, default=0):
        v = model.get(k)
        try:
            return int(v)
        except (TypeError, ValueError):
            return default

    cad = {n: gi("d_" + n) for n in STREAMS}
    d_data, d_xyz = gi("d_data"), gi("d_xyz")
    k1 = gi("k#1") + 1
    # long enough for every enabled stream to come due at least twice after step 0 (a single row cannot tell a written
    # label 0 from an unwritten filler row, which also reads 0)
    steps = max(k1, 1, 2 * max([0] + [v for v in list(cad.values()) + [d_data] if v > 0]))
    reduced = False
    if steps > 40 or any(v > 40 for v in list(cad.values()) + [d_data, d_xyz]):
        # the solver's witness is too long to run with a real SCF per step: replay a reduced witness of the same
        # configuration class instead (same set of enabled streams, small pairwise-coprime cadences, 12 steps)
        primes = iter((2, 3, 5))
        cad = {n: (next(primes) if v > 0 else 0) for n, v in cad.items()}
        d_data = 1 if d_data > 0 else 0
        d_xyz = 4 if d_xyz > 0 else 0
        steps = 12
        reduced = True
    torch.set_default_dtype(torch.float64)
    tmp = tempfile.mkdtemp(prefix="pyvc_c11_")
    try:
        species = torch.as_tensor([[1, 1]], dtype=torch.int64)
        coords = torch.tensor([[[0.0, 0.0, 0.0], [0.78, 0.0, 0.0]]])
        params = {"method": "AM1", "scf_eps": 1e-6, "scf_converger": [2, 0.0], "sp2": [False, 1e-5], "elements": [0, 1], "learned": [],
                  "pair_outer_cutoff": 1e10, "eig": True}
        mol = Molecule(Constants(), params, coords, species)
        out = {"molid": [0], "prefix": os.path.join(tmp, "md"), "print every": 0, "checkpoint every": 0, "xyz": d_xyz,
               "h5": {"data": d_data, "coordinates": cad["coordinates"], "velocities": cad["velocities"], "forces": cad["forces"]}}
        md = Molecular_Dynamics_Basic(params, timestep=0.2, Temp=300.0, output=out)
        with contextlib.redirect_stdout(io.StringIO()):
            md.run(mol, steps, seed=1)
        bad = {}
        with h5py.File(os.path.join(tmp, "md.0.h5"), "r") as f:
            for name, d in list(cad.items()) + [("data", d_data)]:
                want = [l for l in range(0, steps + 1) if d > 0 and l % d == 0]
                got = f[name + "/steps"][...].tolist() if name in f else []
                if got != want:
                    bad[name] = {"cadence": d, "want_labels": want, "got_labels": got}
        xyz_bad = None
        if d_xyz > 0:
            import re
            labels = [int(x) for x in re.findall(r"step:\s*(-?\d+)", open(os.path.join(tmp, "md.0.xyz")).read())]
            want = [l for l in range(0, steps + 1) if l % d_xyz == 0]
            if labels != want:
                xyz_bad = {"want_labels": want, "got_labels": labels}
                bad["xyz"] = xyz_bad
        return {"reproduced": bool(bad), "steps": steps, "cadences": dict(cad, data=d_data, xyz=d_xyz), "streams_wrong": bad,
                "witness": "reduced from the solver model (same enabled streams)" if reduced else "solver model"}
    finally:
        shutil.rmtree(tmp, ignore_errors=True)


def replay_resumed_cadence(model):
    """Real driver: 12 planned steps, checkpoint every 5, crash injected at the start of step 6, run_from_checkpoint;
    every stream must hold exactly its own due labels."""
    import os, shutil, tempfile, io, contextlib
    import torch, h5py
    from seqm.seqm_functions.constants import Constants
    from seqm.Molecule import Molecule
    import seqm.MolecularDynamics as M

    def gi(k):
        try:
            return int(model.get(k))
        except (TypeError, ValueError):
            return 0

    primes = iter((2, 3, 4))
    cad = {n: (next(primes) if gi("d_" + n) > 0 else 0) for n in STREAMS}
    d_data = 1 if gi("d_data") > 0 else 0
    steps, c = 12, 5
    torch.set_default_dtype(torch.float64)
    tmp = tempfile.mkdtemp(prefix="pyvc_c11r_")
    try:
        params = {"method": "AM1", "scf_eps": 1e-6, "scf_converger": [2, 0.0], "sp2": [False, 1e-5], "elements": [0, 1], "learned": [], "pair_outer_cutoff": 1e10, "eig": True}
        mol = Molecule(Constants(), params, torch.tensor([[[0.0, 0, 0], [0.78, 0, 0]]]), torch.tensor([[1, 1]]))
        out = {"molid": [0], "prefix": os.path.join(tmp, "md"), "print every": 0, "checkpoint every": c, "xyz": 0,
               "h5": {"data": d_data, "coordinates": cad["coordinates"], "velocities": cad["velocities"], "forces": cad["forces"]}}
        md = M.Molecular_Dynamics_Basic(params, timestep=0.2, Temp=300.0, output=out)
        orig = M.Molecular_Dynamics_Basic._do_integrator_step

        def crashing(self, i, molecule, lp, **kw):
            if i == c:
                raise KeyboardInterrupt("injected crash")
            return orig(self, i, molecule, lp, **kw)

        M.Molecular_Dynamics_Basic._do_integrator_step = crashing
        try:
            with contextlib.redirect_stdout(io.StringIO()):
                try:
                    md.run(mol, steps, seed=1)
                except KeyboardInterrupt:
                    pass
        finally:
            M.Molecular_Dynamics_Basic._do_integrator_step = orig
        with contextlib.redirect_stdout(io.StringIO()):
            M.Molecular_Dynamics_Basic.run_from_checkpoint(os.path.join(tmp, "md.restart.pt"))
        bad = {}
        with h5py.File(os.path.join(tmp, "md.0.h5"), "r") as f:
            for name, d in list(cad.items()) + [("data", d_data)]:
                want = [l for l in range(0, steps + 1) if d > 0 and l % d == 0]
                got = f[name + "/steps"][...].tolist() if name in f else []
                if got != want:
                    bad[name] = {"cadence": d, "want_labels": want, "got_labels": got}
        return {"reproduced": bool(bad), "history": "12 steps, checkpoint every 5, crash at the start of step 6, resumed", "cadences": dict(cad, data=d_data), "streams_wrong": bad}
    finally:
        shutil.rmtree(tmp, ignore_errors=True)


def _resume_cfg_task(data_on, posmask):
    def t(ctx):
        _run_config(ctx, data_on, posmask, True, True, True, resume=True)
        ctx.assume_note("resumed runs start from a disk satisfying the crash invariant Recoverable(c) (established under C10)")
    return t


task_resume_D_CVF = _resume_cfg_task(True, (True, True, True))
task_resume_d_cVf = _resume_cfg_task(False, (False, True, False))


def _cfg_task(data_on, posmask, xyz_on=True, print_on=True, ckpt_on=True):
    def t(ctx):
        _run_config(ctx, data_on, posmask, xyz_on, print_on, ckpt_on)
    return t


_CONFIGS = {}
for _d in (True, False):
    for _m in itertools.product((True, False), repeat=3):
        _name = "run_%s_%s" % ("D" if _d else "d", "".join(c.upper() if b else c for c, b in zip("cvf", _m)))
        _CONFIGS[_name] = (_d, _m)
        globals()["task_" + _name] = _cfg_task(_d, _m)
task_run_alloff = _cfg_task(False, (False, False, False), False, False, False)
task_run_alloff.__doc__ = "every output stream disabled: no file, no group, no row, no checkpoint."

TASKS_QUICK = ["n_timepoints", "append_vectors", "append_data", "xyz_write"] + sorted(_CONFIGS) + ["run_alloff", "resume_D_CVF", "resume_d_cVf"]
# thorough: the resumed-run loop contract for every enable pattern of the streams (quick has two of the sixteen)
_RESUME_ALL = []
for _name, (_d, _m) in sorted(_CONFIGS.items()):
    _rn = _name.replace("run_", "resume_")
    if "task_" + _rn not in globals():
        globals()["task_" + _rn] = _resume_cfg_task(_d, _m)
    if _rn not in ("resume_D_CVF", "resume_d_cVf") and (_d or any(_m)):
        _RESUME_ALL.append(_rn)
TASKS_THOROUGH = TASKS_QUICK + _RESUME_ALL
