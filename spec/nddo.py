"""Specification functions for the NDDO two-centre integrals, written from the
published model (Dewar & Thiel, Theor. Chim. Acta 46, 89 (1977): point-charge
multipoles with Klopman-Ohno additive terms) and from the tensor
transformation law for s/p basis functions -- not from the PYSEQM code.

All functions work on any scalar type that supports + - * / ** (Sym, Fraction,
float), so the same text is used symbolically and numerically.
"""
from fractions import Fraction
from itertools import product

# local orbital labels on one centre: 0 = s, 1 = p-sigma (along the bond), 2 = p-pi, 3 = p-pi'
S_, O_, P_, Q_ = 0, 1, 2, 3

# The 22 unique local-frame integrals in the MOPAC `repp` order (index = number-1) and all
# their symmetry-equivalent positions (pairs are unordered).  Orbitals (a b | c d): a,b on the
# first atom, c,d on the second.
_UNIQUE = {
    0: [((S_, S_), (S_, S_))],
    1: [((S_, O_), (S_, S_))],
    2: [((O_, O_), (S_, S_))],
    3: [((P_, P_), (S_, S_)), ((Q_, Q_), (S_, S_))],
    4: [((S_, S_), (O_, S_))],
    5: [((S_, O_), (S_, O_))],
    6: [((S_, P_), (S_, P_)), ((S_, Q_), (S_, Q_))],
    7: [((O_, O_), (S_, O_))],
    8: [((P_, P_), (S_, O_)), ((Q_, Q_), (S_, O_))],
    9: [((P_, O_), (S_, P_)), ((Q_, O_), (S_, Q_))],
    10: [((S_, S_), (O_, O_))],
    11: [((S_, S_), (P_, P_)), ((S_, S_), (Q_, Q_))],
    12: [((S_, O_), (O_, O_))],
    13: [((S_, O_), (P_, P_)), ((S_, O_), (Q_, Q_))],
    14: [((S_, P_), (O_, P_)), ((S_, Q_), (O_, Q_))],
    15: [((O_, O_), (O_, O_))],
    16: [((P_, P_), (O_, O_)), ((Q_, Q_), (O_, O_))],
    17: [((O_, O_), (P_, P_)), ((O_, O_), (Q_, Q_))],
    18: [((P_, P_), (P_, P_)), ((Q_, Q_), (Q_, Q_))],
    19: [((P_, O_), (P_, O_)), ((Q_, O_), (Q_, O_))],
    20: [((P_, P_), (Q_, Q_)), ((Q_, Q_), (P_, P_))],
    21: [((Q_, P_), (Q_, P_))],
}


def local_tensor(ri):
    """ri: sequence of the 22 unique integrals -> dict {(a,b,c,d): value} (non-zero entries only)."""
    L = {}
    for k, places in _UNIQUE.items():
        for (a, b), (c, d) in places:
            for ab in {(a, b), (b, a)}:
                for cd in {(c, d), (d, c)}:
                    L[ab + cd] = ri[k]
    return L


def local_tensor_XH(riXH):
    """heavy atom - hydrogen: (ss|ss), (so|ss), (oo|ss), (pp|ss)."""
    L = {}
    table = {0: [(S_, S_)], 1: [(S_, O_)], 2: [(O_, O_)], 3: [(P_, P_), (Q_, Q_)]}
    for k, places in table.items():
        for (a, b) in places:
            for ab in {(a, b), (b, a)}:
                L[ab + (S_, S_)] = riXH[k]
    return L


def ao_transform(R):
    """T[a][m]: coefficient of local orbital a in molecular-frame orbital m (0 = s, 1..3 = px,py,pz).
    R[a][m]: a-th local axis (row 0 = bond direction) expressed in the molecular frame."""
    T = [[0] * 4 for _ in range(4)]
    T[0][0] = 1
    for a in range(3):
        for m in range(3):
            T[a + 1][m + 1] = R[a][m]
    return T


def rotated_integral(L, T, k, l, m, n):
    """(k l | m n) in the molecular frame = sum T[a][k] T[b][l] T[c][m] T[d][n] L[a,b,c,d]."""
    acc = 0
    for (a, b, c, d), val in L.items():
        ta, tb, tc, td = T[a][k], T[b][l], T[c][m], T[d][n]
        if _is0(ta) or _is0(tb) or _is0(tc) or _is0(td):
            continue
        acc = acc + ta * tb * tc * td * val
    return acc


def _is0(x):
    return isinstance(x, int) and x == 0


def pair_order():
    """Packed order of orbital pairs (kk >= ll) used for the 10x10 two-centre block."""
    return [(kk, ll) for kk in range(4) for ll in range(kk + 1)]


# ----------------------------------------------------------------------------
# Dewar-Thiel multipole model


def _charges(kind, D1, D2):
    """Point-charge configuration [(q, (x, y, z))] of the charge distribution `kind` on a centre with
    dipole arm D1 and quadrupole arm D2 (z = local sigma axis here; the integral code's r runs along it).
      ss -> monopole q                       (1 charge)
      so -> dipole along sigma  +-1/2 at +-D1
      sp -> dipole along pi     +-1/2 at +-D1 on the pi axis
      oo -> monopole + linear quadrupole along sigma: 1/4 at +-2 D2, -1/2 at 0
      pp -> monopole + linear quadrupole along pi
      po -> square quadrupole in the (pi, sigma) plane: +1/4 at (D2,D2),(-D2,-D2); -1/4 at (D2,-D2),(-D2,D2)
      pq -> square quadrupole in the (pi, pi') plane
    """
    h, q = Fraction(1, 2), Fraction(1, 4)
    if kind == "ss":
        return [(1, (0, 0, 0))]
    if kind == "so":
        return [(h, (0, 0, D1)), (-h, (0, 0, -D1))]
    if kind == "sp":
        return [(h, (D1, 0, 0)), (-h, (-D1, 0, 0))]
    if kind == "sq":
        return [(h, (0, D1, 0)), (-h, (0, -D1, 0))]
    if kind == "oo":
        return [(1, (0, 0, 0)), (q, (0, 0, 2 * D2)), (-h, (0, 0, 0)), (q, (0, 0, -2 * D2))]
    if kind == "pp":
        return [(1, (0, 0, 0)), (q, (2 * D2, 0, 0)), (-h, (0, 0, 0)), (q, (-2 * D2, 0, 0))]
    if kind == "qq":
        return [(1, (0, 0, 0)), (q, (0, 2 * D2, 0)), (-h, (0, 0, 0)), (q, (0, -2 * D2, 0))]
    if kind == "po":
        return [(q, (D2, 0, D2)), (q, (-D2, 0, -D2)), (-q, (D2, 0, -D2)), (-q, (-D2, 0, D2))]
    if kind == "qo":
        return [(q, (0, D2, D2)), (q, (0, -D2, -D2)), (-q, (0, D2, -D2)), (-q, (0, -D2, D2))]
    if kind == "pq":
        return [(q, (D2, D2, 0)), (q, (-D2, -D2, 0)), (-q, (D2, -D2, 0)), (-q, (-D2, D2, 0))]
    raise KeyError(kind)


_MULTIPOLE_ORDER = {"ss": 0, "so": 1, "sp": 1, "sq": 1, "oo": 2, "pp": 2, "qq": 2, "po": 2, "qo": 2, "pq": 2}


def _rho_for(kind, part, rho0, rho1, rho2):
    """Klopman-Ohno additive term of a multipole: monopole rho0, dipole rho1, quadrupole rho2."""
    return (rho0, rho1, rho2)[part]


def _parts(kind, D1, D2):
    """Split a distribution into multipole parts [(order, charges)]: oo/pp/qq = monopole + quadrupole."""
    if kind in ("oo", "pp", "qq"):
        ch = _charges(kind, D1, D2)
        return [(0, ch[:1]), (2, ch[1:])]
    return [(_MULTIPOLE_ORDER[kind], _charges(kind, D1, D2))]


def multipole_integral(kindA, kindB, r, DA, QA, DB, QB, rhoA, rhoB, ev, rsqrt):
    """(kindA | kindB) = ev * sum_{parts} sum_{charges i in A, j in B} q_i q_j / sqrt(R_ij^2 + (rho_a + rho_b)^2).
    Local frame: the sigma axis (z here) is the unit vector pointing from atom B to atom A (this is what
    "row 0 of the frame rotation = -x_ij" means geometrically); atom A sits at the origin, atom B at -r on it.
    DA, QA: dipole / quadrupole arms of A (QA is the *quadrupole arm*, i.e. charges at +-2*QA for the linear
    quadrupole and at +-QA corners for the square one).  rhoA/rhoB = (rho0, rho1, rho2).
    rsqrt(x) must return x**(-1/2)."""
    if (kindA, kindB) == ("pq", "pq"):
        # Dewar-Thiel fix this integral by rotational invariance about the bond axis, not by a charge
        # configuration: (p p'|p p') = 1/2 [ (pp|pp) - (pp|p'p') ]
        a = (r, DA, QA, DB, QB, rhoA, rhoB, ev, rsqrt)
        return Fraction(1, 2) * (multipole_integral("pp", "pp", *a) - multipole_integral("pp", "qq", *a))
    total = 0
    for (oa, cha) in _parts(kindA, DA, QA):
        for (ob, chb) in _parts(kindB, DB, QB):
            add = (rhoA[oa] + rhoB[ob]) ** 2
            for qa, (xa, ya, za) in cha:
                for qb, (xb, yb, zb) in chb:
                    dx, dy, dz = xa - xb, ya - yb, za - (zb - r)
                    total = total + ev * qa * qb * rsqrt(dx * dx + dy * dy + dz * dz + add)
    return total


# the 22 integrals as (distribution on A | distribution on B); labels: s, o = p-sigma, p = p-pi, q = p-pi'
DT22 = [
    ("ss", "ss"), ("so", "ss"), ("oo", "ss"), ("pp", "ss"), ("ss", "so"),
    ("so", "so"), ("sp", "sp"), ("oo", "so"), ("pp", "so"), ("po", "sp"),
    ("ss", "oo"), ("ss", "pp"), ("so", "oo"), ("so", "pp"), ("sp", "po"),
    ("oo", "oo"), ("pp", "oo"), ("oo", "pp"), ("pp", "pp"), ("po", "po"),
    ("pp", "qq"), ("pq", "pq"),
]
DT4_XH = [("ss", "ss"), ("so", "ss"), ("oo", "ss"), ("pp", "ss")]


# ----------------------------------------------------------------------------
# core-core repulsion (MNDO: Dewar & Thiel 1977; AM1: Dewar et al. 1985; PM3: Stewart 1989)


def core_core(method, ZA, ZB, gamma, R, alphaA, alphaB, first_is_N_or_O_second_is_H, gaussA, gaussB, exp):
    """E_AB = Z_A Z_B (s_A s_A|s_B s_B) [1 + f_A + e^{-alpha_B R}]  (+ Z_A Z_B / R * sum of Gaussians for AM1/PM3)
    with f_A = R e^{-alpha_A R} for N-H and O-H pairs (A = N or O), e^{-alpha_A R} otherwise.  R in Angstrom.
    gaussA/gaussB: lists of (K, L, M): K exp(-L (R - M)^2)."""
    fA = exp(-alphaA * R)
    if first_is_N_or_O_second_is_H:
        fA = fA * R
    e = ZA * ZB * gamma * (1 + fA + exp(-alphaB * R))
    if method == "MNDO":
        return e
    g = 0
    for (K, L, M) in list(gaussA) + list(gaussB):
        g = g + K * exp(-L * (R - M) ** 2)
    return e + ZA * ZB / R * g


def core_core_pm6(ZA, ZB, nA, nB, numA, numB, gamma, R, x, alpha, gaussA, gaussB, exp, cbrt):
    """PM6 core-core repulsion (Stewart, J. Mol. Model. 13 (2007) 1173, eqs. 5-8; MOPAC's ccrep), R in Angstrom:
         E = Z_A Z_B (ss|ss) [1 + 2 x_AB exp(-alpha_AB (R + 0.0003 R^6))]                       general pair
         E = Z_A Z_B (ss|ss) [1 + 2 x_AB exp(-alpha_AB R^2)]                                     C-H, N-H, O-H
           + Z_A Z_B (ss|ss) 9.28 exp(-5.98 R)                                                  C-C, in addition
           - Z_A Z_B (ss|ss) 0.0007 exp(-(R - 2.9)^2)                                           Si-O, in addition
           + 1e-8 [(Z'_A^(1/3) + Z'_B^(1/3)) / R]^12                                             every pair (Z' atomic numbers)
           + Z_A Z_B / R * sum of the atoms' Gaussians K exp(-L (R - M)^2)
       nA >= nB are the atomic numbers; x = x_AB, alpha = alpha_AB (2 x: MOPAC stores the pair parameter halved)."""
    from fractions import Fraction as Fr

    if nB == 1 and nA in (6, 7, 8):
        scale = 1 + 2 * x * exp(-alpha * R * R)
    else:
        scale = 1 + 2 * x * exp(-alpha * (R + Fr(3, 10000) * R ** 6))
    e = ZA * ZB * gamma * scale
    if nA == 6 and nB == 6:
        e = e + ZA * ZB * gamma * Fr(928, 100) * exp(-Fr(598, 100) * R)
    if nA == 14 and nB == 8:
        e = e - ZA * ZB * gamma * Fr(7, 10000) * exp(-(R - Fr(29, 10)) ** 2)
    e = e + Fr(1, 10**8) * ((cbrt(numA) + cbrt(numB)) / R) ** 12
    g = 0
    for (K, L, M) in list(gaussA) + list(gaussB):
        g = g + K * exp(-L * (R - M) ** 2)
    return e + ZA * ZB / R * g


# ----------------------------------------------------------------------------
# closed-shell NDDO Fock matrix (textbook:  F = h + J - K/2 under zero differential overlap)


def one_center_integral(a, b, c, d, gss, gsp, gpp, gp2, hsp):
    """(ab|cd) on one atom, orbitals 0 = s, 1..3 = p.  hpp = (gpp - gp2)/2."""
    key = tuple(sorted([tuple(sorted((a, b))), tuple(sorted((c, d)))]))
    (a, b), (c, d) = key
    if a == b and c == d:
        if a == 0 and c == 0:
            return gss
        if a == 0 or c == 0:
            return gsp
        return gpp if a == c else gp2
    if (a, b) == (c, d):
        if a == 0:
            return hsp  # (s p | s p)
        return Fraction(1, 2) * (gpp - gp2)  # (p p' | p p')
    return 0


def unpack_two_center(wk):
    """10x10 packed block -> function (mu, nu, lam, sig) with mu,nu on the first atom, lam,sig on the second."""
    order = pair_order()
    index = {}
    for n, (k, l) in enumerate(order):
        index[(k, l)] = n
        index[(l, k)] = n
    return lambda mu, nu, lam, sig: wk[index[(mu, nu)]][index[(lam, sig)]]


def fock_spec(natoms, P, H, pairs, w, onec):
    """Dense closed-shell Fock matrix of one molecule.
    P, H: (4n x 4n) symmetric matrices as nested lists; pairs: list of (A, B) with A < B; w[k]: packed 10x10 block of pair k;
    onec[A] = (gss, gsp, gpp, gp2, hsp).  Returns F as nested list."""
    n = 4 * natoms
    F = [[H[i][j] for j in range(n)] for i in range(n)]
    two = {}
    for k, (A, B) in enumerate(pairs):
        two[(A, B)] = unpack_two_center(w[k])

    def eri(m, v, l, s):
        A, B, C, D = m // 4, v // 4, l // 4, s // 4
        if A != B or C != D:
            return 0  # zero differential overlap
        if A == C:
            return one_center_integral(m % 4, v % 4, l % 4, s % 4, *onec[A])
        if (A, C) in two:
            return two[(A, C)](m % 4, v % 4, l % 4, s % 4)
        if (C, A) in two:
            return two[(C, A)](l % 4, s % 4, m % 4, v % 4)
        return 0

    for m in range(n):
        for v in range(n):
            acc = 0
            for l in range(n):
                for s in range(n):
                    j = eri(m, v, l, s)
                    kx = eri(m, l, v, s)
                    if _is0(j) and _is0(kx):
                        continue
                    acc = acc + P[l][s] * (j - Fraction(1, 2) * kx)
            F[m][v] = F[m][v] + acc
    return F


def fock_spec_uhf(natoms, Pa, Pb, H, pairs, w, onec):
    """Unrestricted NDDO Fock matrices: F^s = h + J[P^a + P^b] - K[P^s]  (exchange only with the same spin, factor 1)."""
    n = 4 * natoms
    two = {}
    for k, (A, B) in enumerate(pairs):
        two[(A, B)] = unpack_two_center(w[k])

    def eri(m, v, l, s):
        A, B, C, D = m // 4, v // 4, l // 4, s // 4
        if A != B or C != D:
            return 0
        if A == C:
            return one_center_integral(m % 4, v % 4, l % 4, s % 4, *onec[A])
        if (A, C) in two:
            return two[(A, C)](m % 4, v % 4, l % 4, s % 4)
        if (C, A) in two:
            return two[(C, A)](l % 4, s % 4, m % 4, v % 4)
        return 0

    out = []
    for Ps in (Pa, Pb):
        F = [[H[i][j] for j in range(n)] for i in range(n)]
        for m in range(n):
            for v in range(n):
                acc = 0
                for l in range(n):
                    for s in range(n):
                        j = eri(m, v, l, s)
                        kx = eri(m, l, v, s)
                        if not _is0(j):
                            acc = acc + (Pa[l][s] + Pb[l][s]) * j
                        if not _is0(kx):
                            acc = acc - Ps[l][s] * kx
                F[m][v] = F[m][v] + acc
        out.append(F)
    return out
