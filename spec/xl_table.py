"""Published coefficients of the dissipative extended-Lagrangian (XL-BOMD) integrators:
A. M. N. Niklasson, P. Steneteg, A. Odell, N. Bock, M. Challacombe, C. J. Tymczak, E. Holmstrom, G. Zheng, V. Weber,
"Extended Lagrangian Born-Oppenheimer molecular dynamics with dissipation", J. Chem. Phys. 130, 214109 (2009), Table I.
K : (kappa, alpha * 1e3, [c_0 .. c_K]).  Typed from the publication, not from the PYSEQM source."""
from fractions import Fraction as F

TABLE = {
    3: ("1.69", "150", [-2, 3, 0, -1]),
    4: ("1.75", "57", [-3, 6, -2, -2, 1]),
    5: ("1.82", "18", [-6, 14, -8, -3, 4, -1]),
    6: ("1.84", "5.5", [-14, 36, -27, -2, 12, -6, 1]),
    7: ("1.86", "1.6", [-36, 99, -88, 11, 32, -25, 8, -1]),
    8: ("1.88", "0.44", [-99, 286, -286, 78, 78, -90, 42, -10, 1]),
    9: ("1.89", "0.12", [-286, 858, -936, 364, 168, -300, 184, -63, 12, -1]),
}


def published(k):
    kappa, a3, c = TABLE[k]
    return F(kappa), F(a3) / 1000, [F(x) for x in c]
